//! C18: replay of Settings.tla: construction paths x validation x use.
use crate::entries::*;
use crate::fuzz;
use crate::transport::*;
use crate::util::*;
use clap::Parser;
use gamedig::protocols::types::TimeoutSettings;
use rand::prelude::*;
use serde_json::{json, Value};
use std::panic::{catch_unwind, AssertUnwindSafe};
use std::time::Duration;

#[derive(Parser, Debug)]
struct Flags {
    #[command(flatten)]
    timeouts: TimeoutSettings,
}

fn dur(class: &str) -> Option<Duration> {
    match class {
        "none" => None,
        "zero" => Some(Duration::ZERO),
        "ns1" => Some(Duration::from_nanos(1)),
        "ms1" => Some(Duration::from_millis(1)),
        "max" => Some(Duration::from_secs(u64::MAX)),
        c => panic!("duration class {c}"),
    }
}

fn retries(class: &str) -> usize {
    match class {
        "0" => 0,
        "1" => 1,
        "2" => 2,
        "maxminus1" => usize::MAX - 1,
        _ => usize::MAX,
    }
}

/// Construct through the given path. Ok(Some) accepted, Ok(None) rejected, Err = panic message.
fn construct(cfg: &Value) -> Result<Option<TimeoutSettings>, String> {
    let (r, w, c) = (cfg["read"].as_str().unwrap(), cfg["write"].as_str().unwrap(), cfg["connect"].as_str().unwrap());
    let n = retries(cfg["retries"].as_str().unwrap());
    let path = cfg["path"].as_str().unwrap().to_string();
    let res = catch_unwind(AssertUnwindSafe(|| -> Result<Option<TimeoutSettings>, String> {
        match path.as_str() {
            "new" => {
                match TimeoutSettings::new(dur(r), dur(w), dur(c), n) {
                    Ok(t) => Ok(Some(t)),
                    Err(e) if e.kind == gamedig::GDErrorKind::InvalidInput => Ok(None),
                    Err(e) => Err(format!("constructor rejected with {:?} instead of InvalidInput", e.kind)),
                }
            }
            "default" => Ok(Some(TimeoutSettings::default())),
            "clap" => {
                // whole seconds; an omitted flag takes the documented default
                let mut args = vec!["prog".to_string()];
                let secs = |class: &str| -> Option<String> {
                    match class {
                        "none" => None,
                        "zero" => Some("0".into()),
                        "ms1" => Some("1".into()),
                        "max" => Some(u64::MAX.to_string()),
                        c => panic!("not expressible on the command line: {c}"),
                    }
                };
                for (flag, class) in [("--read-timeout", r), ("--write-timeout", w), ("--connect-timeout", c)] {
                    if let Some(s) = secs(class) {
                        args.push(flag.into());
                        args.push(s);
                    }
                }
                args.push("--retries".into());
                args.push(n.to_string());
                match Flags::try_parse_from(args) {
                    Ok(f) => Ok(Some(f.timeouts)),
                    Err(_) => Ok(None),
                }
            }
            "serde" => {
                let d = |class: &str| -> Value {
                    match dur(class) {
                        None => Value::Null,
                        Some(x) => json!({"secs": x.as_secs(), "nanos": x.subsec_nanos()}),
                    }
                };
                let j = json!({"connect": d(c), "read": d(r), "write": d(w), "retries": n as u64});
                match serde_json::from_value::<TimeoutSettings>(j) {
                    Ok(t) => Ok(Some(t)),
                    Err(_) => Ok(None),
                }
            }
            p => panic!("path {p}"),
        }
    }));
    match res {
        Ok(x) => x,
        Err(_) => Err(format!("panic {}", take_panic())),
    }
}

fn entry_name(e: &str) -> String {
    match e {
        "valve" => "valve::query".to_string(),
        "mcauto" => "mc::query".to_string(),
        "mclegacyauto" => "mc::query_legacy".to_string(),
        x => format!("proto:{x}"),
    }
}

pub fn replay(fctx: &fuzz::Ctx, lines: &[Value], seed: u64, rep: &mut Report, trace: &mut Vec<Value>) {
    let mut rng = StdRng::seed_from_u64(seed);
    for b in lines {
        let cfg = &b["cfg"];
        rep.evaluations += 1;
        rep.distinct.insert(hash_of(&cfg.to_string()));
        rep.sample(cfg);
        let want_accept = b["accept"].as_bool().unwrap();
        let path = cfg["path"].as_str().unwrap();
        let built = construct(cfg);
        trace.push(json!({"ev":"Build","cfg":cfg}));
        if let Ok(x) = &built {
            trace.push(json!({"ev":"Verdict","accepted":x.is_some()}));
        }
        let t = match built {
            Err(msg) => {
                rep.violation("C18", &format!("settings via {path}: {}", crate::valve::first_line(&msg)), json!({"kind":"settings","cfg":cfg,"detail":msg}));
                continue;
            }
            Ok(None) => {
                if want_accept {
                    rep.violation("C18", &format!("settings via {path}: a configuration without zero durations is rejected"), json!({"kind":"settings","cfg":cfg}));
                }
                continue;
            }
            Ok(Some(t)) => {
                if !want_accept {
                    rep.violation("C18", &format!("settings via {path}: a zero duration is accepted"), json!({"kind":"settings","cfg":cfg}));
                    // fall through: an accepted configuration must still be usable without panicking
                }
                t
            }
        };
        // use: one query per entry point. A huge retry count against a silent server is retried (legitimately) for ever,
        // so the server answers at once there: with a valid reply or a malformed one.
        let n = retries(cfg["retries"].as_str().unwrap());
        for e in b["entries"].as_array().unwrap() {
            let name = entry_name(e.as_str().unwrap());
            let scripts: Vec<(&str, Base2)> = {
                let base = fuzz::base_for(&mut rng, fctx, &name);
                let mut v = vec![("valid", Base2::Keep(base.clone()))];
                let mut malformed = base.clone();
                for (_, batches) in &mut malformed.conns {
                    for bt in batches.iter_mut() {
                        for d in bt.iter_mut() {
                            d.truncate(3);
                        }
                    }
                }
                // (a truncated reply can be a legitimate partial reply followed by silence, which is retried: only with
                // small retry counts)
                if n <= 2 {
                    v.push(("malformed", Base2::Keep(malformed)));
                    let mut silent = base.clone();
                    for (_, batches) in &mut silent.conns {
                        for bt in batches.iter_mut() {
                            bt.clear();
                        }
                    }
                    v.push(("silent", Base2::Keep(silent)));
                }
                v
            };
            for (what, Base2::Keep(base)) in scripts {
                let script = base.script();
                let mut c2 = base.cfg.clone();
                c2["retries"] = Value::Null;
                let rec = call_with_timeouts(&name, &c2, &script, t);
                rep.evaluations += 1;
                trace.push(json!({"ev":"Used","entry":name,"server":what,"returned": !matches!(rec.outcome, Outcome::Panic { .. } | Outcome::Hang)}));
                if let Outcome::Panic { msg } = &rec.outcome {
                    rep.violation(
                        "C18",
                        &format!("accepted settings (via {path}) panic in use: {}", crate::valve::first_line(msg)),
                        json!({"kind":"settings-use","cfg":cfg,"entry":name,"server":what,"panic":msg}),
                    );
                }
                if let Outcome::Hang = &rec.outcome {
                    rep.violation("C18", &format!("accepted settings (via {path}): query does not return"),
                                  json!({"kind":"settings-use","cfg":cfg,"entry":name,"server":what}));
                }
            }
        }
    }
}

/// Command-line texts beyond whole seconds: whatever spelling a flag accepts, the duration it yields is not zero
/// (a positive value below the clock's resolution must not round to an accepted zero) and can be used.
pub fn clap_texts(fctx: &fuzz::Ctx, seed: u64, rep: &mut Report) {
    let mut rng = StdRng::seed_from_u64(seed ^ 0x51ab);
    let texts = ["0", "00", "+0", "0.0", "0e5", "0.0000000001", "1e-10", "4e-10", "0.0000000004", "1e-30", "-0", "-1", "abc", "", " 1", "0x0",
                 "1", "0.5", "1.5", "18446744073709551615", "18446744073709551616", "1e30", "nan", "inf"];
    for flag in ["--read-timeout", "--write-timeout", "--connect-timeout"] {
        for text in texts {
            rep.evaluations += 1;
            rep.distinct.insert(hash_of(&(flag, text)));
            let args = vec!["prog".to_string(), format!("{flag}={text}")];
            let parsed = catch_unwind(AssertUnwindSafe(|| Flags::try_parse_from(args.clone())));
            let case = json!({"kind":"settings-clap-text","flag":flag,"text":text});
            let t = match parsed {
                Err(_) => {
                    rep.violation("C18", &format!("settings via clap: panic while parsing a flag value: {}", crate::valve::first_line(&take_panic())), case);
                    continue;
                }
                Ok(Err(_)) => continue, // rejected: fine for every text
                Ok(Ok(f)) => f.timeouts,
            };
            let (r, w) = TimeoutSettings::get_read_and_write_or_defaults(&Some(t));
            let c = TimeoutSettings::get_connect_or_default(&Some(t));
            if [r, w, c].iter().any(|d| *d == Some(Duration::ZERO)) {
                rep.violation("C18", "settings via clap: a flag value that denotes a zero duration is accepted", case.clone());
            }
            for name in ["valve::query", "proto:java"] {
                let base = fuzz::base_for(&mut rng, fctx, name);
                let script = base.script();
                let mut c2 = base.cfg.clone();
                c2["retries"] = Value::Null;
                let rec = call_with_timeouts(name, &c2, &script, t);
                rep.evaluations += 1;
                if let Outcome::Panic { msg } = &rec.outcome {
                    rep.violation("C18", &format!("accepted settings (via clap) panic in use: {}", crate::valve::first_line(msg)), case.clone());
                }
            }
        }
    }
}

/// Extra request settings of every value (C18: "whatever the values"): host names around the protocol's string limits in
/// bytes and characters, protocol versions at the ends of their range, every gather toggle and app-id flag, through the
/// definition-driven entry point of one game per family. Accepted means usable: a response or an error, never a panic.
pub fn extras_use(fctx: &fuzz::Ctx, seed: u64, rep: &mut Report) {
    let mut rng = StdRng::seed_from_u64(seed ^ 0xe87a);
    let hosts: Vec<String> = vec![
        String::new(), "a".into(), "a".repeat(255), "a".repeat(256), "a".repeat(300),
        "\u{e9}".repeat(127) + "a", "\u{e9}".repeat(128), "\u{4e2d}".repeat(85) + "a", "\u{4e2d}".repeat(100),
        "\u{1f600}".repeat(64), "a\0b".into(), "x".repeat(40_000),
    ];
    let versions = [i32::MIN, -1, 0, 47, 765, i32::MAX];
    for id in ["minecraftjava", "minecraft", "minecraftbedrock", "csgo", "killingfloor", "crysiswars", "q3a"] {
        let name = format!("generic:{id}");
        for (hi, h) in hosts.iter().enumerate() {
            let v = versions[(hi + id.len()) % versions.len()];
            let toggles = ["Skip", "Try", "Enforce"];
            let base = fuzz::base_for(&mut rng, fctx, &name);
            let script = base.script();
            let cfg = json!({"port": 27015, "retries": 0, "extra": {"hostname": h, "protocol_version": v,
                             "gather_players": toggles[hi % 3], "gather_rules": toggles[(hi / 3) % 3], "check_app_id": hi % 2 == 0}});
            let rec = crate::entries::call_entry(&name, &cfg, &script);
            rep.evaluations += 1;
            rep.distinct.insert(hash_of(&(id, hi)));
            let case = json!({"kind":"settings-extras","game":id,"hostname_chars":h.chars().count(),"hostname_bytes":h.len(),"protocol_version":v});
            match &rec.outcome {
                Outcome::Panic { msg } => rep.violation("C18", &format!("accepted extra request settings panic in use: {}", crate::valve::first_line(msg)), case),
                Outcome::Hang => rep.violation("C18", "accepted extra request settings: query does not return", case),
                _ => {}
            }
        }
    }
}

enum Base2 {
    Keep(fuzz::Base),
}

/// like entries::call_entry, with explicit timeout settings
fn call_with_timeouts(name: &str, cfg: &Value, script: &ScriptJ, t: TimeoutSettings) -> CallRecord {
    use crate::valve::{addr, engine_of, toggle};
    let a = addr(27015);
    let ip = a.ip();
    let m = 200_000;
    let ts = Some(t);
    if name == "valve::query" {
        let engine = engine_of(&cfg["engine"]);
        let g = gamedig::protocols::valve::GatheringSettings {
            players: toggle(cfg["gp"].as_str().unwrap_or("Try")),
            rules: toggle(cfg["gr"].as_str().unwrap_or("Try")),
            check_app_id: false,
        };
        return run_call(script, m, || gamedig::protocols::valve::query(&a, engine, Some(g), ts));
    }
    use gamedig::games::{ffow, jc2m, mindustry, minecraft, savage2};
    use gamedig::protocols::{gamespy, quake, unreal2};
    if name == "mc::query" {
        return run_call(script, m, || minecraft::protocol::query(&a, ts, None));
    }
    if name == "mc::query_legacy" {
        return run_call(script, m, || minecraft::protocol::query_legacy(&a, ts));
    }
    match name.strip_prefix("proto:").unwrap() {
        "quake2" => run_call(script, m, || quake::two::query(&a, ts)),
        "gs1" => run_call(script, m, || gamespy::one::query(&a, ts)),
        "gs2" => run_call(script, m, || gamespy::two::query(&a, ts)),
        "gs3" => run_call(script, m, || gamespy::three::query(&a, ts)),
        "unreal2" => run_call(script, m, || unreal2::query(&a, &unreal2::GatheringSettings::default(), ts)),
        "java" => run_call(script, m, || minecraft::protocol::query_java(&a, ts, None)),
        "bedrock" => run_call(script, m, || minecraft::protocol::query_bedrock(&a, ts)),
        "legacy14" => run_call(script, m, || minecraft::protocol::query_legacy_specific(minecraft::LegacyGroup::V1_4, &a, ts)),
        "mindustry" => run_call(script, m, || mindustry::query(&ip, Some(27015), &ts)),
        "savage2" => run_call(script, m, || savage2::query_with_timeout(&ip, Some(27015), ts)),
        "ffow" => run_call(script, m, || ffow::query_with_timeout(&ip, Some(27015), ts)),
        "jc2m" => run_call(script, m, || jc2m::query_with_timeout(&ip, Some(27015), ts)),
        e => panic!("settings use: entry {e}"),
    }
}


/// Accepted extreme configurations on real loopback sockets (no scripted transport): a UDP and a TCP server that
/// answer at once, so even "block indefinitely" / u64::MAX-second timeouts return.
pub fn real_sockets(rep: &mut Report) {
    use std::io::{Read, Write};
    use std::net::{TcpListener, UdpSocket};
    let udp = UdpSocket::bind("127.0.0.1:0").unwrap();
    let uaddr = udp.local_addr().unwrap();
    udp.set_read_timeout(Some(Duration::from_millis(200))).unwrap();
    let tcp = TcpListener::bind("127.0.0.1:0").unwrap();
    let taddr = tcp.local_addr().unwrap();
    tcp.set_nonblocking(true).unwrap();
    let stop = std::sync::Arc::new(std::sync::atomic::AtomicBool::new(false));
    let s2 = stop.clone();
    let server = std::thread::spawn(move || {
        let reply = b"\xff\xff\xff\xffprint\n\\hostname\\h\\mapname\\m\\maxclients\\8\n";
        let mut buf = [0u8; 2048];
        while !s2.load(std::sync::atomic::Ordering::Relaxed) {
            if let Ok((_, from)) = udp.recv_from(&mut buf) {
                let _ = udp.send_to(reply, from);
            }
            if let Ok((mut st, _)) = tcp.accept() {
                let _ = st.set_read_timeout(Some(Duration::from_millis(200)));
                let mut b = [0u8; 64];
                let _ = st.read(&mut b);
                // legacy 1.4 kick packet: "a§1§2"
                let text: Vec<u16> = "a\u{a7}1\u{a7}2".encode_utf16().collect();
                let mut d = vec![0xffu8];
                d.extend((text.len() as u16).to_be_bytes());
                for u in text {
                    d.extend(u.to_be_bytes());
                }
                let _ = st.write_all(&d);
            }
        }
    });
    let classes = ["none", "ns1", "ms1", "max"];
    for r in classes {
        for w in classes {
            for c in classes {
                // a read timeout of 1 ns can legitimately time out before the reply: only panics matter here
                let t = match TimeoutSettings::new(dur(r), dur(w), dur(c), 0) {
                    Ok(t) => t,
                    Err(_) => continue,
                };
                for kind in ["udp", "tcp", "http"] {
                    rep.evaluations += 1;
                    rep.distinct.insert(hash_of(&(r, w, c, kind)));
                    let res = catch_unwind(AssertUnwindSafe(|| {
                        if kind == "udp" {
                            gamedig::protocols::quake::two::query(&uaddr, Some(t)).map(|_| ()).map_err(|e| e.kind)
                        } else if kind == "http" {
                            // the HTTP client (Eco) takes its timeouts from the same settings; the peer answers with bytes that
                            // are no HTTP response and closes: an error, promptly, whatever the durations
                            gamedig::games::eco::query_with_timeout(&taddr.ip(), Some(taddr.port()), &Some(t)).map(|_| ()).map_err(|e| e.kind)
                        } else {
                            gamedig::games::minecraft::protocol::query_legacy_specific(gamedig::games::minecraft::LegacyGroup::V1_4, &taddr, Some(t))
                                .map(|_| ())
                                .map_err(|e| e.kind)
                        }
                    }));
                    if res.is_err() {
                        let msg = take_panic();
                        rep.violation(
                            "C18",
                            &format!("accepted settings panic on a real {kind} socket: {}", crate::valve::first_line(&msg)),
                            json!({"kind":"settings-real","read":r,"write":w,"connect":c,"socket":kind,"panic":msg}),
                        );
                    }
                }
            }
        }
    }
    rep.sample(&json!({"real_socket_cases": rep.evaluations}));
    stop.store(true, std::sync::atomic::Ordering::Relaxed);
    let _ = server.join();
}
