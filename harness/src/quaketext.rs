//! Replay of QuakeText.tla: every short variables fragment / player line through the real Quake queries (C05; C01 for the
//! lines outside the grammar).
use crate::transport::*;
use crate::util::*;
use crate::valve::{addr, first_line, timeouts};
use gamedig::protocols::quake;
use serde_json::{json, Value};

/// ("#" in the model stands for a two-byte character)
fn text_of(v: &Value) -> String {
    v.as_array().map(|a| a.iter().map(|c| c.as_str().unwrap_or("")).collect::<String>()).unwrap_or_default().replace('#', "\u{e9}")
}

pub fn replay(lines: &[Value], rep: &mut Report) {
    for c in lines {
        let kind = c["kind"].as_str().unwrap();
        let line = text_of(&c["line"]);
        let indomain = c["indomain"].as_bool().unwrap();
        rep.distinct.insert(hash_of(&(kind, line.clone())));
        if kind == "gs1" {
            gs1_case(c, &line, indomain, rep);
            continue;
        }
        if kind == "gs3" {
            gs3_case(c, &line, indomain, rep);
            continue;
        }
        // the three clients share the text grammar; the player line is the Quake 2 / 3 one
        let clients: &[&str] = if kind == "kv" { &["one", "two", "three"] } else { &["two", "three"] };
        for cl in clients {
            let header: &[u8] = match *cl {
                "one" => b"n",
                "two" => b"print\n",
                _ => b"statusResponse\n",
            };
            let mut d = vec![0xff, 0xff, 0xff, 0xff];
            d.extend(header);
            d.extend(b"\\hostname\\h\\mapname\\m\\maxclients\\8");
            if kind == "kv" {
                d.extend(line.as_bytes());
                d.push(b'\n');
            } else {
                d.push(b'\n');
                d.extend(line.as_bytes());
                d.push(b'\n');
            }
            let script = ScriptJ::udp(vec![vec![d]]);
            let a = addr(27015);
            let rec = match *cl {
                "one" => run_call(&script, DEFAULT_MAX_OPS, || quake::one::query(&a, timeouts(0))),
                "two" => run_call(&script, DEFAULT_MAX_OPS, || quake::two::query(&a, timeouts(0))),
                _ => run_call(&script, DEFAULT_MAX_OPS, || quake::three::query(&a, timeouts(0))),
            };
            rep.evaluations += 1;
            let case = json!({"kind":"quaketext","case":c,"client":cl,"script":script});
            match &rec.outcome {
                Outcome::Panic { msg } => {
                    rep.violation("C01", &format!("quake {kind} line: panic {}", first_line(msg)), case);
                    continue;
                }
                Outcome::Hang => {
                    rep.violation("C01", &format!("quake {kind} line: does not return"), case);
                    continue;
                }
                _ => {}
            }
            if !indomain {
                continue; // outside the grammar: an error or a response, the property does not say which
            }
            let Outcome::Ok(v) = &rec.outcome else {
                rep.violation("C05", &format!("quake {kind} line inside the grammar is rejected with {}", rec.outcome.class()), case);
                continue;
            };
            if kind == "kv" {
                let mut want = serde_json::Map::new();
                for p in c["expected"].as_array().unwrap() {
                    want.insert(text_of(&p[0]), json!(text_of(&p[1])));
                }
                if v["unused_entries"] != Value::Object(want.clone()) || v["name"] != "h" || v["map"] != "m" || v["players_maximum"] != 8 {
                    rep.violation("C05", "quake variables line: variables differ from the line sent", json!({"kind":"quaketext","case":c,"client":cl,
                        "got":{"unused":v["unused_entries"],"name":v["name"],"map":v["map"],"max":v["players_maximum"]}}));
                }
            } else {
                let e = &c["expected"][0];
                let players = v["players"].as_array().cloned().unwrap_or_default();
                let ok = players.len() == 1 && v["players_online"] == 1 && {
                    let p = &players[0];
                    p["score"] == e["score"]
                        && p["ping"] == e["ping"]
                        && p["name"] == json!(text_of(&e["name"]))
                        && (if e["hasaddr"] == true { p["address"] == json!(text_of(&e["address"])) } else { p["address"].is_null() })
                };
                if !ok {
                    rep.violation("C05", "quake player line: the player differs from the line sent", json!({"kind":"quaketext","case":c,"client":cl,"got":players}));
                }
            }
        }
        rep.sample(&json!({"kind": kind, "line": line, "indomain": indomain}));
    }
}


/// the same fragment inside a GameSpy 1 reply, through the raw-variables query (C04)
fn gs1_case(c: &Value, line: &str, indomain: bool, rep: &mut Report) {
    let mut d = b"\\hostname\\h".to_vec();
    d.extend(line.as_bytes());
    d.extend(b"\\queryid\\5.1\\final\\");
    let script = ScriptJ::udp(vec![vec![d]]);
    let a = addr(27015);
    let rec = run_call(&script, DEFAULT_MAX_OPS, || gamedig::protocols::gamespy::one::query_vars(&a, timeouts(0)));
    rep.evaluations += 1;
    let case = json!({"kind":"quaketext","case":c,"client":"gs1vars","script":script});
    match &rec.outcome {
        Outcome::Panic { msg } => return rep.violation("C01", &format!("gamespy 1 variables: panic {}", first_line(msg)), case),
        Outcome::Hang => return rep.violation("C01", "gamespy 1 variables: does not return", case),
        _ => {}
    }
    if !indomain {
        return;
    }
    let Outcome::Ok(v) = &rec.outcome else {
        return rep.violation("C04", &format!("gamespy 1 variables inside the grammar are rejected with {}", rec.outcome.class()), case);
    };
    let mut want = serde_json::Map::new();
    want.insert("hostname".into(), json!("h"));
    for p in c["expected"].as_array().unwrap() {
        want.insert(text_of(&p[0]), json!(text_of(&p[1])));
    }
    if *v != Value::Object(want) {
        rep.violation("C04", "gamespy 1 variables differ from the pairs sent", json!({"kind":"quaketext","case":c,"got":v}));
    }
}


/// the NUL-separated variables of a GameSpy 3 reply ("0" in the model is the NUL byte), through the raw-variables query (C04)
fn gs3_case(c: &Value, line: &str, indomain: bool, rep: &mut Report) {
    let nul = |s: &str| s.replace('0', "\0");
    let mut d = vec![0u8, 0, 0, 0, 1];
    d.extend(b"splitnum\0\x80\0");
    d.extend(b"hostname\0h\0");
    d.extend(nul(line).as_bytes());
    d.push(0);
    let script = ScriptJ::udp(vec![vec![crate::proto::gs3_handshake_reply(77)], vec![d]]);
    let a = addr(27015);
    let rec = run_call(&script, DEFAULT_MAX_OPS, || gamedig::protocols::gamespy::three::query_vars(&a, timeouts(0)));
    rep.evaluations += 1;
    let case = json!({"kind":"quaketext","case":c,"client":"gs3vars","script":script});
    match &rec.outcome {
        Outcome::Panic { msg } => return rep.violation("C01", &format!("gamespy 3 variables: panic {}", first_line(msg)), case),
        Outcome::Hang => return rep.violation("C01", "gamespy 3 variables: does not return", case),
        _ => {}
    }
    if !indomain {
        return;
    }
    let Outcome::Ok(v) = &rec.outcome else {
        return rep.violation("C04", &format!("gamespy 3 variables inside the grammar are rejected with {}", rec.outcome.class()), case);
    };
    let mut want = serde_json::Map::new();
    want.insert("hostname".into(), json!("h"));
    for p in c["expected"].as_array().unwrap() {
        want.insert(text_of(&p[0]), json!(text_of(&p[1])));
    }
    if *v != Value::Object(want) {
        rep.violation("C04", "gamespy 3 variables differ from the pairs sent", json!({"kind":"quaketext","case":c,"got":v}));
    }
}
