mod alloc;
mod c07x;
mod c08;
mod c12;
mod c14;
mod c15;
mod c17;
mod cli;
mod entries;
mod exchange;
mod exchange2;
mod fuzz;
mod idrules;
mod layout;
mod master;
mod mctext;
mod proto;
mod quaketext;
mod settings;
mod template;
mod valve;
mod transport;
mod util;

use serde_json::{json, Value};
use util::*;

#[global_allocator]
static GLOBAL: alloc::Counting = alloc::Counting;

fn arg<'a>(args: &'a [String], name: &str) -> Option<&'a str> {
    args.iter().position(|a| a == name).and_then(|i| args.get(i + 1)).map(|s| s.as_str())
}
fn arg_u64(args: &[String], name: &str, default: u64) -> u64 {
    arg(args, name).map(|s| s.parse().expect("numeric argument")).unwrap_or(default)
}

fn drift_ids() -> Vec<String> {
    let v: Value = serde_json::from_str(&std::fs::read_to_string("/verif/spec/drift.json").expect("spec/drift.json"))
        .expect("drift.json is json");
    v["drift"].as_array().unwrap().iter().map(|d| d["id"].as_str().unwrap().to_string()).collect()
}

fn replay_one(r: &Value, prop: &str, rep: &mut Report) {
    let prop: &'static str = Box::leak(prop.to_string().into_boxed_str());
    match r["kind"].as_str().unwrap_or("") {
        "proto-layout" => {
            let script: transport::ScriptJ = serde_json::from_value(r["script"].clone()).unwrap();
            let entry = r["entry"].as_str().unwrap();
            let rec = proto::call(entry, &script, 27015, 0, None);
            for e in &rec.events {
                eprintln!("{}", transport::event_json(e));
            }
            eprintln!("outcome: {}", rec.outcome.to_json());
            let b = proto::Built {
                batches: vec![],
                tcp: false,
                expected: r["expected"].clone(),
                unordered: r["unordered"].as_array().cloned().unwrap_or_default(),
                values: Default::default(),
                multi: None,
                fits: true,
            };
            rep.evaluations += 1;
            proto::judge_value(prop, entry, &r["case"], &b, &script, &rec, rep);
        }
        "fuzz-case" => {
            let script: transport::ScriptJ = serde_json::from_value(r["script"].clone()).unwrap();
            let rec = entries::call_entry(r["entry"].as_str().unwrap(), &r["cfg"], &script);
            for e in rec.events.iter().take(60) {
                let j = transport::event_json(e).to_string();
                eprintln!("{}", &j[.. j.len().min(300)]);
            }
            eprintln!("outcome: {} alloc peak {} max {}", rec.outcome.to_json().to_string().chars().take(600).collect::<String>(), rec.alloc_peak, rec.alloc_max);
            rep.evaluations += 1;
            match &rec.outcome {
                transport::Outcome::Panic { msg } => rep.violation("C01", &format!("panic {}", valve::first_line(msg)), r.clone()),
                transport::Outcome::Hang => rep.violation("C01", "does not return", r.clone()),
                _ => {}
            }
            if rec.alloc_max > fuzz::MAX_SINGLE || rec.alloc_peak > fuzz::MAX_LIVE {
                rep.violation("C13", "allocation above the allowance", r.clone());
            }
        }
        "valve-layout" | "valve-trace" | "valve-behaviour" => {
            // the recorded script against valve::query with the case's engine (diagnosis: prints every socket event)
            let script: transport::ScriptJ = serde_json::from_value(r["script"].clone()).unwrap();
            let engine_j = if r["case"]["engine"].is_object() { r["case"]["engine"].clone() } else { r["engine"].clone() };
            let engine = valve::engine_of(&engine_j);
            let cfg = &r["cfg"];
            let g = gamedig::protocols::valve::GatheringSettings {
                players: valve::toggle(cfg["gp"].as_str().unwrap_or("Enforce")),
                rules: valve::toggle(cfg["gr"].as_str().unwrap_or("Enforce")),
                check_app_id: cfg["check"].as_bool().unwrap_or(false),
            };
            let retries = cfg["r"].as_u64().unwrap_or(0) as usize;
            let rec = transport::run_call(&script, transport::DEFAULT_MAX_OPS, move || {
                gamedig::protocols::valve::query(&valve::addr(27015), engine, Some(g), valve::timeouts(retries))
            });
            for e in &rec.events {
                let j = transport::event_json(e).to_string();
                eprintln!("{}", &j[.. j.len().min(160)]);
            }
            eprintln!("outcome: {}", rec.outcome.to_json().to_string().chars().take(300).collect::<String>());
            rep.evaluations += 1;
        }
        "exchange-trace" => {
            let script: transport::ScriptJ = serde_json::from_value(r["script"].clone()).unwrap();
            let rec = proto::call(r["proto"].as_str().unwrap(), &script, 27015, r["r"].as_u64().unwrap_or(0) as usize, None);
            for e in &rec.events {
                let j = transport::event_json(e).to_string();
                eprintln!("{}", &j[.. j.len().min(160)]);
            }
            eprintln!("outcome: {}", rec.outcome.to_json().to_string().chars().take(300).collect::<String>());
            rep.evaluations += 1;
        }
        "buffer-transition" => c17::replay_buffer(&[r["case"].clone()], rep),
        "varint-case" => c17::replay_varint(&[r["case"].clone()], rep),
        k => {
            eprintln!("replay of kind {k:?} is not supported by the harness; re-run the check instead");
            std::process::exit(2);
        }
    }
}

fn main() {
    install_panic_hook();
    let args: Vec<String> = std::env::args().collect();
    let cmd = args.get(1).map(|s| s.as_str()).unwrap_or("");
    let seed = arg_u64(&args, "--seed", 1);
    let mut rep = Report::new();
    if let Some(rp) = arg(&args, "--report") {
        transport::start_watchdog(format!("{rp}.hang"));
    }
    let outcome = std::panic::catch_unwind(std::panic::AssertUnwindSafe(|| run(cmd, &args, seed, &mut rep)));
    if outcome.is_err() {
        eprintln!("HARNESS-PANIC: {}", take_panic());
        std::process::exit(3);
    }
    let j = rep.to_json();
    match arg(&args, "--report") {
        Some(p) => std::fs::write(p, serde_json::to_string(&j).unwrap()).expect("write report"),
        None => println!("{}", j),
    }
}

fn run(cmd: &str, args: &[String], seed: u64, rep: &mut Report) {
    let mut rep = rep;
    let args: Vec<String> = args.to_vec();
    match cmd {
        "c17-replay-buffer" => c17::replay_buffer(&read_ndjson(arg(&args, "--in").unwrap()), &mut rep),
        "c17-replay-varint" => c17::replay_varint(&read_ndjson(arg(&args, "--in").unwrap()), &mut rep),
        "c17-sweep" => {
            let lo = arg_u64(&args, "--lo", 0);
            let hi = arg_u64(&args, "--hi", 1 << 32);
            let threads = arg_u64(&args, "--threads", 8);
            let step = (hi - lo + threads - 1) / threads;
            let hs: Vec<_> = (0 .. threads)
                .map(|t| {
                    std::thread::spawn(move || {
                        let mut r = Report::new();
                        let a = lo + t * step;
                        let b = (a + step).min(hi);
                        if a < b {
                            c17::sweep_varint(a, b, &mut r);
                        }
                        r
                    })
                })
                .collect();
            for h in hs {
                let r = h.join().expect("sweep thread");
                rep.evaluations += r.evaluations;
                for v in r.violations {
                    rep.violation(v["property"].as_str().unwrap(), v["sig"].as_str().unwrap(), v["replay"].clone());
                }
            }
            rep.samples.push(json!({"sweep":[lo,hi]}));
        }
        "c17-misc" => {
            c17::utils_grid(&mut rep);
            c17::random_strings(seed, arg_u64(&args, "--n", 20000) as usize, &mut rep);
        }
        "c17-trace" => {
            let mut out: Vec<Value> = Vec::new();
            c17::trace_buffer(seed, arg_u64(&args, "--runs", 2000) as usize, &mut out, &mut rep);
            rep.extra.insert("events".into(), json!(out.len()));
            write_ndjson(arg(&args, "--out-trace").unwrap(), &out);
        }
        "valve-behaviours" | "valve-layouts" => {
            let ctx = valve::Ctx {
                layouts: layout::LayoutSet::load(arg(&args, "--layouts").unwrap()),
                templates: template::Templates::load(arg(&args, "--templates").unwrap()),
                drift: drift_ids(),
            };
            let reps = arg_u64(&args, "--reps", 1) as usize;
            if cmd == "valve-layouts" {
                valve::replay_layouts(&ctx, seed, reps, &mut rep);
            } else {
                let only: Vec<&'static str> = arg(&args, "--only")
                    .map(|s| s.split(',').map(|x| &*Box::leak(x.to_string().into_boxed_str())).collect())
                    .unwrap_or_default();
                valve::replay_behaviours(&ctx, &read_ndjson(arg(&args, "--in").unwrap()), seed, reps, &only, &mut rep);
            }
        }
        "proto-layouts" => {
            let layouts = layout::LayoutSet::load(arg(&args, "--layouts").unwrap());
            let protos: Vec<&str> = arg(&args, "--protos").unwrap().split(',').collect();
            proto::replay_layouts(&layouts, &protos, seed, arg_u64(&args, "--reps", 1) as usize, &mut rep);
        }
        "reassembly" => {
            let ctx = valve::Ctx {
                layouts: layout::LayoutSet::load(arg(&args, "--layouts").unwrap()),
                templates: template::Templates::load(arg(&args, "--templates").unwrap()),
                drift: drift_ids(),
            };
            let all = layout::LayoutSet::load(arg(&args, "--layouts").unwrap());
            c08::replay(&ctx, &all, &read_ndjson(arg(&args, "--in").unwrap()), seed, arg_u64(&args, "--reps", 1) as usize, &mut rep);
        }
        "reassembly-trace" => {
            let ctx = valve::Ctx {
                layouts: layout::LayoutSet::load(arg(&args, "--layouts").unwrap()),
                templates: template::Templates::load(arg(&args, "--templates").unwrap()),
                drift: drift_ids(),
            };
            let all = layout::LayoutSet::load(arg(&args, "--layouts").unwrap());
            let mut trace = Vec::new();
            c08::trace_random(&ctx, &all, seed, arg_u64(&args, "--runs", 1000) as usize, &mut rep, &mut trace);
            write_ndjson(arg(&args, "--out-trace").unwrap(), &trace);
        }
        "fuzz" => {
            let threads = arg_u64(&args, "--threads", 8) as usize;
            let stage = arg(&args, "--stage").unwrap_or("bytes").to_string();
            let all = fuzz::all_entries();
            let filt = arg(&args, "--entries").unwrap_or("all").to_string();
            let chosen: Vec<String> = if filt == "all" {
                all
            } else {
                all.into_iter().filter(|e| filt.split(',').any(|f| e.starts_with(f))).collect()
            };
            let lay = arg(&args, "--layouts").unwrap().to_string();
            let tp = arg(&args, "--templates").unwrap().to_string();
            let muts = arg(&args, "--mutations").unwrap().to_string();
            let nbases = arg_u64(&args, "--nbases", 1) as usize;
            let per_entry = arg_u64(&args, "--per-entry", 200) as usize;
            let maxpos = arg_u64(&args, "--max-positions", 40) as usize;
            let journal_path = arg(&args, "--journal").map(|s| s.to_string());
            let out_trace = arg(&args, "--out-trace").map(|s| s.to_string());
            let mut handles = Vec::new();
            for t in 0 .. threads {
                let part = out_trace.as_ref().map(|p| format!("{p}.part{t}"));
                let mine: Vec<String> = chosen.iter().enumerate().filter(|(i, _)| i % threads == t).map(|(_, e)| e.clone()).collect();
                let (lay, tp, muts, stage, jp) = (lay.clone(), tp.clone(), muts.clone(), stage.clone(), journal_path.clone());
                handles.push(std::thread::Builder::new().stack_size(64 << 20).spawn(move || {
                    let ctx = fuzz::Ctx {
                        v: valve::Ctx {
                            layouts: layout::LayoutSet::load(&lay),
                            templates: template::Templates::load(&tp),
                            drift: drift_ids(),
                        },
                        mutations: read_ndjson(&muts),
                    };
                    let mut r = Report::new();
                    let mut trace = Vec::new();
                    if let Some(p) = &part {
                        fuzz::set_spill(p);
                    }
                    let mut journal = jp.map(|p| std::fs::File::create(format!("{p}.{t}")).expect("journal"));
                    let res = std::panic::catch_unwind(std::panic::AssertUnwindSafe(|| {
                        if stage == "structured" {
                            fuzz::structured(&ctx, &mine, seed.wrapping_add(t as u64), nbases, maxpos, &mut r, &mut trace, &mut journal);
                        } else {
                            fuzz::bytes_stage(&ctx, &mine, seed.wrapping_add(1000 + t as u64), per_entry, &mut r, &mut trace, &mut journal);
                        }
                    }));
                    if res.is_err() {
                        r.tool_error(&format!("harness panic in fuzz thread: {}", take_panic()));
                    }
                    let first: Vec<Value> = trace.iter().take(1).cloned().collect();
                    let n = if part.is_some() { fuzz::finish_spill(&mut trace) } else { trace.len() as u64 };
                    (r, first, n)
                }).unwrap());
            }
            let mut events = 0u64;
            for h in handles {
                let (r, tr, n) = h.join().expect("fuzz thread");
                events += n;
                rep.evaluations += r.evaluations;
                rep.distinct.extend(r.distinct);
                for v in r.violations {
                    rep.violation(Box::leak(v["property"].as_str().unwrap().to_string().into_boxed_str()), v["sig"].as_str().unwrap(), v["replay"].clone());
                }
                for (k, n) in r.violation_sigs {
                    let e = rep.violation_sigs.entry(k).or_insert(0);
                    *e = (*e).max(n);
                }
                for e in r.tool_errors {
                    rep.tool_error(&e);
                }
                if rep.samples.len() < 4 {
                    if let Some(x) = tr.iter().take(12).cloned().collect::<Vec<_>>().into_iter().reduce(|a, _| a) {
                        rep.samples.push(json!({"first_trace_event": x}));
                    }
                }
            }
            rep.extra.insert("events".into(), json!(events));
            rep.extra.insert("entries".into(), json!(chosen.len()));
            if let Some(p) = &out_trace {
                // the per-thread part files, one after the other (every part is a sequence of whole runs)
                let mut o = std::io::BufWriter::new(std::fs::File::create(p).expect("trace file"));
                for t in 0 .. threads {
                    let part = format!("{p}.part{t}");
                    if let Ok(mut f) = std::fs::File::open(&part) {
                        std::io::copy(&mut f, &mut o).expect("copy trace part");
                    }
                    let _ = std::fs::remove_file(&part);
                }
            }
        }
        "settings" => {
            let ctx = fuzz::Ctx {
                v: valve::Ctx {
                    layouts: layout::LayoutSet::load(arg(&args, "--layouts").unwrap()),
                    templates: template::Templates::load(arg(&args, "--templates").unwrap()),
                    drift: drift_ids(),
                },
                mutations: vec![],
            };
            let mut trace = Vec::new();
            settings::replay(&ctx, &read_ndjson(arg(&args, "--in").unwrap()), seed, &mut rep, &mut trace);
            if let Some(p) = arg(&args, "--out-trace") {
                write_ndjson(p, &trace);
            }
            settings::clap_texts(&ctx, seed, &mut rep);
            settings::extras_use(&ctx, seed, &mut rep);
        }
        "common-view" => {
            let ctx = fuzz::Ctx {
                v: valve::Ctx {
                    layouts: layout::LayoutSet::load(arg(&args, "--layouts").unwrap()),
                    templates: template::Templates::load(arg(&args, "--templates").unwrap()),
                    drift: drift_ids(),
                },
                mutations: vec![],
            };
            c15::replay(&ctx, &read_ndjson(arg(&args, "--in").unwrap()), seed, arg_u64(&args, "--reps", 50) as usize, &mut rep);
        }
        "dispatch" => {
            let ctx = fuzz::Ctx {
                v: valve::Ctx {
                    layouts: layout::LayoutSet::load(arg(&args, "--layouts").unwrap()),
                    templates: template::Templates::load(arg(&args, "--templates").unwrap()),
                    drift: drift_ids(),
                },
                mutations: vec![],
            };
            let mut trace = Vec::new();
            c14::replay(&ctx, seed, arg_u64(&args, "--reps", 8) as usize, &mut rep, &mut trace);
            c14::eco_ports(&mut rep, &mut trace);
            write_ndjson(arg(&args, "--out-trace").unwrap(), &trace);
        }
        "destinations" => {
            c14::destinations(seed, &mut rep);
        }
        "idrules" => {
            let mut trace = Vec::new();
            idrules::replay(&read_ndjson(arg(&args, "--in").unwrap()), seed, arg_u64(&args, "--reps", 2) as usize, &mut rep, &mut trace);
            write_ndjson(arg(&args, "--out-trace").unwrap(), &trace);
        }
        "real-sockets" => {
            let ctx = fuzz::Ctx {
                v: valve::Ctx {
                    layouts: layout::LayoutSet::load(arg(&args, "--layouts").unwrap()),
                    templates: template::Templates::load(arg(&args, "--templates").unwrap()),
                    drift: drift_ids(),
                },
                mutations: vec![],
            };
            c12::replay(&ctx, &read_ndjson(arg(&args, "--in").unwrap()), seed, &mut rep);
        }
        "cli" => {
            let ctx = fuzz::Ctx {
                v: valve::Ctx {
                    layouts: layout::LayoutSet::load(arg(&args, "--layouts").unwrap()),
                    templates: template::Templates::load(arg(&args, "--templates").unwrap()),
                    drift: drift_ids(),
                },
                mutations: vec![],
            };
            cli::replay(&ctx, arg(&args, "--bin").unwrap(), &read_ndjson(arg(&args, "--in").unwrap()), seed, arg_u64(&args, "--reps", 1) as usize, &mut rep);
            let trace = cli::take_trace();
            if let Some(p) = arg(&args, "--out-trace") {
                write_ndjson(p, &trace);
            }
        }
        "exchange-behaviours" => {
            let ctx = exchange::Ctx {
                layouts: layout::LayoutSet::load(arg(&args, "--layouts").unwrap()),
                templates: template::Templates::load(arg(&args, "--templates").unwrap()),
            };
            let only: Vec<&'static str> = arg(&args, "--only")
                .map(|s| s.split(',').map(|x| &*Box::leak(x.to_string().into_boxed_str())).collect())
                .unwrap_or_default();
            exchange::replay(&ctx, &read_ndjson(arg(&args, "--in").unwrap()), seed, arg_u64(&args, "--reps", 1) as usize, &only, &mut rep);
        }
        "minecraft-behaviours" => {
            let l = layout::LayoutSet::load(arg(&args, "--layouts").unwrap());
            exchange2::replay_minecraft(&l, &read_ndjson(arg(&args, "--in").unwrap()), seed, arg_u64(&args, "--reps", 1) as usize, &mut rep);
        }
        "unreal2-behaviours" => {
            let l = layout::LayoutSet::load(arg(&args, "--layouts").unwrap());
            let only: Vec<&'static str> = arg(&args, "--only")
                .map(|s| s.split(',').map(|x| &*Box::leak(x.to_string().into_boxed_str())).collect())
                .unwrap_or_default();
            exchange2::replay_unreal2(&l, &read_ndjson(arg(&args, "--in").unwrap()), seed, arg_u64(&args, "--reps", 1) as usize, &only, &mut rep);
        }
        "gamemaps" => {
            let ctx = valve::Ctx {
                layouts: layout::LayoutSet::load(arg(&args, "--layouts").unwrap()),
                templates: template::Templates::load(arg(&args, "--templates").unwrap()),
                drift: drift_ids(),
            };
            c07x::replay(&ctx, &read_ndjson(arg(&args, "--in").unwrap()), seed, arg_u64(&args, "--reps", 50) as usize, &mut rep);
        }
        "mctext" => mctext::replay(&read_ndjson(arg(&args, "--in").unwrap()), &mut rep),
        "quaketext" => quaketext::replay(&read_ndjson(arg(&args, "--in").unwrap()), &mut rep),
        "exchange-trace" => {
            let ctx = exchange::Ctx {
                layouts: layout::LayoutSet::load(arg(&args, "--layouts").unwrap()),
                templates: template::Templates::load(arg(&args, "--templates").unwrap()),
            };
            let mut trace = Vec::new();
            exchange::trace_random(&ctx, seed, arg_u64(&args, "--runs", 2000) as usize, arg(&args, "--dump-run").map(|x| x.parse().unwrap()), &mut trace, &mut rep);
            rep.extra.insert("events".into(), json!(trace.len()));
            write_ndjson(arg(&args, "--out-trace").unwrap(), &trace);
        }
        "master-trace" => {
            let mut trace = Vec::new();
            master::trace_paging(seed, arg_u64(&args, "--runs", 2000) as usize, &mut trace, &mut rep);
            rep.extra.insert("events".into(), json!(trace.len()));
            write_ndjson(arg(&args, "--out-trace").unwrap(), &trace);
        }
        "unreal2-trace" => {
            let layouts = layout::LayoutSet::load(arg(&args, "--layouts").unwrap());
            let mut trace = Vec::new();
            exchange2::trace_unreal2(&layouts, seed, arg_u64(&args, "--runs", 2000) as usize, arg(&args, "--dump-run").map(|x| x.parse().unwrap()), &mut trace, &mut rep);
            rep.extra.insert("events".into(), json!(trace.len()));
            write_ndjson(arg(&args, "--out-trace").unwrap(), &trace);
        }
        "valve-trace" => {
            let ctx = valve::Ctx {
                layouts: layout::LayoutSet::load(arg(&args, "--layouts").unwrap()),
                templates: template::Templates::load(arg(&args, "--templates").unwrap()),
                drift: drift_ids(),
            };
            let mut trace = Vec::new();
            valve::trace_random(&ctx, seed, arg_u64(&args, "--runs", 2000) as usize, arg(&args, "--dump-run").map(|x| x.parse().unwrap()), &mut trace, &mut rep);
            rep.extra.insert("events".into(), json!(trace.len()));
            write_ndjson(arg(&args, "--out-trace").unwrap(), &trace);
        }
        "settings-real" => settings::real_sockets(&mut rep),
        "master" => master::replay(&read_ndjson(arg(&args, "--in").unwrap()), seed, arg_u64(&args, "--reps", 1) as usize, &mut rep),
        "replay" => {
            let f: Value = serde_json::from_str(&std::fs::read_to_string(arg(&args, "--in").unwrap()).unwrap()).unwrap();
            let r = if f.get("replay").is_some() { f["replay"].clone() } else { f.clone() };
            replay_one(&r, f["property"].as_str().unwrap_or("C00"), &mut rep);
        }
        _ => {
            eprintln!("unknown command {cmd:?}");
            std::process::exit(2);
        }
    }
}
