mod alloc;
mod c08;
mod c17;
mod layout;
mod proto;
mod template;
mod valve;
mod transport;
mod util;

use serde_json::{json, Value};
use util::*;

#[global_allocator]
static GLOBAL: alloc::Counting = alloc::Counting;

fn arg<'a>(args: &'a [String], name: &str) -> Option<&'a str> {
    args.iter().position(|a| a == name).and_then(|i| args.get(i + 1)).map(|s| s.as_str())
}
fn arg_u64(args: &[String], name: &str, default: u64) -> u64 {
    arg(args, name).map(|s| s.parse().expect("numeric argument")).unwrap_or(default)
}

fn drift_ids() -> Vec<String> {
    let v: Value = serde_json::from_str(&std::fs::read_to_string("/verif/spec/drift.json").expect("spec/drift.json"))
        .expect("drift.json is json");
    v["drift"].as_array().unwrap().iter().map(|d| d["id"].as_str().unwrap().to_string()).collect()
}

fn replay_one(r: &Value, prop: &str, rep: &mut Report) {
    let prop: &'static str = Box::leak(prop.to_string().into_boxed_str());
    match r["kind"].as_str().unwrap_or("") {
        "proto-layout" => {
            let script: transport::ScriptJ = serde_json::from_value(r["script"].clone()).unwrap();
            let entry = r["entry"].as_str().unwrap();
            let rec = proto::call(entry, &script, 27015, 0, None);
            for e in &rec.events {
                eprintln!("{}", transport::event_json(e));
            }
            eprintln!("outcome: {}", rec.outcome.to_json());
            let b = proto::Built {
                batches: vec![],
                tcp: false,
                expected: r["expected"].clone(),
                unordered: r["unordered"].as_array().cloned().unwrap_or_default(),
                values: Default::default(),
                multi: None,
            };
            rep.evaluations += 1;
            proto::judge_value(prop, entry, &r["case"], &b, &script, &rec, rep);
        }
        "buffer-transition" => c17::replay_buffer(&[r["case"].clone()], rep),
        "varint-case" => c17::replay_varint(&[r["case"].clone()], rep),
        k => {
            eprintln!("replay of kind {k:?} is not supported by the harness; re-run the check instead");
            std::process::exit(2);
        }
    }
}

fn main() {
    install_panic_hook();
    let args: Vec<String> = std::env::args().collect();
    let cmd = args.get(1).map(|s| s.as_str()).unwrap_or("");
    let seed = arg_u64(&args, "--seed", 1);
    let mut rep = Report::new();
    let outcome = std::panic::catch_unwind(std::panic::AssertUnwindSafe(|| run(cmd, &args, seed, &mut rep)));
    if outcome.is_err() {
        eprintln!("HARNESS-PANIC: {}", take_panic());
        std::process::exit(3);
    }
    let j = rep.to_json();
    match arg(&args, "--report") {
        Some(p) => std::fs::write(p, serde_json::to_string(&j).unwrap()).expect("write report"),
        None => println!("{}", j),
    }
}

fn run(cmd: &str, args: &[String], seed: u64, rep: &mut Report) {
    let mut rep = rep;
    let args: Vec<String> = args.to_vec();
    match cmd {
        "c17-replay-buffer" => c17::replay_buffer(&read_ndjson(arg(&args, "--in").unwrap()), &mut rep),
        "c17-replay-varint" => c17::replay_varint(&read_ndjson(arg(&args, "--in").unwrap()), &mut rep),
        "c17-sweep" => {
            let lo = arg_u64(&args, "--lo", 0);
            let hi = arg_u64(&args, "--hi", 1 << 32);
            let threads = arg_u64(&args, "--threads", 8);
            let step = (hi - lo + threads - 1) / threads;
            let hs: Vec<_> = (0 .. threads)
                .map(|t| {
                    std::thread::spawn(move || {
                        let mut r = Report::new();
                        let a = lo + t * step;
                        let b = (a + step).min(hi);
                        if a < b {
                            c17::sweep_varint(a, b, &mut r);
                        }
                        r
                    })
                })
                .collect();
            for h in hs {
                let r = h.join().expect("sweep thread");
                rep.evaluations += r.evaluations;
                for v in r.violations {
                    rep.violation(v["property"].as_str().unwrap(), v["sig"].as_str().unwrap(), v["replay"].clone());
                }
            }
            rep.samples.push(json!({"sweep":[lo,hi]}));
        }
        "c17-misc" => {
            c17::utils_grid(&mut rep);
            c17::random_strings(seed, arg_u64(&args, "--n", 20000) as usize, &mut rep);
        }
        "c17-trace" => {
            let mut out: Vec<Value> = Vec::new();
            c17::trace_buffer(seed, arg_u64(&args, "--runs", 2000) as usize, &mut out, &mut rep);
            rep.extra.insert("events".into(), json!(out.len()));
            write_ndjson(arg(&args, "--out-trace").unwrap(), &out);
        }
        "valve-behaviours" | "valve-layouts" => {
            let ctx = valve::Ctx {
                layouts: layout::LayoutSet::load(arg(&args, "--layouts").unwrap()),
                templates: template::Templates::load(arg(&args, "--templates").unwrap()),
                drift: drift_ids(),
            };
            let reps = arg_u64(&args, "--reps", 1) as usize;
            if cmd == "valve-layouts" {
                valve::replay_layouts(&ctx, seed, reps, &mut rep);
            } else {
                let only: Vec<&'static str> = arg(&args, "--only")
                    .map(|s| s.split(',').map(|x| &*Box::leak(x.to_string().into_boxed_str())).collect())
                    .unwrap_or_default();
                valve::replay_behaviours(&ctx, &read_ndjson(arg(&args, "--in").unwrap()), seed, reps, &only, &mut rep);
            }
        }
        "proto-layouts" => {
            let layouts = layout::LayoutSet::load(arg(&args, "--layouts").unwrap());
            let protos: Vec<&str> = arg(&args, "--protos").unwrap().split(',').collect();
            proto::replay_layouts(&layouts, &protos, seed, arg_u64(&args, "--reps", 1) as usize, &mut rep);
        }
        "reassembly" => {
            let ctx = valve::Ctx {
                layouts: layout::LayoutSet::load(arg(&args, "--layouts").unwrap()),
                templates: template::Templates::load(arg(&args, "--templates").unwrap()),
                drift: drift_ids(),
            };
            let all = layout::LayoutSet::load(arg(&args, "--layouts").unwrap());
            c08::replay(&ctx, &all, &read_ndjson(arg(&args, "--in").unwrap()), seed, arg_u64(&args, "--reps", 1) as usize, &mut rep);
        }
        "replay" => {
            let f: Value = serde_json::from_str(&std::fs::read_to_string(arg(&args, "--in").unwrap()).unwrap()).unwrap();
            let r = if f.get("replay").is_some() { f["replay"].clone() } else { f.clone() };
            replay_one(&r, f["property"].as_str().unwrap_or("C00"), &mut rep);
        }
        _ => {
            eprintln!("unknown command {cmd:?}");
            std::process::exit(2);
        }
    }
}
