mod alloc;
mod c17;
mod layout;
mod template;
mod valve;
mod transport;
mod util;

use serde_json::{json, Value};
use util::*;

#[global_allocator]
static GLOBAL: alloc::Counting = alloc::Counting;

fn arg<'a>(args: &'a [String], name: &str) -> Option<&'a str> {
    args.iter().position(|a| a == name).and_then(|i| args.get(i + 1)).map(|s| s.as_str())
}
fn arg_u64(args: &[String], name: &str, default: u64) -> u64 {
    arg(args, name).map(|s| s.parse().expect("numeric argument")).unwrap_or(default)
}

fn drift_ids() -> Vec<String> {
    let v: Value = serde_json::from_str(&std::fs::read_to_string("/verif/spec/drift.json").expect("spec/drift.json"))
        .expect("drift.json is json");
    v["drift"].as_array().unwrap().iter().map(|d| d["id"].as_str().unwrap().to_string()).collect()
}

fn main() {
    install_panic_hook();
    let args: Vec<String> = std::env::args().collect();
    let cmd = args.get(1).map(|s| s.as_str()).unwrap_or("");
    let seed = arg_u64(&args, "--seed", 1);
    let mut rep = Report::new();
    match cmd {
        "c17-replay-buffer" => c17::replay_buffer(&read_ndjson(arg(&args, "--in").unwrap()), &mut rep),
        "c17-replay-varint" => c17::replay_varint(&read_ndjson(arg(&args, "--in").unwrap()), &mut rep),
        "c17-sweep" => {
            let lo = arg_u64(&args, "--lo", 0);
            let hi = arg_u64(&args, "--hi", 1 << 32);
            let threads = arg_u64(&args, "--threads", 8);
            let step = (hi - lo + threads - 1) / threads;
            let hs: Vec<_> = (0 .. threads)
                .map(|t| {
                    std::thread::spawn(move || {
                        let mut r = Report::new();
                        let a = lo + t * step;
                        let b = (a + step).min(hi);
                        if a < b {
                            c17::sweep_varint(a, b, &mut r);
                        }
                        r
                    })
                })
                .collect();
            for h in hs {
                let r = h.join().expect("sweep thread");
                rep.evaluations += r.evaluations;
                for v in r.violations {
                    rep.violation(v["property"].as_str().unwrap(), v["sig"].as_str().unwrap(), v["replay"].clone());
                }
            }
            rep.samples.push(json!({"sweep":[lo,hi]}));
        }
        "c17-misc" => {
            c17::utils_grid(&mut rep);
            c17::random_strings(seed, arg_u64(&args, "--n", 20000) as usize, &mut rep);
        }
        "c17-trace" => {
            let mut out: Vec<Value> = Vec::new();
            c17::trace_buffer(seed, arg_u64(&args, "--runs", 2000) as usize, &mut out, &mut rep);
            rep.extra.insert("events".into(), json!(out.len()));
            write_ndjson(arg(&args, "--out-trace").unwrap(), &out);
        }
        "valve-behaviours" | "valve-layouts" => {
            let ctx = valve::Ctx {
                layouts: layout::LayoutSet::load(arg(&args, "--layouts").unwrap()),
                templates: template::Templates::load(arg(&args, "--templates").unwrap()),
                drift: drift_ids(),
            };
            let reps = arg_u64(&args, "--reps", 1) as usize;
            if cmd == "valve-layouts" {
                valve::replay_layouts(&ctx, seed, reps, &mut rep);
            } else {
                let only: Vec<&'static str> = arg(&args, "--only")
                    .map(|s| s.split(',').map(|x| &*Box::leak(x.to_string().into_boxed_str())).collect())
                    .unwrap_or_default();
                valve::replay_behaviours(&ctx, &read_ndjson(arg(&args, "--in").unwrap()), seed, reps, &only, &mut rep);
            }
        }
        _ => {
            eprintln!("unknown command {cmd:?}");
            std::process::exit(2);
        }
    }
    let j = rep.to_json();
    match arg(&args, "--report") {
        Some(p) => std::fs::write(p, serde_json::to_string(&j).unwrap()).expect("write report"),
        None => println!("{}", j),
    }
}
