fn main() { println!("{}", gamedig::verif_hook::is_installed()); }
