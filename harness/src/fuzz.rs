//! C01 / C13: hostile replies. Structured mutations from the Hostile.tla catalogue applied at every matching item
//! position of the well-formed replies, byte-level mutational and random fuzz, through every entry point; every
//! execution is recorded as a trace for Trace_Hostile.tla.
use crate::entries::*;
use crate::layout::*;
use crate::proto;
use crate::transport::*;
use crate::util::*;
use crate::valve;
use gamedig::verif_hook as hook;
use gamedig::GAMES;
use rand::prelude::*;
use serde_json::{json, Value};

#[derive(Debug, Clone)]
pub struct Base {
    pub entry: String,
    pub cfg: Value,
    /// per connection: (tcp, reaction batches)
    pub conns: Vec<(bool, Vec<Vec<Vec<u8>>>)>,
}

impl Base {
    pub fn script(&self) -> ScriptJ {
        ScriptJ {
            conns: self
                .conns
                .iter()
                .map(|(tcp, batches)| {
                    ConnJ {
                        refuse: false,
                        on_send: batches
                            .iter()
                            .enumerate()
                            .map(|(i, b)| {
                                ReactionJ {
                                    fail: false,
                                    batch: b.iter().map(|d| hex(d)).collect(),
                                    close: *tcp && i + 1 == batches.len(),
                                }
                            })
                            .collect(),
                    }
                })
                .collect(),
        }
    }
}

pub struct Ctx {
    pub v: valve::Ctx,
    pub mutations: Vec<Value>,
}

fn pick_layout<'a>(rng: &mut StdRng, ctx: &'a Ctx, entry: &str) -> &'a Value {
    let c: Vec<&Value> = ctx.v.layouts.all.iter().filter(|l| l["layout"]["entry"] == entry).collect();
    assert!(!c.is_empty(), "no layout for entry {entry}");
    c[rng.gen_range(0 .. c.len())]
}

fn valve_batches(rng: &mut StdRng, ctx: &Ctx, engine: &Value, appid: u32) -> Vec<Vec<Vec<u8>>> {
    let mut out = Vec::new();
    for sec in ["info", "players", "rules"] {
        let (payload, _, _) = valve::build_section(rng, &ctx.v, sec, engine, appid, None, None);
        if rng.gen_bool(0.3) {
            out.push(vec![valve::challenge_packet(valve::strat_challenge(rng, None))]);
        }
        if rng.gen_bool(0.3) {
            let k = rng.gen_range(2 ..= 3);
            let gold = engine["t"] == "goldsrc";
            // (Source servers may compress a split reply)
            let compressed = !gold && rng.gen_bool(0.4);
            out.push(valve::split(rng, &ctx.v, &payload, k, gold, true, compressed));
        } else {
            out.push(vec![payload]);
        }
    }
    out
}

fn engine_json_of_game(id: &str) -> (Value, u32) {
    use gamedig::protocols::types::{ProprietaryProtocol as P, Protocol};
    use gamedig::protocols::valve::Engine;
    match &GAMES.get(id).unwrap().protocol {
        Protocol::Valve(Engine::Source(Some((a, d)))) => (json!({"t":"source","main":a,"ded":d}), *a),
        Protocol::Valve(Engine::Source(None)) => (json!({"t":"source_none"}), 10),
        Protocol::Valve(Engine::GoldSrc(f)) => (json!({"t":"goldsrc","force":f}), 10),
        Protocol::PROPRIETARY(P::TheShip) => (json!({"t":"source","main":2400,"ded":null}), 2400),
        _ => (Value::Null, 0),
    }
}

/// A well-formed exchange for an entry point (the replies a conforming server would give).
pub fn base_for(rng: &mut StdRng, ctx: &Ctx, entry: &str) -> Base {
    let retries = rng.gen_range(0 ..= 2u64);
    let mut cfg = json!({"retries": retries, "port": 27015});
    let proto_base = |rng: &mut StdRng, e: &str| -> (bool, Vec<Vec<Vec<u8>>>) {
        let mut cands: Vec<&Value> = ctx.v.layouts.all.iter().filter(|l| l["layout"]["entry"] == e).collect();
        assert!(!cands.is_empty(), "no layout for entry {e}");
        // a consistent server (the count it reports equals the entries it lists) more often than the shapes' share: mutations
        // of one field are then seen against a second field that "agrees"
        if rng.gen_bool(0.6) {
            let consistent: Vec<&Value> = cands.iter().copied().filter(|l| l["shape"]["num"] == "equal").collect();
            if !consistent.is_empty() {
                cands = consistent;
            }
        }
        let b = proto::build_fitting(rng, &cands);
        (b.tcp, b.batches)
    };
    let conns = if entry == "valve::query" {
        let (a, d, _) = (rng.gen_range(1 .. 60000u32), rng.gen_range(60000 .. 65000u32), 0);
        let engine = match rng.gen_range(0 .. 6) {
            0 => json!({"t":"goldsrc","force":false}),
            1 => json!({"t":"goldsrc","force":true}),
            2 => json!({"t":"source_none"}),
            3 => json!({"t":"source","main":2400,"ded":null}),
            4 => json!({"t":"source","main":a,"ded":d}),
            _ => json!({"t":"source","main":a,"ded":null}),
        };
        let appid = if engine["main"] == 2400 { 2400 } else { a };
        cfg["engine"] = engine.clone();
        let toggles = ["Skip", "Try", "Enforce"];
        cfg["gp"] = json!(toggles[rng.gen_range(0 .. 3)]);
        cfg["gr"] = json!(toggles[rng.gen_range(0 .. 3)]);
        cfg["check"] = json!(rng.gen_bool(0.5));
        vec![(false, valve_batches(rng, ctx, &engine, appid))]
    } else if entry == "theship::query" {
        let engine = json!({"t":"source","main":2400,"ded":null});
        vec![(false, valve_batches(rng, ctx, &engine, 2400))]
    } else if entry == "battalion1944::query" {
        cfg = json!({"port": 7780});
        let engine = json!({"t":"source","main":489940,"ded":null});
        vec![(false, valve_batches(rng, ctx, &engine, 489_940))]
    } else if let Some(e) = entry.strip_prefix("proto:") {
        let e = e.strip_suffix("vars").unwrap_or(e);
        if e == "unreal2" {
            let toggles = ["Skip", "Try", "Enforce"];
            cfg["gp"] = json!(toggles[rng.gen_range(0 .. 3)]);
            cfg["gr"] = json!(toggles[rng.gen_range(0 .. 3)]);
        }
        vec![proto_base(rng, e)]
    } else if entry.starts_with("mc::query") || entry.starts_with("mcgame::query") {
        if entry == "mcgame::query" || entry.starts_with("mcgame::") {
            cfg = json!({"port": null});
        }
        match entry {
            "mcgame::query_java" => vec![proto_base(rng, "java")],
            "mcgame::query_bedrock" => vec![proto_base(rng, "bedrock")],
            "mc::query_legacy" | "mcgame::query_legacy" => {
                vec![proto_base(rng, "legacy16"), proto_base(rng, "legacy14"), proto_base(rng, "legacyb18")]
            }
            _ => {
                vec![
                    proto_base(rng, "java"),
                    proto_base(rng, "bedrock"),
                    proto_base(rng, "legacy16"),
                    proto_base(rng, "legacy14"),
                    proto_base(rng, "legacyb18"),
                ]
            }
        }
    } else if entry.starts_with("master::") {
        cfg = json!({"port": 27011});
        let pages = rng.gen_range(1 ..= 3);
        let mut batches = Vec::new();
        for p in 0 .. pages {
            let mut d = vec![0xff, 0xff, 0xff, 0xff, 0x66, 0x0a];
            for _ in 0 .. rng.gen_range(0 ..= 5) {
                d.extend([rng.gen_range(1 ..= 223u8), rng.gen(), rng.gen(), rng.gen_range(1 ..= 254u8)]);
                d.extend(rng.gen_range(1 ..= 65535u16).to_be_bytes());
            }
            if p + 1 == pages {
                d.extend([0, 0, 0, 0, 0, 0]);
            }
            batches.push(vec![d]);
        }
        vec![(false, batches)]
    } else if let Some(id) = entry.strip_prefix("generic:").or_else(|| entry.strip_prefix("module:")) {
        if entry.starts_with("module:") {
            cfg = json!({"port": if rng.gen_bool(0.5) { json!(27015) } else { Value::Null }});
        } else if rng.gen_bool(0.3) {
            cfg["port"] = Value::Null;
        }
        match base_of_game(id) {
            "valve" => {
                let (engine, appid) = engine_json_of_game(id);
                vec![(false, valve_batches(rng, ctx, &engine, appid))]
            }
            "mcauto" => {
                vec![
                    proto_base(rng, "java"),
                    proto_base(rng, "bedrock"),
                    proto_base(rng, "legacy16"),
                    proto_base(rng, "legacy14"),
                    proto_base(rng, "legacyb18"),
                ]
            }
            "eco" => panic!("eco is not driven through the scripted transport"),
            e => vec![proto_base(rng, e)],
        }
    } else {
        panic!("no base for {entry}");
    };
    Base {
        entry: entry.to_string(),
        cfg,
        conns,
    }
}

/// All entry points driven through the scripted transport.
pub fn all_entries() -> Vec<String> {
    let mut v: Vec<String> = vec![
        "valve::query", "theship::query", "battalion1944::query", "mc::query", "mc::query_legacy", "mcgame::query",
        "mcgame::query_java", "mcgame::query_bedrock", "mcgame::query_legacy", "master::query", "master::query_specific",
    ]
    .into_iter()
    .map(String::from)
    .collect();
    for e in [
        "quake1", "quake2", "quake3", "gs1", "gs1vars", "gs2", "gs3", "gs3vars", "jc2m", "unreal2", "java", "bedrock",
        "legacy16", "legacy14", "legacyb18", "ffow", "savage2", "mindustry",
    ] {
        v.push(format!("proto:{e}"));
    }
    let mut ids: Vec<&&str> = GAMES.keys().collect();
    ids.sort();
    for id in ids {
        if *id != "eco" {
            v.push(format!("generic:{id}"));
        }
    }
    for id in MODULE_IDS {
        v.push(format!("module:{id}"));
    }
    v
}

const INTERESTING: &[u64] = &[0, 1, 2, 0x7f, 0x80, 0xff, 0x100, 0x7fff, 0x8000, 0xffff, 0x7fff_ffff, 0x8000_0000, 0xffff_ffff];

fn havoc(rng: &mut StdRng, d: &mut Vec<u8>, other: &[u8]) {
    let n = rng.gen_range(1 ..= 4);
    for _ in 0 .. n {
        match rng.gen_range(0 .. 9) {
            0 if !d.is_empty() => {
                let i = rng.gen_range(0 .. d.len());
                d[i] ^= 1 << rng.gen_range(0 .. 8);
            }
            1 if !d.is_empty() => {
                let i = rng.gen_range(0 .. d.len());
                d[i] = rng.gen();
            }
            2 => {
                let at = rng.gen_range(0 ..= d.len());
                d.truncate(at);
            }
            3 => {
                let extra: usize = [1usize, 2, 16, 300, 2000][rng.gen_range(0 .. 5)];
                for _ in 0 .. extra {
                    d.push(rng.gen());
                }
            }
            4 if !d.is_empty() => {
                // interesting value of width 1/2/4 at a random offset, either endianness
                let w = [1usize, 2, 4][rng.gen_range(0 .. 3)];
                if d.len() >= w {
                    let at = rng.gen_range(0 ..= d.len() - w);
                    let v = INTERESTING[rng.gen_range(0 .. INTERESTING.len())];
                    let le = v.to_le_bytes();
                    for k in 0 .. w {
                        d[at + k] = if rng.gen_bool(0.5) { le[k] } else { le[w - 1 - k] };
                    }
                }
            }
            5 if !other.is_empty() => {
                // splice: keep a prefix, continue with a piece of another datagram
                let a = rng.gen_range(0 ..= d.len());
                let b = rng.gen_range(0 .. other.len());
                d.truncate(a);
                d.extend(&other[b ..]);
            }
            6 if !d.is_empty() => {
                // remove a chunk
                let a = rng.gen_range(0 .. d.len());
                let b = rng.gen_range(a ..= d.len().min(a + 8));
                d.drain(a .. b);
            }
            7 if !d.is_empty() => {
                // duplicate a chunk in place
                let a = rng.gen_range(0 .. d.len());
                let b = rng.gen_range(a ..= d.len().min(a + 16));
                let c: Vec<u8> = d[a .. b].to_vec();
                let at = rng.gen_range(0 ..= d.len());
                for (k, x) in c.into_iter().enumerate() {
                    d.insert(at + k, x);
                }
            }
            _ => {
                // zero / FF fill a run
                if !d.is_empty() {
                    let a = rng.gen_range(0 .. d.len());
                    let b = rng.gen_range(a ..= d.len().min(a + 6));
                    let f = if rng.gen_bool(0.5) { 0 } else { 0xff };
                    for x in &mut d[a .. b] {
                        *x = f;
                    }
                }
            }
        }
    }
    d.truncate(65507);
}

/// Does this entry point speak the Source flavour of the Valve protocol (whose split replies may be compressed)?
fn source_entry(entry: &str, cfg: &Value) -> bool {
    use gamedig::protocols::types::{ProprietaryProtocol as P, Protocol};
    use gamedig::protocols::valve::Engine;
    match entry {
        "valve::query" => cfg["engine"]["t"].as_str().map_or(false, |t| t.starts_with("source")),
        "theship::query" | "battalion1944::query" => true,
        e => {
            let id = e.strip_prefix("generic:").or_else(|| e.strip_prefix("module:")).unwrap_or("");
            match GAMES.get(id).map(|g| &g.protocol) {
                Some(Protocol::Valve(Engine::Source(_))) | Some(Protocol::PROPRIETARY(P::TheShip)) => true,
                _ => false,
            }
        }
    }
}

/// Hostile.tla `decompression_bomb`: one reply of the exchange becomes a compressed split reply (1 or 2 fragments) that
/// declares `declared` bytes and carries a bzip2 stream of BombMiB MiB of zeros.
fn bomb(rng: &mut StdRng, ctx: &Ctx, entry: &str, base: &mut Base, declared: u32) -> bool {
    if !source_entry(entry, &base.cfg) {
        return false;
    }
    // (one compressor process per harness process; 128 MiB is twice the live allowance and eight times the single-request one)
    static BOMB: std::sync::OnceLock<Vec<u8>> = std::sync::OnceLock::new();
    let body = BOMB.get_or_init(|| valve::bz2_zeros(128)).clone();
    let Some((_, batches)) = base.conns.get_mut(0) else { return false };
    // a slot that carries a section reply (not a challenge packet)
    let slots: Vec<usize> = batches.iter().enumerate().filter(|(_, b)| b.first().map_or(false, |d| d.len() > 9 && !(d[.. 5] == [0xff, 0xff, 0xff, 0xff, 0x41]))).map(|(i, _)| i).collect();
    if slots.is_empty() {
        return false;
    }
    let i = slots[rng.gen_range(0 .. slots.len())];
    let k = rng.gen_range(1 ..= 2);
    let crc: u32 = rng.gen();
    batches[i] = valve::split_body(rng, &ctx.v, &body, declared, crc, k, false, true, true);
    true
}

fn whole_datagram_op(rng: &mut StdRng, base: &mut Base, op: &str) -> bool {
    // choose a non-empty batch
    let mut slots = Vec::new();
    for (c, (_, batches)) in base.conns.iter().enumerate() {
        for (i, b) in batches.iter().enumerate() {
            for j in 0 .. b.len() {
                slots.push((c, i, j));
            }
        }
    }
    if slots.is_empty() {
        return false;
    }
    let (c, i, j) = slots[rng.gen_range(0 .. slots.len())];
    let batch = &mut base.conns[c].1[i];
    match op {
        "empty" => batch[j].clear(),
        "bad_first_byte" => {
            if batch[j].is_empty() {
                return false;
            }
            batch[j][0] ^= 0x55;
        }
        "append_garbage" => {
            for _ in 0 .. rng.gen_range(1 ..= 64) {
                batch[j].push(rng.gen());
            }
        }
        "oversize" => {
            let fill: u8 = rng.gen();
            batch[j].resize(65507, fill);
        }
        "duplicate_datagram" => {
            let d = batch[j].clone();
            batch.insert(j, d);
        }
        "drop_datagram" => {
            batch.remove(j);
        }
        _ => return false,
    }
    true
}

pub fn trace_of(fam: &str, retries: u64, rec: &CallRecord, out: &mut Vec<Value>) {
    out.push(json!({"ev":"Call","fam":fam,"r":retries}));
    for e in &rec.events {
        match e {
            hook::Event::Open { .. } => out.push(json!({"ev":"Open"})),
            hook::Event::Send { .. } => out.push(json!({"ev":"Send"})),
            hook::Event::Recv { out: o, .. } => {
                out.push(json!({"ev":"Recv","out": if matches!(o, hook::RecvOut::Data(_)) {"data"} else {"timeout"}}))
            }
        }
    }
    let cap = |x: usize| x.min(2_000_000_000) as u64;
    match &rec.outcome {
        Outcome::Ok(_) => out.push(json!({"ev":"Return","ok":true,"peak":cap(rec.alloc_peak),"max":cap(rec.alloc_max)})),
        Outcome::Err(_) => out.push(json!({"ev":"Return","ok":false,"peak":cap(rec.alloc_peak),"max":cap(rec.alloc_max)})),
        Outcome::Panic { .. } => out.push(json!({"ev":"Panic"})),
        Outcome::Hang => out.push(json!({"ev":"Hang"})),
    }
}

pub const MAX_SINGLE: usize = 16 * 1024 * 1024;
pub const MAX_LIVE: usize = 64 * 1024 * 1024;

/// Run one case; report direct violations; append its trace.
pub fn run_case(base: &Base, what: &Value, rep: &mut Report, trace: &mut Vec<Value>, journal: &mut Option<std::fs::File>) {
    let script = base.script();
    if let Some(j) = journal.as_mut() {
        use std::io::Write;
        let _ = writeln!(j, "{}", json!({"kind":"fuzz-case","entry":base.entry,"cfg":base.cfg,"script":script,"what":what}));
        let _ = j.flush();
    }
    set_context(&format!("entry {} cfg {}", base.entry, base.cfg));
    let rec = call_entry(&base.entry, &base.cfg, &script);
    rep.evaluations += 1;
    let fam = family_of(&base.entry);
    let retries = base.cfg.get("retries").and_then(|r| r.as_u64()).unwrap_or(0);
    let before = trace.len();
    trace_of(fam, retries, &rec, trace);
    let replay = || json!({"kind":"fuzz-case","entry":base.entry,"cfg":base.cfg,"script":script,"what":what,"outcome":rec.outcome.to_json(),
                           "alloc":{"peak":rec.alloc_peak,"max":rec.alloc_max}});
    let group = base.entry.split(':').next().unwrap_or("").to_string()
        + if base.entry.contains(':') { ":" } else { "" }
        + if base.entry.starts_with("generic:") || base.entry.starts_with("module:") { fam } else { base.entry.split(':').last().unwrap_or("") };
    let mut bad = false;
    match &rec.outcome {
        Outcome::Panic { msg } => {
            rep.violation("C01", &format!("{group}: panic {}", valve::first_line(msg)), replay());
            bad = true;
        }
        Outcome::Hang => {
            rep.violation("C01", &format!("{group}: does not return (socket operation bound exceeded)"), replay());
            bad = true;
        }
        _ => {}
    }
    if rec.alloc_max > MAX_SINGLE {
        rep.violation("C13", &format!("{group}: single allocation request above 16 MiB"), replay());
        bad = true;
    } else if rec.alloc_peak > MAX_LIVE {
        rep.violation("C13", &format!("{group}: live memory above 64 MiB"), replay());
        bad = true;
    }
    if bad {
        // reported here with a replay; kept out of the trace so that the rest of the file is validated
        trace.truncate(before);
    }
    if trace.len() > 50_000 {
        spill(trace);
    }
}

thread_local! {
    /// the trace of a long run goes to disk as it grows (millions of executions do not fit in memory)
    static SPILL: std::cell::RefCell<Option<(std::io::BufWriter<std::fs::File>, u64)>> = const { std::cell::RefCell::new(None) };
}

pub fn set_spill(path: &str) {
    let f = std::io::BufWriter::new(std::fs::File::create(path).expect("trace part file"));
    SPILL.with(|s| *s.borrow_mut() = Some((f, 0)));
}

/// write the events collected so far to this thread's part file (if one is set) and forget them
pub fn spill(trace: &mut Vec<Value>) {
    use std::io::Write;
    SPILL.with(|s| {
        if let Some((f, n)) = s.borrow_mut().as_mut() {
            for e in trace.iter() {
                let _ = writeln!(f, "{e}");
            }
            *n += trace.len() as u64;
            trace.clear();
        }
    });
}

/// flush the rest; number of events written by this thread
pub fn finish_spill(trace: &mut Vec<Value>) -> u64 {
    use std::io::Write;
    spill(trace);
    SPILL.with(|s| {
        match s.borrow_mut().take() {
            Some((mut f, n)) => {
                let _ = f.flush();
                n
            }
            None => 0,
        }
    })
}

fn class_matches(m: &Value, kind: &str, ty: &str) -> bool {
    m["classes"].as_array().map_or(false, |cs| cs.iter().any(|c| c["k"] == kind && (c["ty"] == ty || (kind != "f"))))
}

/// Structured stage: every catalogue descriptor at every matching item position of `nbases` well-formed exchanges
/// per entry point.
pub fn structured(ctx: &Ctx, entries: &[String], seed: u64, nbases: usize, max_positions: usize, rep: &mut Report, trace: &mut Vec<Value>, journal: &mut Option<std::fs::File>) {
    let mut rng = StdRng::seed_from_u64(seed);
    for entry in entries {
        for _ in 0 .. nbases {
            let bseed: u64 = rng.gen();
            // count pass
            MUT.with(|m| *m.borrow_mut() = Some(MutPlan::default()));
            let base0 = base_for(&mut StdRng::seed_from_u64(bseed), ctx, entry);
            let seen = MUT.with(|m| m.borrow_mut().take().unwrap().seen);
            rep.distinct.insert(hash_of(&(entry, bseed)));
            // the unmutated exchange itself must not crash either
            run_case(&base0, &json!({"stage":"structured","mutation":"none"}), rep, trace, journal);
            // "or nothing at all": the server answers the first `cut` requests of the exchange and then stays silent, with 1 and 2
            // retries (the request bound of C13 is about exactly this: attempts must not multiply one another)
            {
                let total: usize = base0.conns.iter().map(|(_, b)| b.len()).sum();
                for r in [1u64, 2] {
                    for cut in 0 ..= total.min(6) {
                        let mut b = base_for(&mut StdRng::seed_from_u64(bseed), ctx, entry);
                        let mut seen_reactions = 0;
                        for (_, batches) in &mut b.conns {
                            for bt in batches.iter_mut() {
                                if seen_reactions >= cut {
                                    bt.clear();
                                }
                                seen_reactions += 1;
                            }
                        }
                        if !b.cfg["retries"].is_null() || b.cfg.get("retries").is_some() {
                            b.cfg["retries"] = json!(r);
                        }
                        run_case(&b, &json!({"stage":"structured","mutation":{"op":"silent_after"},"answered":cut,"retries":r}), rep, trace, journal);
                    }
                }
            }
            for m in &ctx.mutations {
                let d = &m["d"];
                let op = d["op"].as_str().unwrap();
                if m["classes"].as_array().map_or(true, |c| c.is_empty()) {
                    if op.starts_with("truncate") {
                        continue; // truncation is swept byte-wise below
                    }
                    if op == "challenge_flood" {
                        if entry == "valve::query" {
                            let mut b = base_for(&mut StdRng::seed_from_u64(bseed), ctx, entry);
                            // (compressed split replies are a Source feature: the case runs with a Source engine whatever the base drew)
                            b.cfg["engine"] = json!({"t":"source_none"});
                            b.cfg["check"] = json!(false);
                            if source_entry(entry, &b.cfg) {
                                static FLOOD: std::sync::OnceLock<Vec<(Vec<u8>, u32, u32)>> = std::sync::OnceLock::new();
                                let blobs = FLOOD.get_or_init(|| valve::bz2_challenges(1100, 65000));
                                let reactions: Vec<Vec<Vec<u8>>> = blobs.iter().map(|(body, size, crc)| valve::split_body(&mut rng, &ctx.v, body, *size, *crc, 1, false, true, true)).collect();
                                b.conns = vec![(false, reactions)];
                                run_case(&b, &json!({"stage":"structured","mutation":d,"rounds":1100}), rep, trace, journal);
                            }
                        }
                        continue;
                    }
                    if op == "decompression_bomb" {
                        for declared in [4096u32, 8 * 1024 * 1024 - 1] {
                            let mut b = base_for(&mut StdRng::seed_from_u64(bseed), ctx, entry);
                            if bomb(&mut rng, ctx, entry, &mut b, declared) {
                                run_case(&b, &json!({"stage":"structured","mutation":d,"declared":declared}), rep, trace, journal);
                            }
                        }
                        continue;
                    }
                    let mut b = base_for(&mut StdRng::seed_from_u64(bseed), ctx, entry);
                    if whole_datagram_op(&mut rng, &mut b, op) {
                        run_case(&b, &json!({"stage":"structured","mutation":d}), rep, trace, journal);
                    }
                    continue;
                }
                if op.starts_with("truncate") {
                    continue;
                }
                let mut positions: Vec<(usize, usize)> = Vec::new();
                for (gi, (k, ty, litlen)) in seen.iter().enumerate() {
                    if class_matches(m, k, ty) {
                        if op == "set_lit_byte" {
                            for sub in 0 .. *litlen {
                                positions.push((gi, sub));
                            }
                        } else {
                            positions.push((gi, 0));
                        }
                    }
                }
                if positions.len() > max_positions {
                    positions.shuffle(&mut rng);
                    positions.truncate(max_positions);
                }
                for (gi, sub) in positions {
                    MUT.with(|p| {
                        *p.borrow_mut() = Some(MutPlan {
                            target: Some((gi, sub)),
                            desc: d.clone(),
                            ..Default::default()
                        })
                    });
                    let b = base_for(&mut StdRng::seed_from_u64(bseed), ctx, entry);
                    let applied = MUT.with(|p| p.borrow_mut().take().unwrap().applied);
                    if applied {
                        run_case(&b, &json!({"stage":"structured","mutation":d,"item":gi,"byte":sub}), rep, trace, journal);
                        // size / count fields at their extremes also with the datagrams of a reply in reverse order (a check
                        // that is made on the first datagram received must not depend on which one that is)
                        if matches!(op, "set_num" | "set_lit_byte" | "set_textnum" | "set_txt_index") && b.conns.iter().any(|(_, bs)| bs.iter().any(|x| x.len() > 1)) {
                            let mut b2 = b.clone();
                            for (_, bs) in &mut b2.conns {
                                for x in bs.iter_mut() {
                                    x.reverse();
                                }
                            }
                            run_case(&b2, &json!({"stage":"structured","mutation":d,"item":gi,"byte":sub,"order":"reversed"}), rep, trace, journal);
                        }
                    }
                }
            }
            // amplification: a count-like item at its largest value, a nearby string item repeated until the datagram is full,
            // nothing after it (a reply that announces far more than it carries: C13)
            {
                let countish = |k: &str, ty: &str| k == "lit" || (k == "f" && (ty.starts_with("dec_") || matches!(ty, "u8" | "u16le" | "u16be" | "u32le" | "u32be" | "i32le" | "i32be")));
                let stringish = |k: &str, ty: &str| k == "txt" || (k == "f" && matches!(ty, "cstr" | "text" | "atext" | "lp8" | "oneoftext" | "ustr"));
                let mut combos: Vec<Amp> = Vec::new();
                for (c, (ck, cty, litlen)) in seen.iter().enumerate() {
                    if !countish(ck, cty) {
                        continue;
                    }
                    for r in c + 1 ..= (c + 8).min(seen.len().saturating_sub(1)) {
                        if stringish(&seen[r].0, &seen[r].1) {
                            for sub in 0 .. (*litlen).max(1) {
                                combos.push(Amp { count: c, sub, repeat: r, fill: 48_000 });
                            }
                        }
                    }
                }
                if combos.len() > max_positions * 4 {
                    combos.shuffle(&mut rng);
                    combos.truncate(max_positions * 4);
                }
                for a in combos {
                    MUT.with(|p| {
                        *p.borrow_mut() = Some(MutPlan {
                            amp: Some(a),
                            ..Default::default()
                        })
                    });
                    let b = base_for(&mut StdRng::seed_from_u64(bseed), ctx, entry);
                    let applied = MUT.with(|p| p.borrow_mut().take().unwrap().applied);
                    if applied {
                        run_case(&b, &json!({"stage":"structured","mutation":{"op":"amplify"},"count_item":a.count,"byte":a.sub,"repeat_item":a.repeat}), rep, trace, journal);
                    }
                }
            }
            // truncation sweep: every prefix of every datagram (sampled beyond the first 96 bytes)
            for c in 0 .. base0.conns.len() {
                for i in 0 .. base0.conns[c].1.len() {
                    for j in 0 .. base0.conns[c].1[i].len() {
                        let len = base0.conns[c].1[i][j].len();
                        let mut cut = 0;
                        while cut < len {
                            let mut b = base0.clone();
                            b.conns[c].1[i][j].truncate(cut);
                            run_case(&b, &json!({"stage":"structured","mutation":{"op":"truncate"},"conn":c,"send":i,"datagram":j,"at":cut}), rep, trace, journal);
                            cut += if cut < 96 { 1 } else { 7 };
                        }
                    }
                }
            }
        }
    }
}

/// Byte-level stage: mutational havoc on well-formed exchanges and pure random replies.
pub fn bytes_stage(ctx: &Ctx, entries: &[String], seed: u64, per_entry: usize, rep: &mut Report, trace: &mut Vec<Value>, journal: &mut Option<std::fs::File>) {
    let mut rng = StdRng::seed_from_u64(seed);
    for entry in entries {
        let mut base = base_for(&mut rng, ctx, entry);
        for n in 0 .. per_entry {
            if n % 16 == 0 {
                base = base_for(&mut rng, ctx, entry);
                rep.distinct.insert(hash_of(&(entry, n, seed)));
            }
            let mut b = base.clone();
            let pure = rng.gen_bool(0.15);
            // pick a datagram to hurt (or several)
            let hits = rng.gen_range(1 ..= 2);
            for _ in 0 .. hits {
                let c = rng.gen_range(0 .. b.conns.len());
                if b.conns[c].1.is_empty() {
                    continue;
                }
                let i = rng.gen_range(0 .. b.conns[c].1.len());
                if b.conns[c].1[i].is_empty() {
                    // a silent reaction: sometimes put something there
                    if rng.gen_bool(0.5) {
                        let n = rng.gen_range(0 ..= 40);
                        b.conns[c].1[i].push((0 .. n).map(|_| rng.gen()).collect());
                    }
                    continue;
                }
                let j = rng.gen_range(0 .. b.conns[c].1[i].len());
                let other: Vec<u8> = {
                    let cc = rng.gen_range(0 .. base.conns.len());
                    base.conns[cc].1.iter().flatten().next().cloned().unwrap_or_default()
                };
                if pure {
                    let keep = rng.gen_range(0 ..= b.conns[c].1[i][j].len().min(12));
                    let n = rng.gen_range(0 ..= 200);
                    let mut d = b.conns[c].1[i][j][.. keep].to_vec();
                    d.extend((0 .. n).map(|_| rng.gen::<u8>()));
                    b.conns[c].1[i][j] = d;
                } else {
                    let mut d = std::mem::take(&mut b.conns[c].1[i][j]);
                    havoc(&mut rng, &mut d, &other);
                    b.conns[c].1[i][j] = d;
                }
            }
            // sometimes make a reaction silent, refuse a connection or fail a send: handled at script level
            run_case(&b, &json!({"stage": if pure {"random"} else {"havoc"}, "n": n}), rep, trace, journal);
        }
    }
}
