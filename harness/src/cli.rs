//! C19: the real gamedig_cli binary against loopback reference servers, cases from Cli.tla.
use crate::entries::*;
use crate::fuzz;
use crate::layout::diff;
use crate::transport::*;
use crate::util::*;
use base64::Engine as _;
use rand::prelude::*;
use serde_json::{json, Value};
use std::io::{Read, Write};
use std::net::{SocketAddr, TcpListener, UdpSocket};
use std::process::{Command, Stdio};
use std::sync::atomic::{AtomicBool, Ordering};
use std::sync::Arc;
use std::time::{Duration, Instant};

fn game_of(fam: &str) -> &'static str {
    match fam {
        "valve" => "csgo",
        "valvegold" => "counterstrike",
        "theship" => "theship",
        "gs1" => "unrealtournament",
        "gs2" => "hce",
        "gs3" => "crysiswars",
        "quake1" => "quake1",
        "quake3" => "q3a",
        "unreal2" => "killingfloor",
        "java" => "minecraftjava",
        "bedrock" => "minecraftbedrock",
        "legacy16" => "minecraftlegacy16",
        "mcauto" => "minecraft",
        "ffow" => "ffow",
        "jc2m" => "jc2m",
        "savage2" => "savage2",
        "mindustry" => "mindustry",
        f => panic!("family {f}"),
    }
}

/// Serve a Base on real loopback sockets (UDP and TCP on the same port). Returns (port, stop flag, join handle).
struct Served {
    port: u16,
    stop: Arc<AtomicBool>,
    handles: Vec<std::thread::JoinHandle<()>>,
}

fn serve(base: &fuzz::Base) -> Served {
    // one port for both transports (the auto-detecting Minecraft query uses the same port for TCP and UDP)
    let (tcp, udp, port) = loop {
        let t = TcpListener::bind("127.0.0.1:0").expect("bind tcp");
        let port = t.local_addr().unwrap().port();
        if let Ok(u) = UdpSocket::bind(("127.0.0.1", port)) {
            break (t, u, port);
        }
    };
    let stop = Arc::new(AtomicBool::new(false));
    let mut handles = Vec::new();
    // connection i of the script: which are udp / tcp, in the order the client opens them
    let udp_conns: Vec<Vec<Vec<Vec<u8>>>> = base.conns.iter().filter(|c| !c.0).map(|c| c.1.clone()).collect();
    let tcp_conns: Vec<Vec<Vec<Vec<u8>>>> = base.conns.iter().filter(|c| c.0).map(|c| c.1.clone()).collect();
    {
        let stop = stop.clone();
        udp.set_read_timeout(Some(Duration::from_millis(10))).unwrap();
        handles.push(std::thread::spawn(move || {
            // all UDP "connections" share the socket: a new source port starts the next scripted connection
            let mut peers: Vec<(SocketAddr, usize, usize)> = Vec::new(); // (peer, conn index, sends seen)
            let mut buf = vec![0u8; 70000];
            while !stop.load(Ordering::Relaxed) {
                if let Ok((_, from)) = udp.recv_from(&mut buf) {
                    let idx = match peers.iter().position(|p| p.0 == from) {
                        Some(i) => i,
                        None => {
                            let ci = peers.len();
                            peers.push((from, ci, 0));
                            peers.len() - 1
                        }
                    };
                    let (_, ci, n) = peers[idx];
                    if let Some(batches) = udp_conns.get(ci) {
                        if let Some(b) = batches.get(n) {
                            for d in b {
                                let _ = udp.send_to(d, from);
                            }
                        }
                    }
                    peers[idx].2 += 1;
                }
            }
        }));
    }
    {
        let stop = stop.clone();
        tcp.set_nonblocking(true).unwrap();
        handles.push(std::thread::spawn(move || {
            let mut n = 0usize;
            while !stop.load(Ordering::Relaxed) {
                if let Ok((mut st, _)) = tcp.accept() {
                    let script = tcp_conns.get(n).cloned();
                    n += 1;
                    let _ = st.set_nonblocking(false);
                    let _ = st.set_read_timeout(Some(Duration::from_millis(60)));
                    // read the request(s) (the client writes them back to back), then answer and close
                    let mut b = [0u8; 2048];
                    let t0 = Instant::now();
                    while t0.elapsed() < Duration::from_millis(80) {
                        match st.read(&mut b) {
                            Ok(0) => break,
                            Ok(_) => continue,
                            Err(_) => break,
                        }
                    }
                    if let Some(batches) = script {
                        for bt in &batches {
                            for d in bt {
                                let _ = st.write_all(d);
                            }
                        }
                    }
                    let _ = st.shutdown(std::net::Shutdown::Both);
                } else {
                    std::thread::sleep(Duration::from_millis(2));
                }
            }
        }));
    }
    Served { port, stop, handles }
}

impl Served {
    fn stop(self) {
        self.stop.store(true, Ordering::Relaxed);
        for h in self.handles {
            let _ = h.join();
        }
    }
}

fn run_cli(bin: &str, args: &[String]) -> (i32, String, String, bool) {
    let child = Command::new(bin)
        .args(args)
        .env("RUST_BACKTRACE", "0")
        .stdin(Stdio::null())
        .stdout(Stdio::piped())
        .stderr(Stdio::piped())
        .spawn();
    let mut child = match child {
        Ok(c) => c,
        Err(e) => return (-999, String::new(), format!("cannot start {bin}: {e}"), false),
    };
    // the pipes are drained while the process runs (a document larger than the pipe buffer would otherwise block the tool)
    let (mut so, mut se) = (child.stdout.take().expect("stdout"), child.stderr.take().expect("stderr"));
    let ho = std::thread::spawn(move || {
        let mut v = Vec::new();
        let _ = std::io::Read::read_to_end(&mut so, &mut v);
        v
    });
    let he = std::thread::spawn(move || {
        let mut v = Vec::new();
        let _ = std::io::Read::read_to_end(&mut se, &mut v);
        v
    });
    let t0 = Instant::now();
    let mut timed_out = false;
    let status = loop {
        match child.try_wait() {
            Ok(Some(st)) => break Some(st),
            Ok(None) => {
                if t0.elapsed() > Duration::from_secs(40) {
                    let _ = child.kill();
                    timed_out = true;
                    break child.wait().ok();
                }
                std::thread::sleep(Duration::from_millis(3));
            }
            Err(_) => break None,
        }
    };
    let out = ho.join().unwrap_or_default();
    let err = he.join().unwrap_or_default();
    (
        status.and_then(|s| s.code()).unwrap_or(-1),
        String::from_utf8_lossy(&out).to_string(),
        String::from_utf8_lossy(&err).to_string(),
        timed_out,
    )
}

// ---- strict XML 1.1 well-formedness + tree ---------------------------------------------------------

#[derive(Debug)]
pub struct XNode {
    pub name: String,
    pub text: String,
    pub children: Vec<XNode>,
}

fn is_name_start(c: char) -> bool {
    c == ':' || c == '_' || c.is_ascii_alphabetic() || matches!(c as u32,
        0xC0..=0xD6 | 0xD8..=0xF6 | 0xF8..=0x2FF | 0x370..=0x37D | 0x37F..=0x1FFF | 0x200C..=0x200D | 0x2070..=0x218F |
        0x2C00..=0x2FEF | 0x3001..=0xD7FF | 0xF900..=0xFDCF | 0xFDF0..=0xFFFD | 0x10000..=0xEFFFF)
}
fn is_name_char(c: char) -> bool {
    is_name_start(c) || c == '-' || c == '.' || c.is_ascii_digit() || matches!(c as u32, 0xB7 | 0x0300..=0x036F | 0x203F..=0x2040)
}
/// XML 1.1: characters that may appear literally in content
fn is_literal_char(c: char) -> bool {
    let u = c as u32;
    if u == 0 {
        return false;
    }
    // RestrictedChar must be written as a character reference
    if (0x1 ..= 0x8).contains(&u) || (0xB ..= 0xC).contains(&u) || (0xE ..= 0x1F).contains(&u) || (0x7F ..= 0x84).contains(&u) || (0x86 ..= 0x9F).contains(&u) {
        return false;
    }
    !(u == 0xFFFE || u == 0xFFFF)
}

pub fn parse_xml(s: &str) -> Result<XNode, String> {
    let cs: Vec<char> = s.chars().collect();
    let mut i = 0usize;
    let skip_ws = |i: &mut usize| {
        while *i < cs.len() && cs[*i].is_whitespace() {
            *i += 1;
        }
    };
    // prolog
    let decl = "<?xml";
    if !s.starts_with(decl) {
        return Err("no XML declaration".into());
    }
    let end = s.find("?>").ok_or("unterminated XML declaration")?;
    let d = &s[.. end];
    if !(d.contains("version=\"1.1\"") || d.contains("version=\"1.0\"")) {
        return Err(format!("bad declaration {d:?}"));
    }
    i = s[.. end + 2].chars().count();
    skip_ws(&mut i);
    fn name(cs: &[char], i: &mut usize) -> Result<String, String> {
        let start = *i;
        if *i >= cs.len() || !is_name_start(cs[*i]) {
            return Err(format!("invalid element name start {:?} at {}", cs.get(*i), *i));
        }
        while *i < cs.len() && is_name_char(cs[*i]) {
            *i += 1;
        }
        Ok(cs[start .. *i].iter().collect())
    }
    fn element(cs: &[char], i: &mut usize, depth: usize) -> Result<XNode, String> {
        if depth > 200 {
            return Err("too deep".into());
        }
        if cs.get(*i) != Some(&'<') {
            return Err(format!("expected '<' at {}", *i));
        }
        *i += 1;
        let n = name(cs, i)?;
        // attributes (only `key` is produced: the original key of an element that could not be named after it)
        let mut key_attr: Option<String> = None;
        loop {
            while *i < cs.len() && cs[*i].is_whitespace() {
                *i += 1;
            }
            if *i < cs.len() && is_name_start(cs[*i]) {
                let an = name(cs, i)?;
                if cs.get(*i) != Some(&'=') || cs.get(*i + 1) != Some(&'"') {
                    return Err(format!("malformed attribute {an}"));
                }
                *i += 2;
                let mut val = String::new();
                loop {
                    match cs.get(*i) {
                        None => return Err("unterminated attribute value".into()),
                        Some('"') => {
                            *i += 1;
                            break;
                        }
                        Some('<') => return Err("'<' in attribute value".into()),
                        Some('&') => {
                            let semi = cs[*i ..].iter().position(|c| *c == ';').ok_or("unterminated reference")? + *i;
                            let r: String = cs[*i + 1 .. semi].iter().collect();
                            let c = match r.as_str() {
                                "lt" => '<',
                                "gt" => '>',
                                "amp" => '&',
                                "quot" => '"',
                                "apos" => '\'',
                                x if x.starts_with("#x") => char::from_u32(u32::from_str_radix(&x[2 ..], 16).map_err(|e| e.to_string())?).ok_or("bad char ref")?,
                                x if x.starts_with('#') => char::from_u32(x[1 ..].parse::<u32>().map_err(|e| e.to_string())?).ok_or("bad char ref")?,
                                x => return Err(format!("unknown entity &{x};")),
                            };
                            val.push(c);
                            *i = semi + 1;
                        }
                        Some(c) => {
                            if !is_literal_char(*c) {
                                return Err(format!("character U+{:04X} must not appear literally in an attribute value", *c as u32));
                            }
                            val.push(*c);
                            *i += 1;
                        }
                    }
                }
                if an == "key" {
                    key_attr = Some(val);
                }
            } else {
                break;
            }
        }
        let elem_name = n.clone();
        let n = key_attr.clone().unwrap_or(n);
        if cs.get(*i) == Some(&'/') && cs.get(*i + 1) == Some(&'>') {
            *i += 2;
            return Ok(XNode { name: n, text: String::new(), children: vec![] });
        }
        if cs.get(*i) != Some(&'>') {
            return Err(format!("malformed start tag <{n} at {}", *i));
        }
        *i += 1;
        let mut node = XNode { name: n.clone(), text: String::new(), children: vec![] };
        loop {
            match cs.get(*i) {
                None => return Err(format!("unterminated element <{n}>")),
                Some('<') => {
                    if cs.get(*i + 1) == Some(&'/') {
                        *i += 2;
                        let e = name(cs, i)?;
                        if e != elem_name {
                            return Err(format!("mismatched end tag </{e}> for <{elem_name}>"));
                        }
                        while *i < cs.len() && cs[*i].is_whitespace() {
                            *i += 1;
                        }
                        if cs.get(*i) != Some(&'>') {
                            return Err("malformed end tag".into());
                        }
                        *i += 1;
                        return Ok(node);
                    }
                    node.children.push(element(cs, i, depth + 1)?);
                }
                Some('&') => {
                    let semi = cs[*i ..].iter().position(|c| *c == ';').ok_or("unterminated reference")? + *i;
                    let r: String = cs[*i + 1 .. semi].iter().collect();
                    let c = match r.as_str() {
                        "lt" => '<',
                        "gt" => '>',
                        "amp" => '&',
                        "quot" => '"',
                        "apos" => '\'',
                        x if x.starts_with("#x") => char::from_u32(u32::from_str_radix(&x[2 ..], 16).map_err(|e| e.to_string())?).ok_or("bad char ref")?,
                        x if x.starts_with('#') => char::from_u32(x[1 ..].parse::<u32>().map_err(|e| e.to_string())?).ok_or("bad char ref")?,
                        x => return Err(format!("unknown entity &{x};")),
                    };
                    if c == '\0' {
                        return Err("reference to U+0000".into());
                    }
                    node.text.push(c);
                    *i = semi + 1;
                }
                Some(c) => {
                    if !is_literal_char(*c) {
                        return Err(format!("character U+{:04X} must not appear literally in XML 1.1 content", *c as u32));
                    }
                    node.text.push(*c);
                    *i += 1;
                }
            }
        }
    }
    let root = element(&cs, &mut i, 0)?;
    skip_ws(&mut i);
    if i != cs.len() {
        return Err("content after the root element".into());
    }
    Ok(root)
}

fn xml_leaves(n: &XNode, path: &str, out: &mut Vec<(String, String)>) {
    let p = format!("{path}/{}", n.name);
    if n.children.is_empty() {
        out.push((p, n.text.clone()));
    } else {
        for c in &n.children {
            xml_leaves(c, &p, out);
        }
    }
}

/// the leaves the documented JSON -> XML mapping produces (object: child per key; array: one element per item
/// named like the array's key, "item" at top level; null: empty element; scalar: text)
fn json_leaves(v: &Value, key: Option<&str>, path: &str, out: &mut Vec<(String, String)>) {
    match v {
        Value::Object(m) => {
            let p = match key {
                Some(k) => format!("{path}/{k}"),
                None => path.to_string(),
            };
            let before = out.len();
            for (k, x) in m {
                json_leaves(x, Some(k), &p, out);
            }
            // an object that yields no leaf (empty, or only empty lists) is still written as an empty element
            if out.len() == before && key.is_some() {
                out.push((p.clone(), String::new()));
            }
        }
        Value::Array(a) => {
            for x in a {
                json_leaves(x, Some(key.unwrap_or("item")), path, out);
            }
        }
        Value::Null => {
            if let Some(k) = key {
                out.push((format!("{path}/{k}"), String::new()));
            }
        }
        // U+0000, U+FFFE and U+FFFF cannot be written in XML at all, not even as references: they are shown as U+FFFD
        Value::String(s) => out.push((format!("{path}/{}", key.unwrap_or("")), s.replace(['\0', '\u{fffe}', '\u{ffff}'], "\u{fffd}"))),
        other => out.push((format!("{path}/{}", key.unwrap_or("")), other.to_string())),
    }
}

fn bson_to_json(doc: &bson::Document) -> Value { bson::Bson::Document(doc.clone()).into_relaxed_extjson() }

/// u64 / u32 values come back from BSON as signed 64-bit: compare numerically
fn normalise_numbers(v: &Value) -> Value {
    match v {
        Value::Object(m) => Value::Object(m.iter().map(|(k, x)| (k.clone(), normalise_numbers(x))).collect()),
        Value::Array(a) => Value::Array(a.iter().map(normalise_numbers).collect()),
        Value::Number(n) => {
            if let Some(f) = n.as_f64() {
                if n.is_f64() && f.fract() == 0.0 && f.abs() < 9e15 {
                    return json!(f as i64);
                }
            }
            v.clone()
        }
        _ => v.clone(),
    }
}

pub fn replay(fctx: &fuzz::Ctx, bin: &str, cases: &[Value], seed: u64, reps: usize, rep: &mut Report) {
    let mut rng = StdRng::seed_from_u64(seed);
    CAP_U63.with(|c| c.set(true));
    for c in cases {
        for _ in 0 .. reps {
            rep.evaluations += 1;
            if c["kind"] == "good" {
                // 64-bit identifiers: the full unsigned range for the text formats; below 2^63 for BSON, which has no unsigned
                // 64-bit integer (D15)
                CAP_U63.with(|x| x.set(c["fmt"].as_str().map_or(false, |f| f.starts_with("bson"))));
                good_case(fctx, bin, c, &mut rng, rep);
            } else if c["err"] == "malformed_reply" {
                malformed_reply_case(fctx, bin, c, &mut rng, rep);
                finish_case();
            } else {
                bad_case(bin, c, rep);
            }
        }
        rep.distinct.insert(hash_of(&c.to_string()));
        rep.sample(c);
    }
    set_strclass("");
    CAP_U63.with(|c| c.set(false));
}

// ---- recorded runs for Trace_Cli.tla: what was asked, what the process did ---------------------------------------
thread_local! {
    static CLI_TRACE: std::cell::RefCell<Vec<Value>> = const { std::cell::RefCell::new(Vec::new()) };
    static CUR_RUN: std::cell::RefCell<Option<(i32, bool, bool, bool, bool)>> = const { std::cell::RefCell::new(None) };
    static CUR_SIGS: std::cell::RefCell<Vec<String>> = const { std::cell::RefCell::new(Vec::new()) };
}

fn note_run(kind: &str, err_kind: &str, code: i32, out: &str, err: &str, timed_out: bool) {
    CLI_TRACE.with(|t| t.borrow_mut().push(json!({"ev":"Invoke","kind":kind,"err":err_kind})));
    CUR_RUN.with(|r| *r.borrow_mut() = Some((code, !out.trim().is_empty(), !err.trim().is_empty(), err.contains("panicked at"), timed_out)));
    CUR_SIGS.with(|s| s.borrow_mut().clear());
}

fn note_sig(sig: &str) { CUR_SIGS.with(|s| s.borrow_mut().push(sig.to_string())); }

fn finish_case() {
    let Some((code, printed, stderr, panic, timed_out)) = CUR_RUN.with(|r| r.borrow_mut().take()) else { return };
    let sigs = CUR_SIGS.with(|s| std::mem::take(&mut *s.borrow_mut()));
    // the harness's independent readers decided these two (a run that did not exit counts as a panic: no outcome at all)
    let wellformed = !sigs.iter().any(|s| s.contains("is not one") || s.contains("not well-formed") || s.contains("nothing printed"));
    let faithful = !sigs.iter().any(|s| s.contains("differs") || s.contains("does not carry"));
    CLI_TRACE.with(|t| t.borrow_mut().push(json!({"ev":"Exit","code0":code == 0,"printed":printed,"stderr":stderr,"panic":panic || timed_out,
                                                 "wellformed":wellformed,"faithful":faithful})));
}

pub fn take_trace() -> Vec<Value> { CLI_TRACE.with(|t| std::mem::take(&mut *t.borrow_mut())) }

fn good_case(fctx: &fuzz::Ctx, bin: &str, c: &Value, rng: &mut StdRng, rep: &mut Report) {
    good_case_inner(fctx, bin, c, rng, rep);
    finish_case();
}

fn good_case_inner(fctx: &fuzz::Ctx, bin: &str, c: &Value, rng: &mut StdRng, rep: &mut Report) {
    let fam = c["fam"].as_str().unwrap();
    let id = game_of(fam);
    let name = format!("generic:{id}");
    set_strclass(c["str"].as_str().unwrap());
    let mut base = fuzz::base_for(rng, fctx, &name);
    set_strclass("");
    // plain single-packet valve replies (challenge rounds / splits are C02's business) keep the server simple
    if fam == "mcauto" {
        // the first variant (Java) answers
        base.conns.truncate(1);
    }
    if c["size"] == "large" {
        // a Quake 3 status reply with 130 player lines (one datagram; strings of the case's class)
        set_strclass(c["str"].as_str().unwrap());
        let ok = |ch: char| ch != '\\' && ch != '"' && ch != '\n' && ch != '\0';
        let mut d: Vec<u8> = b"\xff\xff\xff\xffstatusResponse\n".to_vec();
        let host = random_string_where(rng, 0, 30, ok);
        d.extend(format!("\\sv_hostname\\{host}\\mapname\\q3dm17\\sv_maxclients\\200\\version\\ioq3 1.36\\g_gametype\\0\n").as_bytes());
        for _ in 0 .. 130 {
            let name = random_string_where(rng, 0, 24, ok);
            d.extend(format!("{} {} \"{}\"\n", rng.gen_range(-50 .. 900), rng.gen_range(0 .. 999), name).as_bytes());
        }
        set_strclass("");
        base.conns = vec![(false, vec![vec![d]])];
    }
    base.cfg = json!({"port": 27015, "retries": 0});
    // a named host with a request option: the option is part of what the library is asked (and of the expectation)
    let named = c["host"] == "name";
    let opt: Option<(&str, &str, &str)> = if !named { None } else if fam == "unreal2" { Some(("--gather-players", "skip", "gather_players")) } else { Some(("--gather-rules", "skip", "gather_rules")) };
    if named {
        use std::net::ToSocketAddrs;
        let first = "localhost:0".to_socket_addrs().ok().and_then(|mut a| a.next()).map(|a| a.ip().to_string());
        if first.as_deref() != Some("127.0.0.1") {
            let n = rep.extra.get("named_host_skipped").and_then(|v| v.as_u64()).unwrap_or(0);
            rep.extra.insert("named_host_skipped".into(), json!(n + 1)); // `localhost` does not name 127.0.0.1 first on this machine
            return;
        }
        base.cfg["extra"] = json!({"hostname": "localhost", opt.unwrap().2: "Skip"});
    }
    // expectation: the library's own response for the same replies (scripted transport)
    let script = base.script();
    let lib = call_entry(&name, &base.cfg, &script);
    let Outcome::Ok(view) = &lib.outcome else {
        // the library rejects this reply (e.g. an empty mandatory string in GameSpy 3): not a CLI case
        return;
    };
    let mode = c["mode"].as_str().unwrap();
    let fmt = c["fmt"].as_str().unwrap();
    let mut want = if mode == "generic" { view["common"].clone() } else { view["original"].clone() };
    // a set-typed field serialises in arbitrary order (per process)
    let set_paths = [json!(["Unreal2", "mutators_and_rules", "mutators"])];
    crate::layout::normalise_unordered(&mut want, &set_paths);
    let served = serve(&base);
    let mut args: Vec<String> = ["query", "-g", id, "-i", if named { "localhost" } else { "127.0.0.1" }, "-p", &served.port.to_string(), "-f", fmt, "-o", mode,
                             "--read-timeout", "2", "--connect-timeout", "2", "--write-timeout", "2"]
        .iter()
        .map(|s| s.to_string())
        .collect();
    if let Some((flag, val, _)) = opt {
        args.push(flag.to_string());
        args.push(val.to_string());
    }
    let (code, out, err, timed_out) = run_cli(bin, &args);
    served.stop();
    note_run("good", "none", code, &out, &err, timed_out);
    let case = json!({"case": c, "game": id, "args": args[.. 12], "script": script});
    let mut fail = |sig: String, detail: Value| {
        note_sig(&sig);
        rep.violation("C19", &sig, json!({"kind":"cli","case":case,"detail":detail,"exit":code,
                                          "stdout": out.chars().take(1500).collect::<String>(), "stderr": err.chars().take(600).collect::<String>()}));
    };
    if timed_out {
        fail(format!("cli {fam}/{fmt}: did not exit"), json!({}));
        return;
    }
    if err.contains("panicked at") {
        fail(format!("cli {fmt}/{mode}: panic"), json!({}));
        return;
    }
    if code != 0 {
        fail(format!("cli {fam}/{fmt}/{mode}: non-zero exit status against an answering server"), json!({}));
        return;
    }
    let body = out.trim_end_matches('\n');
    match fmt {
        "json" | "json-pretty" => {
            match serde_json::from_str::<Value>(body) {
                Err(e) => fail(format!("cli {fmt}/{mode}: output is not one JSON document"), json!({"error": e.to_string()})),
                Ok(mut v) => {
                    crate::layout::normalise_unordered(&mut v, &set_paths);
                    if let Some(d) = diff("", &want, &v) {
                        fail(format!("cli {fmt}/{mode}: document differs from the library's response"), json!({"diff": d}));
                    }
                }
            }
        }
        "xml" => {
            match parse_xml(body) {
                Err(e) => fail(format!("cli xml/{mode}: output is not well-formed XML ({})", e.split(|c: char| c.is_ascii_digit()).next().unwrap_or("").trim()), json!({"error": e})),
                Ok(root) => {
                    let mut got = Vec::new();
                    xml_leaves(&root, "", &mut got);
                    let mut exp = Vec::new();
                    json_leaves(&want, None, "/data", &mut exp);
                    // an element without children and text is how both an empty string and null are written
                    got.sort();
                    exp.sort();
                    if root.children.is_empty() && exp.is_empty() {
                        return;
                    }
                    if got != exp {
                        let miss: Vec<_> = exp.iter().filter(|e| !got.contains(e)).take(3).collect();
                        let extra: Vec<_> = got.iter().filter(|e| !exp.contains(e)).take(3).collect();
                        fail(format!("cli xml/{mode}: document does not carry the library's values"), json!({"missing": miss, "unexpected": extra}));
                    }
                }
            }
        }
        "bson-hex" | "bson-base64" => {
            let bytes = if fmt == "bson-hex" {
                hex::decode(body).map_err(|e| e.to_string())
            } else {
                base64::prelude::BASE64_STANDARD.decode(body).map_err(|e| e.to_string())
            };
            match bytes.and_then(|b| bson::Document::from_reader(&mut b.as_slice()).map_err(|e| e.to_string())) {
                Err(e) => fail(format!("cli {fmt}/{mode}: output is not one BSON document in the announced encoding"), json!({"error": e})),
                Ok(doc) => {
                    let mut v = normalise_numbers(&bson_to_json(&doc));
                    crate::layout::normalise_unordered(&mut v, &set_paths);
                    if let Some(d) = diff("", &normalise_numbers(&want), &v) {
                        fail(format!("cli {fmt}/{mode}: document differs from the library's response"), json!({"diff": d}));
                    }
                }
            }
        }
        _ => {
            if body.trim().is_empty() {
                fail(format!("cli debug/{mode}: nothing printed"), json!({}));
            }
        }
    }
}

fn bad_case(bin: &str, c: &Value, rep: &mut Report) {
    bad_case_inner(bin, c, rep);
    finish_case();
}

/// A reachable server whose reply the library rejects: the tool must fail the way it fails for an unreachable one (non-zero
/// status, a message, nothing printed), whatever the kind of the library's error.
fn malformed_reply_case(fctx: &fuzz::Ctx, bin: &str, c: &Value, rng: &mut StdRng, rep: &mut Report) {
    let fam = c["fam"].as_str().unwrap();
    let id = game_of(fam);
    let name = format!("generic:{id}");
    let mut base = fuzz::base_for(rng, fctx, &name);
    if fam == "mcauto" {
        base.conns.truncate(1);
    }
    for (_, batches) in &mut base.conns {
        for b in batches.iter_mut() {
            for d in b.iter_mut() {
                match c["how"].as_str().unwrap() {
                    "truncated" => d.truncate(d.len() / 2),
                    "appended" => d.extend([0x41u8; 24]),
                    _ => {
                        for x in d.iter_mut().skip(4) {
                            *x = x.wrapping_mul(31).wrapping_add(7);
                        }
                    }
                }
            }
        }
    }
    base.cfg = json!({"port": 27015, "retries": 0});
    let script = base.script();
    let lib = call_entry(&name, &base.cfg, &script);
    let Outcome::Err(kind) = &lib.outcome else {
        // the library accepts (or panics on: C01's subject) this reply: not a case of a rejected reply
        let n = rep.extra.get("malformed_reply_accepted_by_library").and_then(|v| v.as_u64()).unwrap_or(0);
        rep.extra.insert("malformed_reply_accepted_by_library".into(), json!(n + 1));
        return;
    };
    let served = serve(&base);
    let args: Vec<String> = ["query", "-g", id, "-i", "127.0.0.1", "-p", &served.port.to_string(), "-f", "json", "--read-timeout", "1", "--connect-timeout", "1", "--write-timeout", "1"]
        .iter()
        .map(|s| s.to_string())
        .collect();
    let (code, out, err, timed_out) = run_cli(bin, &args);
    served.stop();
    note_run("bad", "malformed_reply", code, &out, &err, timed_out);
    let mut fail = |sig: String| {
        note_sig(&sig);
        rep.violation("C19", &sig, json!({"kind":"cli-error","case":c,"args":args,"exit":code,"library_error":kind,"stdout":out.chars().take(300).collect::<String>(),
                                          "stderr":err.chars().take(600).collect::<String>(),"script":script}));
    };
    if timed_out {
        fail(format!("cli malformed reply ({fam}): did not exit"));
    } else if err.contains("panicked at") {
        fail(format!("cli malformed reply ({fam}): panic"));
    } else if code == 0 {
        fail(format!("cli malformed reply: exit status 0 although the library rejects the reply"));
    } else if err.trim().is_empty() {
        fail(format!("cli malformed reply: no error message"));
    }
}

fn bad_case_inner(bin: &str, c: &Value, rep: &mut Report) {
    let fmt = c["fmt"].as_str().unwrap();
    // an address nobody listens on (a bound-then-dropped UDP port)
    let dead_port = {
        let s = UdpSocket::bind("127.0.0.1:0").unwrap();
        s.local_addr().unwrap().port()
    };
    let p = dead_port.to_string();
    let flag_text = format!("{}={}", c["flag"].as_str().unwrap_or(""), c["text"].as_str().unwrap_or(""));
    let args: Vec<&str> = match c["err"].as_str().unwrap() {
        "unrepresentable_timeout" => vec!["query", "-g", if c["flag"] == "--connect-timeout" { "minecraft" } else { "csgo" }, "-i", "127.0.0.1", "-p", &p, "-f", fmt, &flag_text],
        "unknown_game" => vec!["query", "-g", "nosuchgame", "-i", "127.0.0.1", "-f", fmt],
        "unresolvable_host" => vec!["query", "-g", "csgo", "-i", "no.such.host.invalid", "-f", fmt],
        "unreachable_server" => vec!["query", "-g", "csgo", "-i", "127.0.0.1", "-p", &p, "-f", fmt, "--read-timeout", "1", "--connect-timeout", "1", "--write-timeout", "1"],
        "bad_port" => vec!["query", "-g", "csgo", "-i", "127.0.0.1", "-p", "99999", "-f", fmt],
        "bad_format" => vec!["query", "-g", "csgo", "-i", "127.0.0.1", "-f", "yaml"],
        "zero_timeout" => vec!["query", "-g", "csgo", "-i", "127.0.0.1", "-p", &p, "-f", fmt, "--read-timeout", "0"],
        "tiny_read_timeout" => vec!["query", "-g", "csgo", "-i", "127.0.0.1", "-p", &p, "-f", fmt, "--read-timeout", "0.0000000001"],
        "tiny_write_timeout" => vec!["query", "-g", "csgo", "-i", "127.0.0.1", "-p", &p, "-f", fmt, "--write-timeout", "1e-10"],
        "tiny_connect_timeout" => vec!["query", "-g", "minecraft", "-i", "127.0.0.1", "-p", &p, "-f", fmt, "--connect-timeout", "0.0000000004"],
        "negative_timeout" => vec!["query", "-g", "csgo", "-i", "127.0.0.1", "-p", &p, "-f", fmt, "--read-timeout=-1"],
        "text_timeout" => vec!["query", "-g", "csgo", "-i", "127.0.0.1", "-p", &p, "-f", fmt, "--write-timeout", "soon"],
        "bad_retries" => vec!["query", "-g", "csgo", "-i", "127.0.0.1", "-f", fmt, "--retries", "-1"],
        _ => vec!["query", "-g", "csgo", "-f", fmt],
    };
    let args: Vec<String> = args.iter().map(|s| s.to_string()).collect();
    let (code, out, err, timed_out) = run_cli(bin, &args);
    note_run("bad", c["err"].as_str().unwrap(), code, &out, &err, timed_out);
    let mut fail = |sig: String| {
        rep.violation("C19", &sig, json!({"kind":"cli-error","case":c,"args":args,"exit":code,"stdout":out.chars().take(500).collect::<String>(),
                                          "stderr":err.chars().take(800).collect::<String>()}));
    };
    let e = if c["err"] == "unrepresentable_timeout" { format!("unrepresentable_timeout {}", c["text"].as_str().unwrap_or("")) } else { c["err"].as_str().unwrap().to_string() };
    if timed_out {
        fail(format!("cli error case {e}: did not exit"));
    } else if err.contains("panicked at") {
        fail(format!("cli error case {e}: panic"));
    } else if code == 0 {
        fail(format!("cli error case {e}: exit status 0"));
    } else if err.trim().is_empty() {
        fail(format!("cli error case {e}: no error message"));
    }
}
