//! Valve A2S: reference server built from spec/ValveLayout.tla tables, replay of ValveA2S.tla behaviours,
//! random trace driver.
use crate::layout::*;
use crate::template::*;
use crate::transport::*;
use crate::util::*;
use gamedig::protocols::types::{GatherToggle, TimeoutSettings};
use gamedig::protocols::valve::{self, Engine, GatheringSettings};
use rand::prelude::*;
use serde_json::{json, Value};
use std::collections::HashMap;
use std::net::SocketAddr;
use std::time::Duration;

pub struct Ctx {
    pub layouts: LayoutSet,
    pub templates: Templates,
    pub drift: Vec<String>,
}

pub fn addr(port: u16) -> SocketAddr { SocketAddr::new("127.0.0.1".parse().unwrap(), port) }

pub fn toggle(s: &str) -> GatherToggle {
    match s {
        "Skip" => GatherToggle::Skip,
        "Try" => GatherToggle::Try,
        "Enforce" => GatherToggle::Enforce,
        _ => panic!("toggle {s}"),
    }
}

pub fn timeouts(retries: usize) -> Option<TimeoutSettings> {
    Some(
        TimeoutSettings::new(
            Some(Duration::from_millis(50)),
            Some(Duration::from_millis(50)),
            Some(Duration::from_millis(50)),
            retries,
        )
        .unwrap(),
    )
}

/// Engine description kept in replay files.
pub fn engine_of(e: &Value) -> Engine {
    match e["t"].as_str().unwrap() {
        "source_none" => Engine::Source(None),
        "source" => {
            Engine::Source(Some((
                e["main"].as_u64().unwrap() as u32,
                e["ded"].as_u64().map(|d| d as u32),
            )))
        }
        "goldsrc" => Engine::GoldSrc(e["force"].as_bool().unwrap()),
        t => panic!("engine {t}"),
    }
}

fn is_ship(e: &Value) -> bool { e["t"] == "source" && e["main"] == 2400 && e["ded"].is_null() }
fn is_css(e: &Value) -> bool { e["t"] == "source" && e["main"] == 240 && e["ded"].is_null() }
fn goldsrc_split(e: &Value) -> bool { e["t"] == "goldsrc" }
fn obsolete_info(e: &Value) -> bool { e["t"] == "goldsrc" && e["force"] == true }

/// Build one section reply (payload starting with FFFFFFFF + kind) and its expected JSON.
/// `appid`: the id the server reports (pinned into the 16-bit id or the 64-bit game id).
pub fn build_section(
    rng: &mut StdRng,
    ctx: &Ctx,
    sec: &str,
    engine: &Value,
    appid: u32,
    shape_filter: Option<&dyn Fn(&Value) -> bool>,
    protocol_pin: Option<u8>,
) -> (Vec<u8>, Value, Value) {
    if shape_filter.is_some() {
        return build_section_any(rng, ctx, sec, engine, appid, shape_filter, protocol_pin);
    }
    // the caller does not insist on a shape: a reply that fits one datagram a server sends (D17); callers that want large
    // replies name the shape and split them
    let mut best: Option<(Vec<u8>, Value, Value)> = None;
    for _ in 0 .. 40 {
        let b = build_section_any(rng, ctx, sec, engine, appid, None, protocol_pin);
        if b.0.len() <= 1300 {
            return b;
        }
        if best.as_ref().map_or(true, |x| b.0.len() < x.0.len()) {
            best = Some(b);
        }
    }
    best.unwrap()
}

fn build_section_any(
    rng: &mut StdRng,
    ctx: &Ctx,
    sec: &str,
    engine: &Value,
    appid: u32,
    shape_filter: Option<&dyn Fn(&Value) -> bool>,
    protocol_pin: Option<u8>,
) -> (Vec<u8>, Value, Value) {
    let lsec = match sec {
        "info" => if obsolete_info(engine) { "info_goldsrc" } else { "info_source" },
        s => s,
    };
    let ship = is_ship(engine);
    let cands: Vec<&Value> = ctx
        .layouts
        .of("valve", lsec)
        .into_iter()
        .filter(|l| {
            let s = &l["shape"];
            (match lsec {
                "info_source" => {
                    s["ship"] == ship
                        // ids above 16 bits can only be reported through the 64-bit game id
                        && (appid < 65536 || s["edf"].as_array().unwrap().iter().any(|f| f == "gameid"))
                }
                "players" => s["ship"] == ship,
                _ => true,
            }) && match shape_filter {
                Some(f) => f(s),
                // unsettled sub-cases (spec/drift.json) are exercised only when asked for explicitly
                None => l["layout"]["uncertain"].as_str().map_or(true, |u| u.is_empty()),
            }
        })
        .collect();
    assert!(!cands.is_empty(), "no shape for {lsec}");
    let l = cands[rng.gen_range(0 .. cands.len())];
    let lay = &l["layout"];
    let mut fixed: HashMap<String, (Value, Vec<u8>)> = HashMap::new();
    if lsec == "info_source" {
        let has_gid = l["shape"]["edf"].as_array().unwrap().iter().any(|f| f == "gameid");
        if has_gid {
            let mut gid: u64 = (rng.gen::<u64>() & !0xff_ffff) | appid as u64;
            if CAP_U63.with(|c| c.get()) {
                gid &= i64::MAX as u64;
            }
            fixed.insert("gameid".into(), (json!(gid), gid.to_le_bytes().to_vec()));
        } else {
            fixed.insert("id".into(), (json!(appid as u16), (appid as u16).to_le_bytes().to_vec()));
        }
    }
    if let Some(p) = protocol_pin {
        fixed.insert("protocol".into(), (json!(p), vec![p]));
    }
    let enc = encode(rng, lay["items"].as_array().unwrap(), &fixed);
    let exp = expected(lay["expect"].as_array().unwrap(), &enc.values);
    let mut payload = vec![0xff, 0xff, 0xff, 0xff, lay["kind"].as_u64().unwrap() as u8];
    payload.extend(enc.bytes);
    (payload, exp, json!({"sec": lsec, "shape": l["shape"], "uncertain": lay["uncertain"]}))
}

fn bz2(data: &[u8]) -> Vec<u8> {
    use std::io::Write;
    use std::process::{Command, Stdio};
    // (the same payload is compressed again for every mutation of one base: remember the last few)
    thread_local! { static CACHE: std::cell::RefCell<Vec<(u64, Vec<u8>)>> = const { std::cell::RefCell::new(Vec::new()) }; }
    let h = hash_of(&data);
    if let Some(v) = CACHE.with(|c| c.borrow().iter().find(|(k, _)| *k == h).map(|(_, v)| v.clone())) {
        return v;
    }
    let out = bz2_uncached(data);
    CACHE.with(|c| {
        let mut c = c.borrow_mut();
        if c.len() >= 16 {
            c.remove(0);
        }
        c.push((h, out.clone()));
    });
    return out;
}

fn bz2_uncached(data: &[u8]) -> Vec<u8> {
    use std::io::Write;
    use std::process::{Command, Stdio};
    let mut c = Command::new("python3")
        .args(["-c", "import sys,bz2;sys.stdout.buffer.write(bz2.compress(sys.stdin.buffer.read()))"])
        .stdin(Stdio::piped())
        .stdout(Stdio::piped())
        .spawn()
        .expect("python3 for bz2");
    c.stdin.take().unwrap().write_all(data).unwrap();
    let out = c.wait_with_output().unwrap();
    assert!(out.status.success());
    out.stdout
}

fn cut(rng: &mut StdRng, data: &[u8], k: usize) -> Vec<Vec<u8>> {
    // k chunks at random boundaries (chunks may be empty only if the data is shorter than k); no chunk larger than a
    // datagram a real server sends (D17) when k chunks of that size can hold the data
    const CAP: usize = 1380;
    let fits = data.len() <= k * 1200;
    let mut cuts: Vec<usize> = Vec::new();
    for attempt in 0 .. 40 {
        cuts = (0 .. k - 1).map(|_| rng.gen_range(0 ..= data.len())).collect();
        cuts.sort();
        let mut prev = 0;
        let mut ok = true;
        for c in cuts.iter().copied().chain(std::iter::once(data.len())) {
            ok &= c - prev <= CAP;
            prev = c;
        }
        if ok || !fits {
            break;
        }
        if attempt == 39 {
            // even cut with a little jitter
            let base = (data.len() + k - 1) / k;
            cuts = (1 .. k).map(|i| (i * base + rng.gen_range(0 ..= (CAP - 1200).min(base / 8))).min(data.len())).collect();
        }
    }
    let mut out = Vec::new();
    let mut prev = 0;
    for c in cuts {
        out.push(data[prev .. c].to_vec());
        prev = c;
    }
    out.push(data[prev ..].to_vec());
    out
}

/// Cut a reply into k fragments with the framing of spec/ValveLayout.tla (frag_source / frag_goldsrc).
pub fn split(
    rng: &mut StdRng,
    ctx: &Ctx,
    payload: &[u8],
    k: usize,
    gold: bool,
    sized: bool,
    compressed: bool,
) -> Vec<Vec<u8>> {
    // Source: bit 31 of the answer id is the compression flag; GoldSrc: the id is any 32-bit number (no flag exists there)
    let (body, dsize, crc) = if compressed { (bz2(payload), payload.len() as u32, crc32fast::hash(payload)) } else { (payload.to_vec(), 0, 0) };
    split_body(rng, ctx, &body, dsize, crc, k, gold, sized, compressed)
}

/// A bzip2 stream of `mib` MiB of zero bytes (a few hundred bytes long): the body of a decompression bomb.
pub fn bz2_zeros(mib: usize) -> Vec<u8> {
    use std::process::{Command, Stdio};
    let out = Command::new("python3")
        .args(["-c", &format!("import sys,bz2;sys.stdout.buffer.write(bz2.compress(bytes({mib}<<20)))")])
        .stdout(Stdio::piped())
        .output()
        .expect("python3 for bz2");
    assert!(out.status.success());
    out.stdout
}

/// `n` bzip2 streams of FF FF FF FF 41 + 4 distinct bytes + `len` filler bytes (challenge replies of Hostile.tla `challenge_flood`),
/// with their plain sizes and CRCs; one compressor process for all of them.
pub fn bz2_challenges(n: usize, len: usize) -> Vec<(Vec<u8>, u32, u32)> {
    use std::process::{Command, Stdio};
    let code = format!(
        "import sys,bz2,zlib\nfor i in range({n}):\n p=b'\\xff\\xff\\xff\\xff\\x41'+i.to_bytes(4,'little')+bytes([i%251])*{len}\n c=bz2.compress(p)\n sys.stdout.write(c.hex()+' '+str(len(p))+' '+str(zlib.crc32(p))+'\\n')\n"
    );
    let out = Command::new("python3").args(["-c", &code]).stdout(Stdio::piped()).output().expect("python3 for bz2");
    assert!(out.status.success(), "python3 bz2: {}", String::from_utf8_lossy(&out.stderr));
    String::from_utf8_lossy(&out.stdout)
        .lines()
        .map(|l| {
            let mut it = l.split(' ');
            let body = crate::transport::unhex(it.next().unwrap());
            (body, it.next().unwrap().parse().unwrap(), it.next().unwrap().parse().unwrap())
        })
        .collect()
}

/// The framing of `split` around an arbitrary body (for a compressed reply: the bzip2 stream, the declared size and CRC).
pub fn split_body(
    rng: &mut StdRng,
    ctx: &Ctx,
    body: &[u8],
    dsize: u32,
    crc: u32,
    k: usize,
    gold: bool,
    sized: bool,
    compressed: bool,
) -> Vec<Vec<u8>> {
    let mut id: u32 = if gold { rng.gen::<u32>() | if rng.gen_bool(0.5) { 0x8000_0000 } else { 0 } } else { rng.gen::<u32>() & 0x7fff_ffff };
    if compressed {
        id |= 0x8000_0000;
    }
    let body = body.to_vec();
    let chunks = cut(rng, &body, k);
    let mut out = Vec::new();
    for (n, ch) in chunks.iter().enumerate() {
        // the framing layout of the spec is parametric in (total, number); the exported instances cover 1..4, larger
        // replies reuse the instance of the same position class with the two literal bytes replaced
        let (lk, ln) = if k <= 4 { (k, n) } else { (4, if n == 0 { 0 } else { 1 }) };
        let lay = ctx
            .layouts
            .of("valve", if gold { "frag_goldsrc" } else { "frag_source" })
            .into_iter()
            .find(|l| {
                let s = &l["shape"];
                s["total"] == lk as u64
                    && s["number"] == ln as u64
                    && (gold || (s["sized"] == sized && s["compressed"] == compressed))
            })
            .expect("frag layout");
        let mut d = Vec::new();
        let mut lit_no = 0;
        for it in lay["layout"]["items"].as_array().unwrap() {
            match it["k"].as_str().unwrap() {
                "lit" if k > 4 && lit_no >= 1 => {
                    // literal 2 = total (Source) or number<<4|total (GoldSrc); literal 3 = number (Source)
                    lit_no += 1;
                    if gold {
                        d.push(((n as u8) << 4) | (k as u8 & 0x0f));
                    } else if lit_no == 2 {
                        d.push(k as u8);
                    } else {
                        d.push(n as u8);
                    }
                }
                "lit" => {
                    lit_no += 1;
                    let b: Vec<u8> = it["b"].as_array().unwrap().iter().map(|x| x.as_u64().unwrap() as u8).collect();
                    d.extend(crate::layout::visit_item(rng, it, b));
                }
                "chunk" => d.extend(ch),
                "f" => {
                    // (the framing fields take part in the item-level mutations of the hostile catalogue)
                    let b: Vec<u8> = match it["f"].as_str().unwrap() {
                        "id" => id.to_le_bytes().to_vec(),
                        "size" => 1248u16.to_le_bytes().to_vec(),
                        "dsize" => dsize.to_le_bytes().to_vec(),
                        "crc" => crc.to_le_bytes().to_vec(),
                        f => panic!("frag field {f}"),
                    };
                    d.extend(crate::layout::visit_item(rng, it, b));
                }
                k => panic!("frag item {k}"),
            }
        }
        out.push(d);
    }
    out
}

pub fn challenge_packet(c: [u8; 4]) -> Vec<u8> { [&[0xff, 0xff, 0xff, 0xff, 0x41][..], &c[..]].concat() }

/// stratified challenge bytes: each byte from {00, 41, FF, other}
pub fn strat_challenge(rng: &mut StdRng, stratum: Option<usize>) -> [u8; 4] {
    let s = stratum.unwrap_or_else(|| rng.gen_range(0 .. 256));
    let mut c = [0u8; 4];
    for (i, b) in c.iter_mut().enumerate() {
        *b = match (s >> (2 * i)) & 3 {
            0 => 0x00,
            1 => 0x41,
            2 => 0xff,
            _ => {
                loop {
                    let x: u8 = rng.gen();
                    if x != 0 && x != 0x41 && x != 0xff {
                        break x;
                    }
                }
            }
        };
    }
    c
}

/// A reply that is malformed for section `sec` (D8): the fault-free run of the request returns a
/// non-timeout error on it.
/// The datagrams of a malformed reply: one malformed datagram, or (players / rules) a split reply of three fragments whose
/// first-arriving fragment carries a number outside 0..total - the client has to get past ALL its datagrams (a fragment left
/// unread would be taken for the answer to the next request).
pub fn malformed_batch(rng: &mut StdRng, sec: &str, good: &[u8], gold: bool) -> (Vec<Vec<u8>>, &'static str) {
    if sec != "info" && good.len() > 12 && rng.gen_bool(0.3) {
        let id: u32 = rng.gen::<u32>() & 0x7fff_ffff;
        let cuts = [good.len() / 3, 2 * good.len() / 3];
        let pieces = [&good[.. cuts[0]], &good[cuts[0] .. cuts[1]], &good[cuts[1] ..]];
        let bad_number: u8 = [3u8, 7, 15][rng.gen_range(0 .. 3)];
        let numbers = [bad_number, 1, 2];
        let frags = pieces
            .iter()
            .zip(numbers)
            .map(|(p, n)| {
                let mut d = vec![0xfe, 0xff, 0xff, 0xff];
                d.extend(id.to_le_bytes());
                if gold {
                    d.push((n << 4) | 3);
                } else {
                    d.extend([3, n]);
                    d.extend(1248u16.to_le_bytes());
                }
                d.extend(*p);
                d
            })
            .collect();
        return (frags, "split reply with a fragment number outside 0..total arriving first");
    }
    let (m, why) = malformed(rng, sec, good);
    (vec![m], why)
}

pub fn malformed(rng: &mut StdRng, sec: &str, good: &[u8]) -> (Vec<u8>, &'static str) {
    match rng.gen_range(0 .. 4) {
        0 => (vec![], "empty datagram"),
        1 => (vec![0xff; rng.gen_range(1 ..= 4)], "shorter than header + kind"),
        2 => {
            match sec {
                // header + kind + one byte: info then lacks everything after the protocol byte; a players reply
                // announcing one player lacks it; a rules reply has half a count
                "info" => (good[.. 5].to_vec(), "info body missing"),
                "players" => (vec![0xff, 0xff, 0xff, 0xff, 0x44, 3], "players count without entries"),
                _ => (vec![0xff, 0xff, 0xff, 0xff, 0x45, 1], "half a rules count"),
            }
        }
        _ => {
            match sec {
                "info" => (good[.. 5].to_vec(), "info body missing"),
                "players" => {
                    (
                        [&[0xff, 0xff, 0xff, 0xff, 0x44, 1, 0][..], b"ab\0", &[1, 2][..]].concat(),
                        "player entry cut inside the score",
                    )
                }
                _ => (vec![0xff, 0xff, 0xff, 0xff, 0x45], "rules count missing"),
            }
        }
    }
}

pub struct Concrete {
    pub case: Value,
    pub script: ScriptJ,
    pub engine: Value,
    pub gather: GatheringSettings,
    pub retries: usize,
    pub expected_sends: Vec<Vec<u8>>,
    pub expected_ok: Option<Value>,
}

fn pick_ids(rng: &mut StdRng, big: bool) -> (u32, u32, u32) {
    // ids that carry no special meaning in the library (2400 The Ship, 240 CSS, 632360 RoR2)
    let mut pick = |big: bool| {
        loop {
            let x: u32 = if big { rng.gen_range(70_000 .. 0xff_ffff) } else { rng.gen_range(1 .. 65_535) };
            if ![2400, 240, 632_360, 215, 17_550, 17_700].contains(&x) {
                break x;
            }
        }
    };
    let a = pick(big);
    let mut d = pick(big);
    while d == a {
        d = pick(big);
    }
    let mut x = pick(big);
    while x == a || x == d {
        x = pick(big);
    }
    (a, d, x)
}

/// Turn one ValveA2S.tla behaviour into a script + expectations.
pub fn concretise(rng: &mut StdRng, ctx: &Ctx, b: &Value) -> Concrete { concretise_for(rng, ctx, b, None) }

/// Rows of the definitions table whose engine fits the behaviour's expectation class (none / main / main+ded).
pub fn rows_for(expect: &str) -> Vec<(&'static str, Engine)> {
    let mut rows: Vec<(&'static str, Engine)> = gamedig::GAMES
        .entries()
        .filter_map(|(id, g)| {
            match &g.protocol {
                gamedig::protocols::types::Protocol::Valve(e) if *id != "battalion1944" && *id != "css" => Some((*id, *e)),
                _ => None,
            }
        })
        .filter(|(_, e)| {
            match (expect, e) {
                ("none", Engine::Source(None)) | ("none", Engine::GoldSrc(false)) => true,
                ("main", Engine::Source(Some((m, None)))) => ![2400, 240, 632_360].contains(m),
                ("main+ded", Engine::Source(Some((_, Some(_))))) => true,
                _ => false,
            }
        })
        .collect();
    rows.sort_by_key(|(id, _)| *id);
    rows
}

/// `row`: take the engine and the app ids from this row of the definitions table (the behaviour is then also replayed
/// through the definition-driven entry point with the caller's gather toggles as extra request settings).
pub fn concretise_for(rng: &mut StdRng, ctx: &Ctx, b: &Value, row: Option<(&'static str, Engine)>) -> Concrete {
    let cfg = &b["cfg"];
    let big = rng.gen_bool(0.5);
    let (mut a, mut d, mut x) = pick_ids(rng, big);
    if let Some((_, Engine::Source(Some((m, dd))))) = row {
        a = m;
        if let Some(dd) = dd {
            d = dd;
        }
        while x == a || x == d {
            x = x.wrapping_add(1) & 0xffff;
        }
        while d == a || d == x {
            d = d.wrapping_add(1) & 0xffff;
        }
    }
    let expect = cfg["expect"].as_str().unwrap();
    let srv = cfg["srv"].as_str().unwrap();
    let engine = if let Some((_, e)) = row {
        match e {
            Engine::GoldSrc(f) => json!({"t":"goldsrc","force":f}),
            Engine::Source(None) => json!({"t":"source_none"}),
            Engine::Source(Some((m, dd))) => json!({"t":"source","main":m,"ded":dd}),
        }
    } else { match expect {
        "none" => {
            match rng.gen_range(0 .. 4) {
                0 => json!({"t":"goldsrc","force":false}),
                1 => json!({"t":"goldsrc","force":true}),
                _ => json!({"t":"source_none"}),
            }
        }
        "main" => json!({"t":"source","main":a,"ded":null}),
        _ => json!({"t":"source","main":a,"ded":d}),
    } };
    let appid = match srv {
        "main" => a,
        "ded" => d,
        _ => x,
    };
    let mut chal_map: HashMap<u64, [u8; 4]> = HashMap::new();
    let mut on_send: Vec<Vec<Vec<u8>>> = Vec::new();
    let mut expected_sends = Vec::new();
    let mut last_good: HashMap<String, Value> = HashMap::new();
    let mut detail = Vec::new();
    let sent = b["sent"].as_array().unwrap();
    for (i, h) in b["hist"].as_array().unwrap().iter().enumerate() {
        let sec = h["sec"].as_str().unwrap();
        let kind = h["kind"].as_str().unwrap();
        // expected request for this send
        let s = &sent[i];
        let c = s["chal"].as_u64().unwrap();
        let chal_bytes: Option<[u8; 4]> = if c == 0 { None } else { Some(chal_map[&(hash_of(&(sec, c)))]) };
        let req = match (sec, chal_bytes) {
            ("info", None) => [&[0xff, 0xff, 0xff, 0xff, 0x54][..], b"Source Engine Query\0"].concat(),
            ("info", Some(cb)) => [&[0xff, 0xff, 0xff, 0xff, 0x54][..], b"Source Engine Query\0", &cb[..]].concat(),
            ("players", None) => vec![0xff, 0xff, 0xff, 0xff, 0x55, 0xff, 0xff, 0xff, 0xff],
            ("players", Some(cb)) => [&[0xff, 0xff, 0xff, 0xff, 0x55][..], &cb[..]].concat(),
            ("rules", None) => vec![0xff, 0xff, 0xff, 0xff, 0x56, 0xff, 0xff, 0xff, 0xff],
            ("rules", Some(cb)) => [&[0xff, 0xff, 0xff, 0xff, 0x56][..], &cb[..]].concat(),
            _ => unreachable!(),
        };
        expected_sends.push(req);
        // the reaction
        let (payload, exp, info) = build_section(rng, ctx, sec, &engine, appid, None, None);
        let batch: Vec<Vec<u8>> = match kind {
            "good" => {
                last_good.insert(sec.to_string(), exp);
                vec![payload]
            }
            "bad" => {
                let (m, why) = malformed_batch(rng, sec, &payload, goldsrc_split(&engine));
                detail.push(json!({"send": i, "malformed": why}));
                m
            }
            "silent" => vec![],
            "chal" => {
                let cb = strat_challenge(rng, None);
                chal_map.insert(hash_of(&(sec, h["c"].as_u64().unwrap())), cb);
                vec![challenge_packet(cb)]
            }
            "frags" | "fragsshort" => {
                // the size field is absent only for protocol 7 of app 240 and only for players/rules (never here)
                let fr = split(rng, ctx, &payload, 2, goldsrc_split(&engine), true, false);
                if kind == "frags" {
                    last_good.insert(sec.to_string(), exp);
                    fr
                } else {
                    vec![fr[0].clone()]
                }
            }
            k => panic!("reaction {k}"),
        };
        detail.push(json!({"send": i, "layout": info}));
        on_send.push(batch);
    }
    let res = &b["result"];
    let expected_ok = if res["state"] == "ok" {
        let got = &b["got"];
        let sect = |s: &str, key: &str| {
            if got[s] == "present" {
                last_good[s][key].clone()
            } else {
                Value::Null
            }
        };
        Some(json!({"info": last_good["info"]["info"], "players": sect("players","players"), "rules": sect("rules","rules")}))
    } else {
        None
    };
    let gather = GatheringSettings {
        players: toggle(cfg["gp"].as_str().unwrap()),
        rules: toggle(cfg["gr"].as_str().unwrap()),
        check_app_id: cfg["check"].as_bool().unwrap(),
    };
    let script = ScriptJ::udp(on_send);
    Concrete {
        case: json!({"behaviour": b, "engine": engine, "appid": appid, "detail": detail}),
        script,
        engine,
        gather,
        retries: cfg["r"].as_u64().unwrap() as usize,
        expected_sends,
        expected_ok,
    }
}

pub fn run_concrete(c: &Concrete, port: u16) -> CallRecord {
    let engine = engine_of(&c.engine);
    let gather = c.gather;
    let retries = c.retries;
    run_call(&c.script, DEFAULT_MAX_OPS, move || valve::query(&addr(port), engine, Some(gather), timeouts(retries)))
}

/// The per-game representation of a protocol-level Valve response, field by field as RESPONSES.md documents it (re-stated
/// here, not taken from the library's conversion function, which is one of the things under test).
pub fn game_json_of(v: &Value) -> Value {
    let i = &v["info"];
    let ed = &i["extra_data"];
    json!({
        "protocol": i["protocol_version"], "name": i["name"], "map": i["map"], "game": i["game_mode"],
        "appid": i["appid"], "players_online": i["players_online"],
        "players_details": v["players"].as_array().map(|ps| ps.iter().map(|p| json!({"name":p["name"],"score":p["score"],"duration":p["duration"]})).collect::<Vec<_>>()).unwrap_or_default(),
        "players_maximum": i["players_maximum"], "players_bots": i["players_bots"], "server_type": i["server_type"],
        "has_password": i["has_password"], "vac_secured": i["vac_secured"], "version": i["game_version"],
        "port": ed["port"], "steam_id": ed["steam_id"], "tv_port": ed["tv_port"], "tv_name": ed["tv_name"],
        "keywords": ed["keywords"], "rules": if v["rules"].is_null() { json!({}) } else { v["rules"].clone() },
    })
}

/// (the enum wrappers of the generic response are not part of a comparison)
pub fn strip_enum_wrappers(v: &Value) -> &Value {
    let mut cur = v;
    while let Some(m) = cur.as_object().filter(|m| m.len() == 1 && m.keys().next().unwrap().chars().next().map_or(false, |c| c.is_uppercase())) {
        cur = m.values().next().unwrap();
    }
    cur
}

/// The same behaviour through the definition-driven entry point of a table row: the gather toggles and the app-id switch
/// travel as the caller's extra request settings.
pub fn run_concrete_generic(c: &Concrete, id: &str, port: u16) -> CallRecord {
    let game = gamedig::GAMES.get(id).unwrap();
    let extras = gamedig::protocols::types::ExtraRequestSettings::default()
        .set_gather_players(c.gather.players)
        .set_gather_rules(c.gather.rules)
        .set_check_app_id(c.gather.check_app_id);
    let ip: std::net::IpAddr = addr(port).ip();
    let retries = c.retries;
    run_call_json(&c.script, DEFAULT_MAX_OPS, move || {
        match gamedig::query_with_timeout_and_extra_settings(game, &ip, Some(port), timeouts(retries), Some(extras)) {
            Ok(r) => Ok(strip_enum_wrappers(&serde_json::to_value(r.as_original()).unwrap()).clone()),
            Err(e) => Err(format!("{:?}", e.kind)),
        }
    })
}

/// Compare a call record with what the behaviour prescribes. Returns violations as (property, sig, detail).
pub fn judge(b: &Value, c: &Concrete, rec: &CallRecord, port: u16) -> Vec<(&'static str, String, Value)> {
    let mut v = Vec::new();
    let res = &b["result"];
    match &rec.outcome {
        Outcome::Panic { msg } => {
            v.push(("C01", format!("valve::query panic: {}", first_line(msg)), json!({"panic": msg})));
            return v;
        }
        Outcome::Hang => {
            v.push(("C01", "valve::query does not return".to_string(), json!({})));
            return v;
        }
        _ => {}
    }
    // C09: every send is exactly the request the behaviour prescribes, to the caller's address
    let got_sends = sends(rec);
    let want = &c.expected_sends;
    let n = got_sends.len().min(want.len());
    for i in 0 .. n {
        if got_sends[i].1 != want[i] {
            let sec = b["sent"][i]["req"].as_str().unwrap_or("?");
            let what = if b["sent"][i]["chal"].as_u64().unwrap_or(0) != 0 { "challenge request" } else { "request" };
            v.push((
                "C09",
                format!("valve {sec} {what} bytes differ from the protocol's request"),
                json!({"send": i, "want": hex(&want[i]), "got": hex(&got_sends[i].1)}),
            ));
            break;
        }
    }
    if got_sends.len() != want.len() && v.is_empty() {
        // which property? more/fewer initial requests than attempts allowed -> C10; a request for a skipped section -> C11
        let extra: Vec<String> = got_sends[n ..].iter().map(|s| hex(&s.1)).collect();
        let skipped_requested = got_sends.iter().any(|(_, d)| {
            d.len() > 4
                && ((d[4] == 0x55 && b["cfg"]["gp"] == "Skip") || (d[4] == 0x56 && b["cfg"]["gr"] == "Skip"))
        });
        let prop = if skipped_requested { "C11" } else { "C10" };
        v.push((
            prop,
            format!(
                "valve: {} requests sent, the model prescribes {} ({})",
                got_sends.len(),
                want.len(),
                if skipped_requested { "a skipped section was requested" } else { "attempt count / retry rule" }
            ),
            json!({"extra_or_missing": extra, "want": want.iter().map(|w| hex(w)).collect::<Vec<_>>()}),
        ));
    }
    for (k, a) in opens(rec) {
        if a != addr(port) || k != gamedig::verif_hook::Kind::Udp {
            v.push(("C09", "valve: socket opened to a different destination".to_string(), json!({"addr": a.to_string()})));
        }
    }
    // result
    let at = res["at"].as_str().unwrap_or("");
    let prop_for_result: &'static str = if at == "appid" || b["cfg"]["gp"] != "Enforce" || b["cfg"]["gr"] != "Enforce" {
        "C11"
    } else {
        "C10"
    };
    match (res["state"].as_str().unwrap(), &rec.outcome) {
        ("ok", Outcome::Ok(val)) => {
            if let Some(d) = diff("", c.expected_ok.as_ref().unwrap(), val) {
                // section presence is C11's business, field values C02's
                let prop = if d.starts_with(".players: expected null")
                    || d.starts_with(".rules: expected null")
                    || d.contains("observed null")
                {
                    "C11"
                } else {
                    "C02"
                };
                v.push((prop, format!("valve response differs at {}", diff_class(&d)), json!({"diff": d})));
            }
        }
        ("ok", Outcome::Err(k)) => {
            v.push((
                prop_for_result,
                format!("valve: query failed with {k} where the model returns a response"),
                json!({"err": k}),
            ))
        }
        ("err", Outcome::Ok(_)) => {
            v.push((
                prop_for_result,
                format!("valve: query succeeded where the model fails with {} at {}", res["err"].as_str().unwrap(), at),
                json!({}),
            ))
        }
        ("err", Outcome::Err(k)) => {
            let class = res["err"].as_str().unwrap();
            let ok = match class {
                "timeout" => k == "PacketReceive" || k == "PacketSend",
                "badgame" => k == "BadGame",
                _ => k != "PacketReceive" && k != "PacketSend" && k != "BadGame",
            };
            if !ok {
                v.push((
                    if class == "badgame" { "C11" } else { "C10" },
                    format!("valve: error {k} where the model fails with class {class} at {at}"),
                    json!({"err": k}),
                ));
            }
        }
        _ => {}
    }
    v
}

pub fn first_line(s: &str) -> String {
    let l = s.lines().next().unwrap_or("");
    // drop numbers so that signatures group
    let mut out = String::new();
    let mut prev_digit = false;
    for c in l.chars() {
        if c.is_ascii_digit() {
            if !prev_digit {
                out.push('N');
            }
            prev_digit = true;
        } else {
            prev_digit = false;
            out.push(c);
        }
    }
    let tail = s.rsplit(" @ ").next().unwrap_or("");
    format!("{} @ {}", out.chars().take(80).collect::<String>(), tail)
}

/// Replay TLC behaviours of ValveA2S.tla (spec -> implementation).
pub fn replay_behaviours(ctx: &Ctx, lines: &[Value], seed: u64, reps: usize, only: &[&'static str], rep: &mut Report) {
    let mut rng = StdRng::seed_from_u64(seed);
    let port = 27015;
    for b in lines {
        for rep_no in 0 .. reps {
            // every other repetition: a row of the definitions table through the definition-driven entry point
            let rows = rows_for(b["cfg"]["expect"].as_str().unwrap());
            let row = if rep_no % 2 == 1 && !rows.is_empty() { Some(rows[rng.gen_range(0 .. rows.len())]) } else { None };
            let c = concretise_for(&mut rng, ctx, b, row);
            let rec = match row {
                Some((id, _)) => run_concrete_generic(&c, id, port),
                None => run_concrete(&c, port),
            };
            rep.evaluations += 1;
            for (prop, sig, detail) in judge(b, &c, &rec, port) {
                let sig = if let Some((id, _)) = row { format!("{sig} [definition-driven query of {id}]") } else { sig };
                // a request that is not the protocol's would not be answered by a conforming server: the
                // scripted reply that followed it is void, so the property under check is not established either
                let (prop, sig) = if prop == "C09" && !only.is_empty() && !only.contains(&"C09") {
                    (only[0], format!("a conforming server would not have answered: {sig}"))
                } else {
                    (prop, sig)
                };
                if only.is_empty() || only.contains(&prop) {
                    rep.violation(
                        prop,
                        &sig,
                        json!({"kind":"valve-behaviour","case":c.case,"script":c.script,"detail":detail,
                               "outcome":rec.outcome.to_json()}),
                    );
                }
            }
        }
        rep.distinct.insert(hash_of(&b.to_string()));
        rep.sample(&json!({"cfg": b["cfg"], "hist": b["hist"], "result": b["result"]}));
    }
}

// ---- C02: layouts x transports --------------------------------------------------------------------

/// For every section shape and every transport shape: one full query in which that section is
/// delivered through that transport, compared field by field.
pub fn replay_layouts(ctx: &Ctx, seed: u64, reps: usize, rep: &mut Report) {
    let mut rng = StdRng::seed_from_u64(seed);
    let transports: Vec<Value> = ctx.layouts.of("valve", "transport").into_iter().map(|l| l["shape"].clone()).collect();
    let port = 27015u16;
    for lsec in ["info_source", "info_goldsrc", "players", "rules"] {
        let shapes: Vec<Value> = ctx.layouts.of("valve", lsec).into_iter().map(|l| l["shape"].clone()).collect();
        for shape in &shapes {
            for tr in &transports {
                for _ in 0 .. reps {
                    one_layout_case(ctx, &mut rng, lsec, shape, tr, port, rep);
                }
            }
        }
    }
    big_count_cases(ctx, &mut rng, port, rep);
}

/// Counts at and beyond the ends of the narrower integer types a parser might pass them through: 127 / 128 / 255 players (the count
/// is one byte), 32 767 / 32 768 / 40 000 / 65 535 rules (two bytes) - replies of hundreds of kilobytes, sent as compressed
/// and, where 255 fragments can hold them, as plain Source split replies. The specification's domain says 0-255 and 0-65 535.
fn big_count_cases(ctx: &Ctx, rng: &mut StdRng, port: u16, rep: &mut Report) {
    let engine = json!({"t":"source_none"});
    let mut cases: Vec<(&str, usize, bool)> = Vec::new();
    for n in [127usize, 128, 255] {
        cases.push(("players", n, false));
    }
    for n in [32767usize, 32768, 40000, 65535] {
        cases.push(("rules", n, true));
    }
    cases.push(("rules", 32768, false));
    for (sec, n, compressed) in cases {
        let (info, iexp, _) = build_section(rng, ctx, "info", &engine, 440, None, None);
        let mut payload: Vec<u8> = vec![0xff, 0xff, 0xff, 0xff];
        let mut want_players: Vec<Value> = Vec::new();
        let mut want_rules = serde_json::Map::new();
        if sec == "players" {
            payload.extend([0x44, n as u8]);
            for i in 0 .. n {
                let name = format!("p{i}");
                let score = (i as i32) * 1000 - 60000;
                let dur = (i % 300) as f32;
                payload.push(i as u8);
                payload.extend(name.as_bytes());
                payload.push(0);
                payload.extend(score.to_le_bytes());
                payload.extend(dur.to_le_bytes());
                want_players.push(json!({"name": name, "score": score, "duration": dur, "deaths": null, "money": null}));
            }
        } else {
            payload.push(0x45);
            payload.extend((n as u16).to_le_bytes());
            for i in 0 .. n {
                let (k, v) = (format!("k{i:x}"), format!("{}", i % 7));
                payload.extend(k.as_bytes());
                payload.push(0);
                payload.extend(v.as_bytes());
                payload.push(0);
                want_rules.insert(k, json!(v));
            }
        }
        let small = if sec == "players" { vec![0xff, 0xff, 0xff, 0xff, 0x45, 0, 0] } else { vec![0xff, 0xff, 0xff, 0xff, 0x44, 0] };
        let body_len = if compressed { bz2(&payload).len() } else { payload.len() };
        let k = ((body_len + 1199) / 1200).max(2);
        if k > 255 {
            continue;
        }
        let frags = split(rng, ctx, &payload, k, false, true, compressed);
        let batches = if sec == "players" { vec![vec![info], frags, vec![small]] } else { vec![vec![info], vec![small], frags] };
        let script = ScriptJ::udp(batches);
        let gather = GatheringSettings { players: GatherToggle::Enforce, rules: GatherToggle::Enforce, check_app_id: false };
        let rec = run_call(&script, 200_000, move || valve::query(&addr(port), Engine::Source(None), Some(gather), timeouts(0)));
        rep.evaluations += 1;
        rep.distinct.insert(hash_of(&("bigcount", sec, n, compressed)));
        let want = if sec == "players" {
            json!({"info": iexp["info"], "players": want_players, "rules": {}})
        } else {
            json!({"info": iexp["info"], "players": [], "rules": Value::Object(want_rules)})
        };
        let case = json!({"section": sec, "count": n, "compressed": compressed, "fragments": k});
        let viol: Option<String> = match &rec.outcome {
            Outcome::Ok(v) => diff("", &want, v).map(|d| format!("valve {sec} with {n} entries: response differs at {}", diff_class(&d))),
            Outcome::Err(e) => Some(format!("valve {sec} with {n} entries: well-formed reply rejected with {e}")),
            Outcome::Panic { msg } => Some(format!("valve {sec} with {n} entries: panic {}", first_line(msg))),
            Outcome::Hang => Some(format!("valve {sec} with {n} entries: does not return")),
        };
        if let Some(sig) = viol {
            rep.violation("C02", &sig, json!({"kind":"valve-bigcount","case":case,"outcome":rec.outcome.to_json().to_string().chars().take(300).collect::<String>()}));
        }
    }
}

fn one_layout_case(ctx: &Ctx, rng: &mut StdRng, lsec: &str, shape: &Value, tr: &Value, port: u16, rep: &mut Report) {
    let mode = tr["mode"].as_str().unwrap();
    let k = tr["k"].as_u64().unwrap() as usize;
    let rounds = tr["rounds"].as_u64().unwrap() as usize;
    // engine compatible with the shape and the transport
    let ship = shape["ship"] == true;
    let big = shape["edf"].as_array().map_or(false, |e| e.iter().any(|f| f == "gameid")) && rng.gen_bool(0.5);
    let (a, _d, _x) = pick_ids(rng, big);
    // a row of the definitions table: the same reply is then also queried through the definition-driven entry point
    // ("the per-game response derived from it carries the same values": the game's engine / app ids come from the table)
    let row: Option<(&'static str, Engine)> = if !ship && lsec != "info_goldsrc" && rng.gen_bool(0.3) {
        let mut rows: Vec<(&'static str, Engine)> = gamedig::GAMES
            .entries()
            .filter_map(|(id, g)| {
                match &g.protocol {
                    gamedig::protocols::types::Protocol::Valve(e) if *id != "battalion1944" => Some((*id, *e)),
                    _ => None,
                }
            })
            .filter(|(_, e)| matches!(e, Engine::GoldSrc(false)) == (mode == "goldsrc") && !matches!(e, Engine::GoldSrc(true)))
            // ids above 16 bits can only be reported through the 64-bit game id: such rows need an info shape that carries it
            .filter(|(_, e)| {
                let has_gameid = shape["edf"].as_array().map_or(false, |e| e.iter().any(|f| f == "gameid"));
                match e {
                    Engine::Source(Some((m, d))) => lsec != "info_source" || has_gameid || (*m < 65536 && d.map_or(true, |d| d < 65536)),
                    _ => true,
                }
            })
            .collect();
        rows.sort_by_key(|(id, _)| *id);
        // Counter-Strike: Source (app 240) has a framing rule of its own (protocol 7): drawn more often than 1 in 80
        if mode != "goldsrc" && rng.gen_bool(0.3) { rows.iter().find(|(id, _)| *id == "css").copied() } else { rows.choose(rng).copied() }
    } else {
        None
    };
    let css = match row {
        Some((id, _)) => id == "css",
        None => !ship && lsec != "info_goldsrc" && mode != "goldsrc" && rng.gen_bool(0.15),
    };
    let row_ids: Option<(u32, Option<u32>)> = match row {
        Some((_, Engine::Source(Some((m, d))))) => Some((m, d)),
        _ => None,
    };
    let engine = if let Some((id, e)) = row {
        match e {
            Engine::GoldSrc(f) => json!({"t":"goldsrc","force":f}),
            Engine::Source(None) => json!({"t":"source_none"}),
            // (css: the protocol-level call uses the engine the protocol documents for app 240, whatever the table says)
            Engine::Source(Some((m, d))) => if id == "css" { json!({"t":"source","main":240,"ded":null}) } else { json!({"t":"source","main":m,"ded":d}) },
        }
    } else if lsec == "info_goldsrc" {
        json!({"t":"goldsrc","force":true})
    } else if mode == "goldsrc" {
        if ship {
            return; // The Ship is a Source game: its replies never use GoldSrc framing
        }
        json!({"t":"goldsrc","force":false})
    } else if ship {
        json!({"t":"source","main":2400,"ded":null})
    } else if css {
        json!({"t":"source","main":240,"ded":null})
    } else if rng.gen_bool(0.3) {
        json!({"t":"source_none"})
    } else {
        json!({"t":"source","main":a,"ded":null})
    };
    if (mode == "source" || mode == "bz2") && goldsrc_split(&engine) {
        return; // a GoldSrc server does not use Source framing
    }
    let appid = match row_ids {
        Some((m, d)) if !css => if rng.gen_bool(0.3) { d.unwrap_or(m) } else { m },
        _ => if ship { 2400 } else if css { 240 } else { a },
    };
    let target = match lsec {
        "info_source" | "info_goldsrc" => "info",
        s => s,
    };
    let proto7 = css && rng.gen_bool(0.5);
    let other_protocol: u8 = *[0u8, 6, 8, 17, 48, 255].choose(rng).unwrap();
    let mut on_send: Vec<Vec<Vec<u8>>> = Vec::new();
    let mut expected = json!({});
    let mut uncertain = Value::Null;
    let mut desc = Vec::new();
    for sec in ["info", "players", "rules"] {
        let filt = |s: &Value| s == shape;
        let use_shape = sec == target;
        let (payload, exp, info) = build_section(
            rng,
            ctx,
            sec,
            &engine,
            appid,
            if use_shape { Some(&filt) } else { None },
            // app 240: protocol 7 decides the split-header form of the later sections, so it is never 7 by accident
            if sec == "info" && proto7 { Some(7) } else if sec == "info" && css { Some(other_protocol) } else { None },
        );
        if use_shape {
            uncertain = info["uncertain"].clone();
        }
        expected[sec] = exp[sec].clone();
        // challenge rounds then the reply through the transport (only the target section uses the transport)
        let (m, kk, r) = if use_shape { (mode, k, rounds) } else { ("single", 1, 0) };
        for _ in 0 .. r {
            on_send.push(vec![challenge_packet(strat_challenge(rng, None))]);
        }
        // the split header has no size field for protocol 7 of app 240 (players / rules requests only: the
        // protocol number is known after info)
        let sized = !(proto7 && sec != "info");
        // a conforming server keeps every datagram within an MTU-sized packet: a reply that does not fit in one is split,
        // and into as many fragments as it takes
        let need = (payload.len() + 1199) / 1200;
        let (m, kk) = if need > 1 {
            let m2 = if m == "single" { if goldsrc_split(&engine) { "goldsrc" } else { "source" } } else { m };
            (m2, kk.max(need))
        } else {
            (m, kk)
        };
        if m == "goldsrc" && kk > 15 {
            return; // the GoldSrc header counts at most 15 fragments
        }
        let batch = match m {
            "single" => vec![payload.clone()],
            "source" => split(rng, ctx, &payload, kk, false, sized, false),
            "goldsrc" => split(rng, ctx, &payload, kk, true, true, false),
            "bz2" => split(rng, ctx, &payload, kk, false, sized, true),
            _ => unreachable!(),
        };
        desc.push(json!({"sec": sec, "layout": info, "transport": if use_shape { tr.clone() } else { json!("single") }, "sized": sized}));
        on_send.push(batch);
    }
    let script = ScriptJ::udp(on_send);
    let gather = GatheringSettings {
        players: GatherToggle::Enforce,
        rules: GatherToggle::Enforce,
        check_app_id: true,
    };
    let eng = engine_of(&engine);
    let rec = run_call(&script, DEFAULT_MAX_OPS, move || valve::query(&addr(port), eng, Some(gather), timeouts(0)));
    rep.evaluations += 1;
    rep.distinct.insert(hash_of(&(lsec, shape.to_string(), tr.to_string())));
    let case = json!({"section": lsec, "shape": shape, "transport": tr, "engine": engine, "appid": appid, "parts": desc});
    rep.sample(&case);
    let viol: Option<(String, Value)> = match &rec.outcome {
        Outcome::Ok(v) => {
            diff("", &json!({"info": expected["info"], "players": expected["players"], "rules": expected["rules"]}), v)
                .map(|d| (format!("valve {lsec} via {mode}: response differs at {}", diff_class(&d)), json!({"diff": d})))
        }
        Outcome::Err(k) => Some((format!("valve {lsec} via {mode}: well-formed reply rejected with {k}"), json!({"err": k}))),
        Outcome::Panic { msg } => Some((format!("valve {lsec} via {mode}: panic {}", first_line(msg)), json!({"panic": msg}))),
        Outcome::Hang => Some((format!("valve {lsec} via {mode}: does not return"), json!({}))),
    };
    if let Some((sig, detail)) = viol {
        let replay = json!({"kind":"valve-layout","case":case,"script":script,"detail":detail,"outcome":rec.outcome.to_json()});
        if let Some(u) = uncertain.as_str().filter(|u| !u.is_empty()) {
            if ctx.drift.iter().any(|d| d == u) {
                rep.drift(json!({"drift": u, "sig": sig, "replay": replay}));
                return;
            }
        }
        rep.violation("C02", &sig, replay);
    }
    // the same server through the definition-driven entry point of the table row
    if let Some((id, _)) = row {
        let game = gamedig::GAMES.get(id).unwrap();
        let extras = gamedig::protocols::types::ExtraRequestSettings::default()
            .set_gather_players(GatherToggle::Enforce)
            .set_gather_rules(GatherToggle::Enforce)
            .set_check_app_id(true);
        let ip: std::net::IpAddr = addr(port).ip();
        let grec = run_call_json(&script, DEFAULT_MAX_OPS, || {
            match gamedig::query_with_timeout_and_extra_settings(game, &ip, Some(port), timeouts(0), Some(extras)) {
                Ok(r) => Ok(serde_json::to_value(r.as_original()).unwrap()),
                Err(e) => Err(format!("{:?}", e.kind)),
            }
        });
        rep.evaluations += 1;
        let want = json!({"info": expected["info"], "players": expected["players"], "rules": expected["rules"]});
        let gviol: Option<(String, Value)> = match &grec.outcome {
            Outcome::Ok(v) => {
                // (the enum wrappers of the generic response are not part of the comparison)
                let mut cur = v;
                while let Some(m) = cur.as_object().filter(|m| m.len() == 1 && m.keys().next().unwrap().chars().next().map_or(false, |c| c.is_uppercase())) {
                    cur = m.values().next().unwrap();
                }
                diff("", &want, cur).map(|d| (format!("valve {lsec} via {mode}: the definition-driven query of a table row differs at {}", diff_class(&d)), json!({"diff": d})))
            }
            Outcome::Err(k) => Some((format!("valve {lsec} via {mode}: the definition-driven query of a table row rejects a well-formed reply with {k}"), json!({"err": k}))),
            Outcome::Panic { msg } => Some((format!("valve {lsec} via {mode}: generic path panic {}", first_line(msg)), json!({"panic": msg}))),
            Outcome::Hang => Some((format!("valve {lsec} via {mode}: generic path does not return"), json!({}))),
        };
        if let Some((sig, detail)) = gviol {
            let drifting = uncertain.as_str().filter(|u| !u.is_empty()).map_or(false, |u| ctx.drift.iter().any(|d| d == u));
            if !drifting {
                rep.violation("C02", &sig, json!({"kind":"valve-layout","case":case,"row":id,"script":script,"detail":detail,"outcome":grec.outcome.to_json()}));
            }
        }
    }
    // per-game conversion carries the same values
    if let Outcome::Ok(v) = &rec.outcome {
        if let Ok(resp) = serde_json::from_value::<valve::Response>(v.clone()) {
            let g = valve::game::Response::new_from_valve_response(resp.clone());
            let gj = serde_json::to_value(&g).unwrap();
            let want = game_json_of(v);
            if let Some(d) = diff("", &want, &gj) {
                rep.violation(
                    "C02",
                    &format!("valve game::Response differs from the protocol response at {}", diff_class(&d)),
                    json!({"kind":"valve-layout","case":case,"script":script,"detail":{"diff":d}}),
                );
            }
        }
    }
}


// ---- implementation -> spec: random exchanges recorded for Trace_ValveA2S.tla -----------------------------

/// Random configurations and random server reactions (more retries / rounds than the exhaustive configs, junk).
pub fn trace_random(ctx: &Ctx, seed: u64, runs: usize, dump: Option<usize>, out: &mut Vec<Value>, rep: &mut Report) {
    use gamedig::verif_hook as hook;
    let mut rng = StdRng::seed_from_u64(seed);
    let toggles = ["Skip", "Try", "Enforce"];
    for ix in 0 .. runs {
        let r = [0u64, 0, 1, 1, 2, 3, 5][rng.gen_range(0 .. 7)];
        let expect = ["none", "main", "main+ded"][rng.gen_range(0 .. 3)];
        let srv = ["main", "ded", "other"][rng.gen_range(0 .. 3)];
        let cfg = json!({"r": r, "gp": toggles[rng.gen_range(0 .. 3)], "gr": toggles[rng.gen_range(0 .. 3)],
                         "check": rng.gen_bool(0.5), "expect": expect, "srv": srv});
        let far = rng.gen_bool(0.5);
        let (a, d, x) = pick_ids(&mut rng, far);
        let engine = match expect {
            "none" => if rng.gen_bool(0.5) { json!({"t":"source_none"}) } else { json!({"t":"goldsrc","force":false}) },
            "main" => json!({"t":"source","main":a,"ded":null}),
            _ => json!({"t":"source","main":a,"ded":d}),
        };
        let appid = match srv { "main" => a, "ded" => d, _ => x };
        // a reaction per potential send; the client decides how many it uses
        let mut reactions: Vec<&str> = Vec::new();
        let mut rounds = 0;
        for _ in 0 .. 60 {
            let k = match rng.gen_range(0 .. 100) {
                0 ..= 44 => "good",
                45 ..= 62 => "silent",
                63 ..= 69 => "bad",
                70 ..= 84 => "chal",
                85 ..= 90 => "frags",
                91 ..= 95 => "fragsshort",
                _ => "junk",
            };
            // a server that answers every request with a new challenge for ever is a different story (bounded here)
            let k = if k == "chal" && rounds >= 4 { "good" } else { k };
            rounds = if k == "chal" { rounds + 1 } else { 0 };
            reactions.push(k);
        }
        // the section each send will be for is only known while the client runs: build replies for all three sections per slot
        // lazily is not possible with a static script, so the script is built by simulating the specification's control flow
        let sim = simulate(&cfg, &reactions);
        let mut on_send = Vec::new();
        let mut chal_bytes: Vec<Option<[u8; 4]>> = Vec::new();
        for (i, sec) in sim.iter().enumerate() {
            let (payload, _, _) = build_section(&mut rng, ctx, sec, &engine, appid, None, None);
            let mut cb = None;
            on_send.push(match reactions[i] {
                "good" => vec![payload],
                // (one datagram: the trace projection explains every consumed datagram by one reaction)
                "bad" => vec![malformed(&mut rng, sec, &payload).0],
                "silent" => vec![],
                "chal" => {
                    let c = strat_challenge(&mut rng, None);
                    cb = Some(c);
                    vec![challenge_packet(c)]
                }
                "frags" => split(&mut rng, ctx, &payload, 2, goldsrc_split(&engine), true, false),
                "fragsshort" => vec![split(&mut rng, ctx, &payload, 2, goldsrc_split(&engine), true, false).remove(0)],
                _ => {
                    // junk: a plausible header and kind, random body
                    let mut j = payload[.. 5].to_vec();
                    j.extend((0 .. rng.gen_range(0 ..= 40)).map(|_| rng.gen::<u8>()));
                    vec![j]
                }
            });
            chal_bytes.push(cb);
        }
        let script = ScriptJ::udp(on_send);
        let eng = engine_of(&engine);
        let gather = GatheringSettings {
            players: toggle(cfg["gp"].as_str().unwrap()),
            rules: toggle(cfg["gr"].as_str().unwrap()),
            check_app_id: cfg["check"].as_bool().unwrap(),
        };
        let rec = run_call(&script, DEFAULT_MAX_OPS, move || valve::query(&addr(27015), eng, Some(gather), timeouts(r as usize)));
        rep.evaluations += 1;
        rep.distinct.insert(hash_of(&(cfg.to_string(), reactions.iter().take(12).collect::<Vec<_>>())));
        let start = out.len();
        out.push(json!({"ev":"Call","ix":ix,"cfg":cfg}));
        if dump == Some(ix) {
            rep.extra.insert("dumped_run".into(), json!({"kind":"valve-trace","cfg":cfg,"engine":engine,"appid":appid,"script":script,
                                                         "reactions":reactions.iter().take(sim.len().min(24)).collect::<Vec<_>>()}));
        }
        // project the recorded socket events onto the specification's alphabet
        let mut send_no = 0usize;
        let mut pending: Vec<bool> = Vec::new(); // recv outcomes since the last send: true = data
        let mut last_react = "";
        let flush = |pending: &mut Vec<bool>, react: &str, out: &mut Vec<Value>| {
            let pat: Vec<bool> = pending.drain(..).collect();
            if pat.is_empty() {
                return;
            }
            let ev = match (react, pat.as_slice()) {
                ("good", [true]) => json!({"ev":"Recv","out":"single","good":"yes"}),
                ("bad", [true]) => json!({"ev":"Recv","out":"single","good":"no"}),
                ("junk", [true]) => json!({"ev":"Recv","out":"single","good":"unknown"}),
                ("chal", [true]) => json!({"ev":"Recv","out":"chal","good":"yes"}),
                ("silent", [false]) => json!({"ev":"Recv","out":"timeout","good":"yes"}),
                ("frags", [true, true]) => json!({"ev":"Recv","out":"frags","good":"yes"}),
                ("fragsshort", [true, false]) => json!({"ev":"Recv","out":"fragsshort","good":"yes"}),
                // anything else (a fragment left unread, a read after the reply was complete, ...) is no step of the model
                (_, p) => json!({"ev":"RecvUnexplained","react":react,"pattern":p}),
            };
            out.push(ev);
        };
        for e in &rec.events {
            match e {
                hook::Event::Send { data, .. } => {
                    flush(&mut pending, last_react, out);
                    let req = match data.get(4) { Some(0x54) => "info", Some(0x55) => "players", Some(0x56) => "rules", _ => "unknown" };
                    // which challenge does it carry? the index of the challenge round of this attempt, 99 if it is none of them
                    let carried: Option<&[u8]> = match req {
                        "info" => if data.len() > 25 { Some(&data[25 ..]) } else { None },
                        _ => if data.len() >= 9 && data[5 .. 9] != [0xff, 0xff, 0xff, 0xff] { Some(&data[5 .. 9]) } else { None },
                    };
                    // a challenge whose bytes are ff ff ff ff is echoed as such (indistinguishable from "none" on the wire)
                    let carried = match (carried, req) {
                        (None, "players" | "rules") if send_no > 0 && chal_bytes[send_no - 1] == Some([0xff; 4]) => Some(&data[5 .. 9]),
                        (c, _) => c,
                    };
                    let chal = match carried {
                        None => 0,
                        Some(c) => {
                            // rounds of this attempt = consecutive "chal" reactions immediately before this send
                            let mut idx = 0u64;
                            let mut k = send_no;
                            let mut rounds = 0u64;
                            while k > 0 && reactions[k - 1] == "chal" {
                                rounds += 1;
                                k -= 1;
                            }
                            if rounds > 0 && chal_bytes[send_no - 1].map_or(false, |b| b[..] == *c) {
                                idx = rounds;
                            }
                            if idx == 0 { 99 } else { idx }
                        }
                    };
                    last_react = reactions.get(send_no).copied().unwrap_or("silent");
                    out.push(json!({"ev":"Send","req":req,"chal":chal,"react":last_react}));
                    send_no += 1;
                }
                hook::Event::Recv { out: o, .. } => pending.push(matches!(o, hook::RecvOut::Data(_))),
                hook::Event::Open { .. } => {}
            }
        }
        flush(&mut pending, last_react, out);
        match &rec.outcome {
            Outcome::Ok(v) => out.push(json!({"ev":"Return","state":"ok","class":"","players":!v["players"].is_null(),"rules":!v["rules"].is_null()})),
            Outcome::Err(k) => {
                let class = match k.as_str() { "PacketReceive" | "PacketSend" => "timeout", "BadGame" => "badgame", _ => "malformed" };
                out.push(json!({"ev":"Return","state":"err","class":class,"players":false,"rules":false}));
            }
            Outcome::Panic { msg } => {
                rep.violation("C01", &format!("valve::query panic: {}", first_line(msg)), json!({"kind":"valve-trace","cfg":cfg,"script":script,"engine":engine}));
                out.truncate(start);
            }
            Outcome::Hang => {
                rep.violation("C01", "valve::query does not return", json!({"kind":"valve-trace","cfg":cfg,"script":script,"engine":engine}));
                out.truncate(start);
            }
        }
    }
}

/// Which section each successive send is for, following the control flow of ValveA2S.tla for the given reactions
/// (so that the scripted reply to the i-th send is a reply to the request the client will actually make).
fn simulate(cfg: &Value, reactions: &[&str]) -> Vec<&'static str> {
    let r = cfg["r"].as_u64().unwrap();
    let foreign = match (cfg["expect"].as_str().unwrap(), cfg["srv"].as_str().unwrap()) {
        ("main", s) => s != "main",
        ("main+ded", s) => s == "other",
        _ => false,
    };
    let mut secs = Vec::new();
    let mut i = 0usize;
    let order = ["info", "players", "rules"];
    'sections: for sec in order {
        let tog = match sec { "info" => "Enforce", "players" => cfg["gp"].as_str().unwrap(), _ => cfg["gr"].as_str().unwrap() };
        if sec == "players" && cfg["check"] == true && foreign {
            break;
        }
        if tog == "Skip" {
            continue;
        }
        let mut attempt = 1;
        loop {
            // one attempt: initial send, then challenge rounds
            loop {
                if i >= reactions.len() {
                    break 'sections;
                }
                secs.push(sec);
                let k = reactions[i];
                i += 1;
                match k {
                    "chal" => continue,
                    "good" | "frags" => continue 'sections,
                    "junk" => {
                        // validity unknown (random bytes can happen to parse): if the client takes it as malformed under
                        // Enforce it stops and the remaining slots are never used; in every other case it goes on with the
                        // next section - so the remaining slots are scripted for that continuation
                        continue 'sections;
                    }
                    "bad" => {
                        if tog == "Enforce" { break 'sections } else { continue 'sections }
                    }
                    _ => break, // silent / fragsshort: timeout
                }
            }
            if attempt <= r {
                attempt += 1;
            } else if tog == "Enforce" {
                break 'sections;
            } else {
                continue 'sections;
            }
        }
    }
    // pad: if the client sends more than the model expects, the next few requests get info-shaped replies (then silence)
    for _ in 0 .. 3 {
        if secs.len() < reactions.len() {
            secs.push("info");
        }
    }
    secs
}
