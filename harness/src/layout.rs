//! Generic interpreter of the layout tables exported by the TLA+ layout specifications
//! (spec/LayoutLib.tla): draws field values from each wire type's domain, encodes the reply with
//! primitive codecs and computes the expected response through the table's `expect` entries.
//! No protocol knowledge lives here.
use crate::util::*;
use rand::prelude::*;
use serde_json::{json, Map, Value};
use std::collections::{HashMap, HashSet};

/// Item-level mutation plan (C01/C13): while `count_only`, encode() records the class of every item it meets
/// (across all calls of one build); with a target it replaces that item's bytes as the descriptor says.
#[derive(Debug, Clone, Default)]
pub struct MutPlan {
    pub target: Option<(usize, usize)>, // (global item index, byte index inside a literal)
    pub desc: Value,
    pub next: usize,
    pub seen: Vec<(String, String, usize)>, // (kind, type, literal length)
    pub applied: bool,
    /// amplification (Hostile.tla `amplify`): the item `count` (byte `sub` of a literal) is set to its largest value, the item
    /// `repeat` is emitted over and over until the datagram holds `fill` bytes, and nothing follows
    pub amp: Option<Amp>,
}

#[derive(Debug, Clone, Copy)]
pub struct Amp {
    pub count: usize,
    pub sub: usize,
    pub repeat: usize,
    pub fill: usize,
}

thread_local! {
    pub static MUT: std::cell::RefCell<Option<MutPlan>> = const { std::cell::RefCell::new(None) };
}

fn width_of(ty: &str) -> usize {
    match ty {
        "u8" | "i8" => 1,
        "u16le" | "u16be" => 2,
        "u64le" => 8,
        _ => 4,
    }
}

/// Mutation bookkeeping for an item that is encoded outside `encode` (the split-packet framing): records its class while
/// counting, and replaces its bytes when it is the target of the plan.
pub fn visit_item(rng: &mut StdRng, it: &Value, normal: Vec<u8>) -> Vec<u8> {
    let target = MUT.with(|m| {
        let mut m = m.borrow_mut();
        match m.as_mut() {
            None => None,
            Some(p) => {
                let gi = p.next;
                p.next += 1;
                p.seen.push((it["k"].as_str().unwrap_or("").to_string(), it["ty"].as_str().unwrap_or("").to_string(), normal.len()));
                match p.target {
                    Some((ti, sub)) if ti == gi => Some((p.desc.clone(), sub)),
                    _ => None,
                }
            }
        }
    });
    if let Some((desc, sub)) = target {
        if let Some(m) = mutate_item(rng, it, &desc, sub, &normal) {
            MUT.with(|p| p.borrow_mut().as_mut().unwrap().applied = true);
            return m;
        }
    }
    normal
}

/// Hostile.tla wrap8 / wrap16 / wrap32: the original value plus a multiple of the type's modulus (ten times 2^16 keeps a
/// per-entry pre-allocation of tens of bytes between the two allowances instead of aborting the process)
fn wrapped(orig: u64, kind: &str) -> String {
    match kind {
        "wrap8" => (orig + 256 * 4000).to_string(),
        "wrap16" => (orig + 65536 * 10).to_string(),
        _ => (orig as u128 + (1u128 << 32)).to_string(),
    }
}

/// bytes of a mutated item, None = the descriptor does not change this item's encoding
fn mutate_item(rng: &mut StdRng, it: &Value, desc: &Value, sub: usize, normal: &[u8]) -> Option<Vec<u8>> {
    let op = desc["op"].as_str()?;
    let ty = it["ty"].as_str().unwrap_or("");
    match op {
        "set_num" if ty == "varint" => {
            // a Minecraft VarInt length prefix at the ends of its range (declared length >> data, negative, zero)
            let v: i32 = match desc["b"].as_str()? {
                "zero" => 0,
                "one" => 1,
                "max" => -1,
                "maxminus1" => i32::MAX - 1,
                "signbit" => i32::MIN,
                _ => i32::MAX,
            };
            let mut out = Vec::new();
            let mut u = v as u32;
            loop {
                let b = (u & 0x7f) as u8;
                u >>= 7;
                if u == 0 {
                    out.push(b);
                    break;
                }
                out.push(b | 0x80);
            }
            Some(out)
        }
        "set_num" => {
            let w = width_of(ty);
            let be = ty.ends_with("be");
            // most significant byte first, then flipped for little endian
            let mut v: Vec<u8> = match desc["b"].as_str()? {
                "zero" => vec![0; w],
                "one" => { let mut x = vec![0; w]; x[w - 1] = 1; x }
                "max" => vec![0xff; w],
                "maxminus1" => { let mut x = vec![0xff; w]; x[w - 1] = 0xfe; x }
                "signbit" => { let mut x = vec![0; w]; x[0] = 0x80; x }
                _ => { let mut x = vec![0xff; w]; x[0] = 0x7f; x }
            };
            if !be {
                v.reverse();
            }
            Some(v)
        }
        "set_textnum" if desc["b"].as_str()?.starts_with("wrap") => {
            let orig: u64 = std::str::from_utf8(normal).ok()?.trim().parse().ok()?;
            Some(wrapped(orig, desc["b"].as_str()?).into_bytes())
        }
        "set_textnum" => Some(
            match desc["b"].as_str()? {
                "empty" => "",
                "minus1" => "-1",
                "huge" => "99999999999999999999",
                "letters" => "abc",
                "plus" => "+5",
                "space" => " 5",
                _ => "0",
            }
            .as_bytes()
            .to_vec(),
        ),
        "set_lit_byte" => {
            let mut v = normal.to_vec();
            if sub < v.len() {
                v[sub] = desc["v"].as_u64()? as u8;
            }
            Some(v)
        }
        "set_txt_index" => {
            // the last run of decimal digits of a literal text (the index of `\\player_7\\`) is replaced
            if it["k"] != "txt" {
                return None;
            }
            let end = normal.iter().rposition(|b| b.is_ascii_digit())?;
            let mut start = end;
            while start > 0 && normal[start - 1].is_ascii_digit() {
                start -= 1;
            }
            let v = desc["v"].as_str()?;
            let text = if v.starts_with("wrap") {
                let orig: u64 = std::str::from_utf8(&normal[start ..= end]).ok()?.parse().ok()?;
                wrapped(orig, v)
            } else {
                v.to_string()
            };
            Some([&normal[.. start], text.as_bytes(), &normal[end + 1 ..]].concat())
        }
        "drop_terminator" => {
            match ty {
                "cstr" => Some(normal[.. normal.len() - 1].to_vec()),
                "ustr" => {
                    // keep the length byte, drop the final NUL / 0000 unit
                    let cut = if normal[0] >= 0x80 { 2 } else { 1 };
                    Some(normal[.. normal.len().saturating_sub(cut).max(1)].to_vec())
                }
                _ => None,
            }
        }
        "invalid_text" => {
            let bad: &[u8] = &[0xff, 0xfe, 0xc0];
            match ty {
                "cstr" => Some([&normal[.. normal.len() - 1], bad, &[0]].concat()),
                "lp8" => {
                    let mut body = normal[1 ..].to_vec();
                    body.extend(bad);
                    body.truncate(255);
                    Some([vec![body.len() as u8], body].concat())
                }
                "ustr" => {
                    if normal[0] >= 0x80 && normal.len() >= 3 {
                        // an unpaired surrogate in place of the first unit
                        let mut v = normal.to_vec();
                        v[1] = 0x00;
                        v[2] = 0xd8;
                        Some(v)
                    } else {
                        None
                    }
                }
                _ => Some([normal, bad].concat()),
            }
        }
        "long_string" => {
            match ty {
                "cstr" => Some([vec![b'A'; 3000], vec![0]].concat()),
                "lp8" => Some([vec![255u8], vec![b'A'; 255]].concat()),
                "ustr" => Some([vec![127u8], vec![b'A'; 126], vec![0]].concat()),
                "oneoftext" => None,
                _ => Some(vec![b'A'; 3000]),
            }
        }
        "empty_string" => {
            match ty {
                "cstr" => Some(vec![0]),
                "lp8" => Some(vec![0]),
                "ustr" => Some(vec![0]),
                _ => Some(vec![]),
            }
        }
        "set_length_prefix" => {
            let mut v = normal.to_vec();
            if !v.is_empty() {
                v[0] = desc["v"].as_u64()? as u8;
            }
            Some(v)
        }
        _ => {
            let _ = rng;
            None
        }
    }
}

#[derive(Debug, Clone)]
pub struct Encoded {
    pub bytes: Vec<u8>,
    pub values: HashMap<String, Value>,
    /// byte offset at which each item starts (for boundary sweeps and mutations)
    pub offsets: Vec<usize>,
}

fn excl_of(item: &Value) -> Vec<char> { item["excl"].as_str().map(|s| s.chars().collect()).unwrap_or_default() }

/// Draw a value for wire type `ty` and return (json value, wire bytes).
pub fn draw(rng: &mut StdRng, item: &Value, uniq: &mut HashMap<String, HashSet<String>>) -> (Value, Vec<u8>) {
    let ty = item["ty"].as_str().expect("item type");
    let excl = excl_of(item);
    match ty {
        "u8" => {
            let v = boundary_u64(rng, u8::MAX as u64) as u8;
            (json!(v), vec![v])
        }
        "i8" => {
            let v = boundary_u64(rng, u8::MAX as u64) as u8 as i8;
            (json!(v), vec![v as u8])
        }
        "u16le" => {
            let v = boundary_u64(rng, u16::MAX as u64) as u16;
            (json!(v), v.to_le_bytes().to_vec())
        }
        "u16be" => {
            let v = boundary_u64(rng, u16::MAX as u64) as u16;
            (json!(v), v.to_be_bytes().to_vec())
        }
        "u32le" => {
            let v = boundary_u64(rng, u32::MAX as u64) as u32;
            (json!(v), v.to_le_bytes().to_vec())
        }
        "u32be" => {
            let v = boundary_u64(rng, u32::MAX as u64) as u32;
            (json!(v), v.to_be_bytes().to_vec())
        }
        "i32le" => {
            let v = boundary_u64(rng, u32::MAX as u64) as u32 as i32;
            (json!(v), v.to_le_bytes().to_vec())
        }
        "i32be" => {
            let v = boundary_u64(rng, u32::MAX as u64) as u32 as i32;
            (json!(v), v.to_be_bytes().to_vec())
        }
        "u64le" => {
            let mut v = boundary_u64(rng, u64::MAX);
            if CAP_U63.with(|c| c.get()) {
                v &= i64::MAX as u64;
            }
            (json!(v), v.to_le_bytes().to_vec())
        }
        "f32le" => {
            // any finite float (NaN is not equal to itself in the response comparison)
            let v: f32 = match rng.gen_range(0 .. 6) {
                0 => 0.0,
                1 => -1.5,
                2 => f32::MAX,
                3 => f32::MIN_POSITIVE,
                _ => f32::from_bits(rng.gen::<u32>()),
            };
            let v = if v.is_finite() { v } else { 12345.678 };
            (serde_json::to_value(v).unwrap(), v.to_le_bytes().to_vec())
        }
        "oneof" => {
            let opts = item["opts"].as_array().expect("oneof opts");
            let b = opts[rng.gen_range(0 .. opts.len())].as_u64().unwrap() as u8;
            (json!(b), vec![b])
        }
        // NUL-terminated UTF-8
        "cstr" => {
            let s = draw_text(rng, item, uniq, &excl, 0, 40);
            let mut b = s.as_bytes().to_vec();
            b.push(0);
            (json!(s), b)
        }
        // u8 length + UTF-8 (at most 255 bytes)
        "lp8" => {
            let mut s = draw_text(rng, item, uniq, &excl, 0, 40);
            while s.len() > 255 {
                s.pop();
            }
            let mut b = vec![s.len() as u8];
            b.extend(s.as_bytes());
            (json!(s), b)
        }
        // bare text (delimited by the surrounding literals); `excl` lists the characters it must avoid
        "text" if item["len"].as_u64().unwrap_or(0) > 0 => {
            // a value of exactly this many characters (a status reply is one datagram whatever its size)
            let n = item["len"].as_u64().unwrap() as usize;
            let s: String = (0 .. n).map(|i| (b'a' + ((i * 7 + n) % 26) as u8) as char).collect();
            (json!(s), s.into_bytes())
        }
        "text" => {
            let min = item["min"].as_u64().unwrap_or(0) as usize;
            let mut excl = excl.clone();
            if let Some(cps) = item["exclcp"].as_array() {
                excl.extend(cps.iter().filter_map(|c| char::from_u32(c.as_u64().unwrap() as u32)));
            }
            let mut s = draw_text(rng, item, uniq, &excl, min, 24);
            if let Some(need) = item["need"].as_str().filter(|n| !n.is_empty()) {
                // the sub-case wants this character inside the text (not at its ends)
                let mid: Vec<char> = s.chars().collect();
                let at = mid.len() / 2;
                s = mid[.. at].iter().collect::<String>() + "a" + need + "b" + &mid[at ..].iter().collect::<String>();
            }
            (json!(s), s.as_bytes().to_vec())
        }
        // ASCII-only bare text
        "atext" => {
            let min = item["min"].as_u64().unwrap_or(0) as usize;
            let max = item["max"].as_u64().unwrap_or(16) as usize;
            let s = loop {
                let n = rng.gen_range(min ..= max);
                let s: String = (0 .. n)
                    .map(|_| {
                        loop {
                            let c = rng.gen_range(0x21u8 ..= 0x7e) as char;
                            if !excl.contains(&c) {
                                break c;
                            }
                        }
                    })
                    .collect();
                if check_uniq(item, uniq, &s) {
                    break s;
                }
            };
            (json!(s), s.as_bytes().to_vec())
        }
        // decimal text of an integer in the named range
        "dec_u8" | "dec_u16" | "dec_u32" | "dec_i32" | "dec_u31" => {
            let (v, txt): (Value, String) = match ty {
                "dec_u8" => {
                    let v = boundary_u64(rng, 255);
                    (json!(v), v.to_string())
                }
                "dec_u16" => {
                    let v = boundary_u64(rng, 65535);
                    (json!(v), v.to_string())
                }
                "dec_u32" => {
                    let v = boundary_u64(rng, u32::MAX as u64);
                    (json!(v), v.to_string())
                }
                "dec_u31" => {
                    let v = boundary_u64(rng, i32::MAX as u64);
                    (json!(v), v.to_string())
                }
                _ => {
                    let v = boundary_u64(rng, u32::MAX as u64) as u32 as i32;
                    (json!(v), v.to_string())
                }
            };
            (v, txt.into_bytes())
        }
        "u32le_nz" => {
            let v = (boundary_u64(rng, u32::MAX as u64) as u32).max(1);
            (json!(v), v.to_le_bytes().to_vec())
        }
        // one of a list of literal texts
        "oneoftext" => {
            let opts = item["opts"].as_array().expect("oneoftext opts");
            let s = opts[rng.gen_range(0 .. opts.len())].as_str().unwrap().to_string();
            (json!(s), s.as_bytes().to_vec())
        }
        // Unreal 2 string: length byte, Latin-1 or UCS-2LE, colour escapes / control characters per `atoms`
        "ustr" => draw_ustr(rng, item, uniq),
        other => panic!("layout type {other} is not a primitive of the harness"),
    }
}

fn latin1_char(rng: &mut StdRng) -> char {
    // printable characters that Latin-1 and Windows-1252 agree on
    match rng.gen_range(0 .. 10) {
        0 ..= 6 => rng.gen_range(0x20u8 ..= 0x7e) as char,
        _ => char::from_u32(rng.gen_range(0xa0u32 ..= 0xff)).unwrap(),
    }
}

fn ucs2_char(rng: &mut StdRng) -> char {
    loop {
        let c = match rng.gen_range(0 .. 10) {
            0 ..= 4 => rng.gen_range(0x20u32 ..= 0x7e),
            5 ..= 6 => rng.gen_range(0xa0u32 ..= 0x24ff),
            _ => rng.gen_range(0x3000u32 ..= 0xd7ff),
        };
        // D9: the low byte of the first unit must not look like the documented stray 01; keep it simple: no
        // unit with low byte 01 at all, no escape / control code points
        if c & 0xff != 0x01 && c > 0x1b {
            if let Some(ch) = char::from_u32(c) {
                break ch;
            }
        }
    }
}

/// Encode an Unreal 2 string from its stripped text and the positions of escapes / control characters.
pub fn ustr_encode(rng: &mut StdRng, enc: &str, atoms: &[String], chars: &[char]) -> Vec<u8> {
    let mut ci = 0;
    if enc == "latin1" {
        let mut body: Vec<u8> = Vec::new();
        for a in atoms {
            match a.as_str() {
                "ch" => {
                    body.push(chars[ci] as u32 as u8);
                    ci += 1;
                }
                "esc" => {
                    body.push(0x1b);
                    for _ in 0 .. 3 {
                        // a colour component can have any value: also that of the escape itself or of a control code
                        body.push(match rng.gen_range(0 .. 10) {
                            0 | 1 => 0x1b,
                            2 => rng.gen_range(1 ..= 0x1a),
                            _ => rng.gen_range(1 ..= 255),
                        });
                    }
                }
                _ => body.push(rng.gen_range(1 ..= 0x1a)),
            }
        }
        // the length counts the bytes including the terminating NUL (0 = nothing follows)
        if atoms.is_empty() && rng.gen_bool(0.5) {
            return vec![0];
        }
        body.push(0);
        assert!(body.len() < 0x80, "latin1 string too long for the length byte");
        let mut out = vec![body.len() as u8];
        out.extend(body);
        out
    } else {
        let mut units: Vec<u16> = Vec::new();
        for a in atoms {
            match a.as_str() {
                "ch" => {
                    let mut b = [0u16; 2];
                    units.extend_from_slice(chars[ci].encode_utf16(&mut b));
                    ci += 1;
                }
                "esc" => {
                    units.push(0x1b);
                    for _ in 0 .. 3 {
                        units.push(match rng.gen_range(0 .. 10) {
                            0 | 1 => 0x1b,
                            2 => rng.gen_range(2 ..= 0x1a),
                            _ => rng.gen_range(0x20 ..= 0xff),
                        });
                    }
                }
                _ => units.push(rng.gen_range(2 ..= 0x1a)),
            }
        }
        units.push(0);
        assert!(units.len() < 0x80, "ucs2 string too long for the length byte");
        let mut out = vec![0x80 | units.len() as u8];
        if enc == "ucs2stray" {
            out.push(0x01); // the uncounted byte some games put after the length byte of a UCS-2 string (D9)
        }
        for u in units {
            out.extend(u.to_le_bytes());
        }
        out
    }
}

fn draw_ustr(rng: &mut StdRng, item: &Value, uniq: &mut HashMap<String, HashSet<String>>) -> (Value, Vec<u8>) {
    let mut enc = item["enc"].as_str().unwrap_or("any").to_string();
    let mut atoms: Vec<String> = item["atoms"]
        .as_array()
        .map(|a| a.iter().map(|x| x.as_str().unwrap().to_string()).collect())
        .unwrap_or_default();
    let any = enc == "any";
    if any {
        enc = match rng.gen_range(0 .. 10) {
            0 ..= 6 => "latin1".into(),
            7 | 8 => "ucs2".into(),
            _ => "ucs2stray".into(),
        };
    }
    // escapes take 4 code units, so the number of atoms that fit is bounded by the length byte
    let units: usize = atoms.iter().map(|a| if a == "esc" { 4 } else { 1 }).sum();
    if units + 1 >= 0x80 {
        // drop trailing ordinary characters until it fits (the spec's length is the atom count)
        while atoms.iter().map(|a| if a == "esc" { 4 } else { 1 }).sum::<usize>() + 1 >= 0x80 {
            let pos = atoms.iter().rposition(|a| a == "ch").expect("string too long");
            atoms.remove(pos);
        }
    }
    for _ in 0 .. 1000 {
        if any {
            let min = item["min"].as_u64().unwrap_or(0) as usize;
            let shortest = STRCLASS.with(|s| s.borrow().as_str() == "empty") && item["uniq"].is_null();
            let n = if shortest { min } else { rng.gen_range(min ..= 20) };
            atoms = vec!["ch".to_string(); n];
        }
        let n = atoms.iter().filter(|a| *a == "ch").count();
        let mut chars: Vec<char> = (0 .. n)
            .map(|_| if enc == "latin1" { latin1_char(rng) } else { ucs2_char(rng) })
            .collect();
        // Latin-1 text whose bytes happen to be well-formed UTF-8 ("Ã©lite Â® clan"): every high byte is part of a two-byte
        // sequence - a single-byte string is still a single-byte string
        if enc == "latin1" && n >= 2 && rng.gen_bool(0.12) {
            for c in chars.iter_mut() {
                if (*c as u32) >= 0x80 {
                    *c = 'a';
                }
            }
            let at = rng.gen_range(0 .. n - 1);
            chars[at] = ['\u{c3}', '\u{c2}', '\u{c5}', '\u{d0}'][rng.gen_range(0 .. 4)];
            chars[at + 1] = char::from_u32(rng.gen_range(0xa0u32 ..= 0xbf)).unwrap();
        }
        let s: String = chars.iter().collect();
        if !check_uniq(item, uniq, &s) {
            continue;
        }
        let bytes = ustr_encode(rng, &enc, &atoms, &chars);
        return (json!(s), bytes);
    }
    panic!("could not draw a unique ustr");
}

fn check_uniq(item: &Value, uniq: &mut HashMap<String, HashSet<String>>, s: &str) -> bool {
    match item["uniq"].as_str() {
        None => true,
        Some(g) => {
            let set = uniq.entry(g.to_string()).or_default();
            if let Some(res) = item["reserved"].as_array() {
                if res.iter().any(|r| r.as_str() == Some(s)) {
                    return false;
                }
            }
            set.insert(s.to_string())
        }
    }
}

fn draw_text(
    rng: &mut StdRng,
    item: &Value,
    uniq: &mut HashMap<String, HashSet<String>>,
    excl: &[char],
    min: usize,
    max: usize,
) -> String {
    let nulok = item["nulok"] == true;
    for t in 0 .. 1000usize {
        // (a class of very short strings runs out of unique values in a large group: the minimum grows with the failures)
        let grow = if item["uniq"].is_string() { (t / 6).min(max.saturating_sub(min)) } else { 0 };
        let s = random_string_where(rng, min + grow, max, |c| (c != '\0' || nulok) && !excl.contains(&c));
        let s = if item["uniq"].is_string() && s.is_empty() && min == 0 && rng.gen_bool(0.8) {
            // unique keys: the empty key is legal but drawn rarely
            random_string_where(rng, 1 + grow, max.max(1 + grow), |c| c != '\0' && !excl.contains(&c))
        } else {
            s
        };
        if check_uniq(item, uniq, &s) {
            return s;
        }
    }
    panic!("could not draw a unique text value");
}

/// Encode a flat item list. `fixed` can pin field values (field name -> (value, bytes)).
pub fn encode(rng: &mut StdRng, items: &[Value], fixed: &HashMap<String, (Value, Vec<u8>)>) -> Encoded {
    let mut bytes = Vec::new();
    let mut values = HashMap::new();
    let mut offsets = Vec::with_capacity(items.len());
    let mut uniq: HashMap<String, HashSet<String>> = HashMap::new();
    let mut lenrest: Option<(usize, String)> = None;
    for (ii, it) in items.iter().enumerate() {
        offsets.push(bytes.len());
        let item_start = bytes.len();
        // mutation plan bookkeeping
        let (gi, target) = MUT.with(|m| {
            let mut m = m.borrow_mut();
            match m.as_mut() {
                None => (0usize, None),
                Some(p) => {
                    let gi = p.next;
                    p.next += 1;
                    let litlen = it["b"].as_array().map_or(0, |a| a.len());
                    p.seen.push((
                        it["k"].as_str().unwrap_or("").to_string(),
                        it["ty"].as_str().unwrap_or("").to_string(),
                        litlen,
                    ));
                    let t = match p.target {
                        Some((ti, sub)) if ti == gi => Some((p.desc.clone(), sub)),
                        _ => None,
                    };
                    (gi, t)
                }
            }
        });
        let amp = MUT.with(|m| m.borrow().as_ref().and_then(|p| p.amp));
        if let Some((desc, _)) = &target {
            if it["k"] == "j" && desc["op"] == "json_value" {
                // JSON member replaced / removed
                let ptr = it["ptr"].as_str().unwrap().to_string();
                let v = match desc["v"].as_str().unwrap_or("") {
                    "null" => Some(Value::Null),
                    "string" => Some(json!("x")),
                    "number_neg" => Some(json!(-1)),
                    "number_huge" => Some(json!(18446744073709551615u64)),
                    "float" => Some(json!(1.5)),
                    "object" => Some(json!({"a": 1})),
                    "array" => Some(json!([1, "a", null])),
                    "bool" => Some(json!(true)),
                    "deep" => {
                        let mut v = json!(1);
                        for _ in 0 .. 300 {
                            v = json!([v]);
                        }
                        Some(v)
                    }
                    _ => None,
                };
                if let Some(v) = v {
                    values.insert(ptr, v);
                }
                MUT.with(|m| m.borrow_mut().as_mut().unwrap().applied = true);
                continue;
            }
        }
        match it["k"].as_str().expect("item kind") {
            "lit" => bytes.extend(it["b"].as_array().unwrap().iter().map(|x| x.as_u64().unwrap() as u8)),
            "txt" => bytes.extend(it["s"].as_str().unwrap().as_bytes()),
            "skip" => {
                for _ in 0 .. it["n"].as_u64().unwrap() {
                    bytes.push(rng.gen());
                }
            }
            "f" => {
                let name = it["f"].as_str().unwrap().to_string();
                let (v, b) = match fixed.get(&name) {
                    Some(x) => x.clone(),
                    None => draw(rng, it, &mut uniq),
                };
                bytes.extend(b);
                values.insert(name, v);
            }
            "ref" => {
                // the text of an already drawn ustr field again (a repeated key)
                let v = values[it["f"].as_str().unwrap()].as_str().unwrap().to_string();
                let chars: Vec<char> = v.chars().collect();
                let latin = chars.iter().all(|c| (*c as u32) < 0x100);
                let atoms = vec!["ch".to_string(); chars.len()];
                bytes.extend(ustr_encode(rng, if latin { "latin1" } else { "ucs2" }, &atoms, &chars));
            }
            "ustrlit" => {
                let chars: Vec<char> = it["s"].as_str().unwrap().chars().collect();
                let atoms = vec!["ch".to_string(); chars.len()];
                let enc = if rng.gen_bool(0.7) { "latin1" } else { "ucs2" };
                bytes.extend(ustr_encode(rng, enc, &atoms, &chars));
            }
            "lenrest" => {
                lenrest = Some((bytes.len(), it["ty"].as_str().unwrap().to_string()));
                bytes.extend([0, 0]);
            }
            "j" => {
                let ptr = it["ptr"].as_str().unwrap().to_string();
                let v = match it["ty"].as_str().unwrap() {
                    "jstr" => json!(random_string(rng, 0, 30)),
                    "ji32" => json!(boundary_u64(rng, u32::MAX as u64) as u32 as i32),
                    "ju32" => json!(boundary_u64(rng, u32::MAX as u64) as u32),
                    "jbool" => json!(rng.gen_bool(0.5)),
                    "jemptylist" => json!([]),
                    "jconst" => it["v"].clone(),
                    t => panic!("json member type {t}"),
                };
                values.insert(ptr, v);
            }
            k => panic!("unknown item kind {k}"),
        }
        if let Some(a) = amp {
            if gi == a.count {
                // the largest value this item can carry
                match it["k"].as_str().unwrap() {
                    "lit" => {
                        if let Some(b) = bytes.get_mut(item_start + a.sub) {
                            *b = 0xff;
                        }
                    }
                    "f" => {
                        let ty = it["ty"].as_str().unwrap_or("");
                        if ty.starts_with("dec_") {
                            bytes.truncate(item_start);
                            bytes.extend(b"65535");
                        } else if matches!(ty, "u8" | "i8" | "u16le" | "u16be" | "u32le" | "u32be" | "i32le" | "i32be") {
                            let w = bytes.len() - item_start;
                            bytes.truncate(item_start);
                            bytes.extend(std::iter::repeat(0xff).take(w.saturating_sub(1)));
                            // (keep the sign bit clear: a count, not -1)
                            bytes.push(if ty.ends_with("be") || w == 1 { 0xff } else { 0x7f });
                            if ty.ends_with("be") && w > 1 {
                                bytes[item_start] = 0x7f;
                            }
                        }
                    }
                    _ => {}
                }
            }
            if gi == a.repeat {
                let mut unit = bytes[item_start ..].to_vec();
                // a one-byte literal after a string is its terminator / separator: part of the repeated unit
                if let Some(nx) = items.get(ii + 1) {
                    if nx["k"] == "lit" && nx["b"].as_array().map_or(false, |a| a.len() == 1) {
                        let t = nx["b"][0].as_u64().unwrap() as u8;
                        unit.push(t);
                        bytes.push(t);
                        // the shortest distinct strings carry the most entries per byte received
                        if matches!(it["k"].as_str(), Some("txt")) || matches!(it["ty"].as_str(), Some("cstr" | "text" | "atext" | "oneoftext")) {
                            unit = vec![b'a', b'a', t];
                        }
                    }
                }
                if !unit.is_empty() {
                    let mut k = 0u32;
                    while bytes.len() + unit.len() <= a.fill {
                        // (vary one byte so that repeated names are distinct where that matters)
                        let mut u = unit.clone();
                        if u.len() >= 2 {
                            let n = u.len();
                            u[0] = 1 + (k % 127) as u8;
                            if n >= 3 {
                                u[1] = 1 + ((k / 127) % 127) as u8;
                            }
                        }
                        bytes.extend(u);
                        k += 1;
                    }
                    MUT.with(|p| p.borrow_mut().as_mut().unwrap().applied = true);
                    break; // nothing follows
                }
            }
        }
        if let Some((desc, sub)) = target {
            let normal = bytes[item_start ..].to_vec();
            if let Some(m) = mutate_item(rng, it, &desc, sub, &normal) {
                bytes.truncate(item_start);
                bytes.extend(m);
                MUT.with(|p| p.borrow_mut().as_mut().unwrap().applied = true);
            }
        }
    }
    // (an amplified reply ends early: the items that were not emitted start - and end - at the end)
    while offsets.len() < items.len() {
        offsets.push(bytes.len());
    }
    if let Some((at, ty)) = lenrest {
        assert_eq!(ty, "u16be");
        let n = (bytes.len() - at - 2) as u16;
        bytes[at .. at + 2].copy_from_slice(&n.to_be_bytes());
    }
    Encoded {
        bytes,
        values,
        offsets,
    }
}

fn set_path(root: &mut Value, path: &[Value], v: Value) {
    let mut cur = root;
    for (i, seg) in path.iter().enumerate() {
        let last = i + 1 == path.len();
        if let Some(key) = seg.as_str() {
            if !cur.is_object() {
                *cur = Value::Object(Map::new());
            }
            let obj = cur.as_object_mut().unwrap();
            if last {
                obj.insert(key.to_string(), v);
                return;
            }
            cur = obj.entry(key.to_string()).or_insert(Value::Null);
        } else {
            let idx = seg.as_u64().expect("path index") as usize;
            if !cur.is_array() {
                *cur = Value::Array(Vec::new());
            }
            let arr = cur.as_array_mut().unwrap();
            while arr.len() <= idx {
                arr.push(Value::Null);
            }
            if last {
                arr[idx] = v;
                return;
            }
            cur = &mut arr[idx];
        }
    }
}

fn get_path_mut<'a>(root: &'a mut Value, path: &[Value]) -> &'a mut Value {
    let mut cur = root;
    for seg in path {
        if let Some(key) = seg.as_str() {
            if !cur.is_object() {
                *cur = Value::Object(Map::new());
            }
            cur = cur.as_object_mut().unwrap().entry(key.to_string()).or_insert(Value::Null);
        } else {
            let idx = seg.as_u64().unwrap() as usize;
            if !cur.is_array() {
                *cur = Value::Array(Vec::new());
            }
            let arr = cur.as_array_mut().unwrap();
            while arr.len() <= idx {
                arr.push(Value::Null);
            }
            cur = &mut arr[idx];
        }
    }
    cur
}

/// Compute the expected response (as the JSON the crate's serde derive produces) from drawn values.
pub fn expected(expect: &[Value], values: &HashMap<String, Value>) -> Value {
    let mut root = Value::Object(Map::new());
    for e in expect {
        let path = e["p"].as_array().expect("expect path");
        let tr = e["tr"].as_str().expect("expect transform");
        let src = || {
            let name = e["src"].as_str().expect("expect src");
            // (grounding of every source is an invariant of the layout specs; a field can only be missing
            // here when a hostile mutation removed it, in which case no expectation is used)
            values.get(name).cloned().unwrap_or(Value::Null)
        };
        match tr {
            "id" => set_path(&mut root, path, src()),
            "eq1" => set_path(&mut root, path, json!(src().as_u64() == Some(1))),
            _ if tr != "jsontext" && e.get("src").is_some() && !values.contains_key(e["src"].as_str().unwrap_or("")) => {
                set_path(&mut root, path, Value::Null)
            }
            "ne0" => set_path(&mut root, path, json!(src().as_u64() != Some(0))),
            "low24" => set_path(&mut root, path, json!(src().as_u64().unwrap() & 0xff_ffff)),
            "str" => {
                let v = src();
                set_path(&mut root, path, json!(match v {
                    Value::String(s) => s,
                    other => other.to_string(),
                }))
            }
            "enum" => {
                let b = src().as_u64().unwrap();
                let name = e["map"]
                    .as_array()
                    .unwrap()
                    .iter()
                    .find(|p| p[0].as_u64() == Some(b))
                    .unwrap_or_else(|| panic!("enum map has no entry for {b}"))[1]
                    .clone();
                set_path(&mut root, path, name);
            }
            "const" => set_path(&mut root, path, e["v"].clone()),
            "null" => set_path(&mut root, path, Value::Null),
            "list" => {
                let slot = get_path_mut(&mut root, path);
                if !slot.is_array() {
                    *slot = Value::Array(Vec::new());
                }
            }
            "map" => {
                let slot = get_path_mut(&mut root, path);
                if !slot.is_object() {
                    *slot = Value::Object(Map::new());
                }
            }
            "entry" => {
                let key = values.get(e["key"].as_str().unwrap()).and_then(|k| k.as_str()).unwrap_or("").to_string();
                let v = src();
                let slot = get_path_mut(&mut root, path);
                if !slot.is_object() {
                    *slot = Value::Object(Map::new());
                }
                slot.as_object_mut().unwrap().insert(key, v);
            }
            "truthy" => {
                let t = src().as_str().unwrap().to_lowercase();
                let b = match t.as_str() {
                    "true" => true,
                    "false" => false,
                    n => n.parse::<u64>().expect("truthy source") != 0,
                };
                set_path(&mut root, path, json!(b));
            }
            "is1" => set_path(&mut root, path, json!(src().as_str() == Some("1"))),
            "jsontext" => {
                // resolved by the comparator: the observed text must parse to this value (absent = null)
                let name = e["src"].as_str().unwrap();
                let v = json_subtree(values, name);
                set_path(&mut root, path, json!({"__jsontext": v}));
            }
            "listentry" => {
                let key = values[e["key"].as_str().unwrap()].as_str().expect("map key is text").to_string();
                let v = src();
                let slot = get_path_mut(&mut root, path);
                if !slot.is_object() {
                    *slot = Value::Object(Map::new());
                }
                let list = slot.as_object_mut().unwrap().entry(key).or_insert_with(|| json!([]));
                list.as_array_mut().unwrap().push(v);
            }
            "append" => {
                let v = src();
                let slot = get_path_mut(&mut root, path);
                if !slot.is_array() {
                    *slot = json!([]);
                }
                slot.as_array_mut().unwrap().push(v);
            }
            other => panic!("unknown expect transform {other}"),
        }
    }
    root
}

/// First difference between expected and observed JSON (None = equal). Numbers compare by value.
/// Build the JSON value rooted at JSON pointer `root` from the drawn pointer -> value map.
pub fn json_subtree(values: &HashMap<String, Value>, root: &str) -> Value {
    let mut out = Value::Null;
    let mut keys: Vec<&String> = values.keys().filter(|k| k.starts_with('/')).collect();
    keys.sort();
    for k in keys {
        if k == root {
            return values[k].clone();
        }
        if let Some(rest) = k.strip_prefix(root).filter(|r| r.starts_with('/')) {
            let path: Vec<Value> = rest[1 ..]
                .split('/')
                .map(|seg| seg.parse::<u64>().map_or_else(|_| json!(seg), |n| json!(n)))
                .collect();
            set_path(&mut out, &path, values[k].clone());
        }
    }
    out
}

pub fn diff(path: &str, want: &Value, got: &Value) -> Option<String> {
    if let Some(inner) = want.get("__jsontext") {
        return match got.as_str().map(serde_json::from_str::<Value>) {
            Some(Ok(v)) => diff(path, inner, &v),
            _ => Some(format!("{path}: expected JSON text of {inner}, observed {got}")),
        };
    }
    match (want, got) {
        (Value::Object(a), Value::Object(b)) => {
            for (k, va) in a {
                match b.get(k) {
                    None => return Some(format!("{path}.{k}: missing (expected {va})")),
                    Some(vb) => {
                        if let Some(d) = diff(&format!("{path}.{k}"), va, vb) {
                            return Some(d);
                        }
                    }
                }
            }
            for k in b.keys() {
                if !a.contains_key(k) {
                    return Some(format!("{path}.{k}: unexpected {}", b[k]));
                }
            }
            None
        }
        (Value::Array(a), Value::Array(b)) => {
            if a.len() != b.len() {
                return Some(format!("{path}: length {} expected, {} observed", a.len(), b.len()));
            }
            for (i, (x, y)) in a.iter().zip(b).enumerate() {
                if let Some(d) = diff(&format!("{path}[{i}]"), x, y) {
                    return Some(d);
                }
            }
            None
        }
        (Value::Number(a), Value::Number(b)) => {
            let eq = if let (Some(x), Some(y)) = (a.as_u64(), b.as_u64()) {
                x == y
            } else if let (Some(x), Some(y)) = (a.as_i64(), b.as_i64()) {
                x == y
            } else {
                // floats travel as f32 in the protocols: equal when they denote the same f32
                match (a.as_f64(), b.as_f64()) {
                    (Some(x), Some(y)) => x == y || (x as f32) == (y as f32),
                    _ => false,
                }
            };
            if eq {
                None
            } else {
                Some(format!("{path}: expected {a}, observed {b}"))
            }
        }
        (a, b) => {
            if a == b {
                None
            } else {
                let mut sa = a.to_string();
                let mut sb = b.to_string();
                if sa.len() > 120 {
                    sa = sa.chars().take(120).collect();
                }
                if sb.len() > 120 {
                    sb = sb.chars().take(120).collect();
                }
                Some(format!("{path}: expected {sa}, observed {sb}"))
            }
        }
    }
}

/// Strip `[n]`, digits and quoted data from a diff so that signatures group by field, not by value.
pub fn diff_class(d: &str) -> String {
    let head = d.split(':').next().unwrap_or(d);
    // keys of maps (rule names, variable names) are data: keep the path down to the container only
    let head: String = {
        let segs: Vec<&str> = head.split('.').collect();
        let keep = if segs.len() > 2 && ["unused_entries", "rules", "mutators_and_rules"].contains(&segs[1]) {
            if segs[1] == "mutators_and_rules" { 3 } else { 2 }
        } else {
            segs.len()
        };
        segs[.. keep.min(segs.len())].join(".")
    };
    let head = head.as_str();
    let mut out = String::new();
    let mut in_idx = false;
    for c in head.chars() {
        match c {
            '[' => {
                in_idx = true;
                out.push_str("[]");
            }
            ']' => in_idx = false,
            _ if in_idx => {}
            _ => out.push(c),
        }
    }
    out
}

pub struct LayoutSet {
    /// shared by every thread of the process (the parsed tables take about a gigabyte)
    pub all: std::sync::Arc<Vec<Value>>,
}

impl LayoutSet {
    pub fn load(path: &str) -> Self {
        static CACHE: std::sync::Mutex<Vec<(String, std::sync::Arc<Vec<Value>>)>> = std::sync::Mutex::new(Vec::new());
        let mut c = CACHE.lock().unwrap();
        if let Some((_, a)) = c.iter().find(|(p, _)| p == path) {
            return LayoutSet { all: a.clone() };
        }
        let a = std::sync::Arc::new(read_ndjson(path));
        c.push((path.to_string(), a.clone()));
        LayoutSet { all: a }
    }
    pub fn of<'a>(&'a self, proto: &str, sec: &str) -> Vec<&'a Value> {
        self.all
            .iter()
            .filter(|l| l["proto"] == proto && l["sec"] == sec)
            .collect()
    }
    pub fn pick<'a>(&'a self, rng: &mut StdRng, proto: &str, sec: &str) -> &'a Value {
        let c = self.of(proto, sec);
        assert!(!c.is_empty(), "no layout for {proto}/{sec}");
        c[rng.gen_range(0 .. c.len())]
    }
}

/// Sort the arrays at the given paths (lists the protocol gives no order to, D1) in both values.
pub fn normalise_unordered(v: &mut Value, paths: &[Value]) {
    fn go(cur: &mut Value, segs: &[Value]) {
        match segs.split_first() {
            None => {
                if let Some(a) = cur.as_array_mut() {
                    a.sort_by_key(|x| x.to_string());
                }
            }
            Some((seg, rest)) => {
                if seg.as_str() == Some("*") {
                    match cur {
                        Value::Object(m) => m.values_mut().for_each(|x| go(x, rest)),
                        Value::Array(a) => a.iter_mut().for_each(|x| go(x, rest)),
                        _ => {}
                    }
                    return;
                }
                let next = match seg.as_str() {
                    Some(k) => cur.get_mut(k),
                    None => cur.get_mut(seg.as_u64().unwrap() as usize),
                };
                if let Some(n) = next {
                    go(n, rest);
                }
            }
        }
    }
    for p in paths {
        go(v, p.as_array().unwrap());
    }
}
