//! Generic interpreter of the layout tables exported by the TLA+ layout specifications
//! (spec/LayoutLib.tla): draws field values from each wire type's domain, encodes the reply with
//! primitive codecs and computes the expected response through the table's `expect` entries.
//! No protocol knowledge lives here.
use crate::util::*;
use rand::prelude::*;
use serde_json::{json, Map, Value};
use std::collections::{HashMap, HashSet};

#[derive(Debug, Clone)]
pub struct Encoded {
    pub bytes: Vec<u8>,
    pub values: HashMap<String, Value>,
    /// byte offset at which each item starts (for boundary sweeps and mutations)
    pub offsets: Vec<usize>,
}

fn excl_of(item: &Value) -> Vec<char> { item["excl"].as_str().map(|s| s.chars().collect()).unwrap_or_default() }

/// Draw a value for wire type `ty` and return (json value, wire bytes).
pub fn draw(rng: &mut StdRng, item: &Value, uniq: &mut HashMap<String, HashSet<String>>) -> (Value, Vec<u8>) {
    let ty = item["ty"].as_str().expect("item type");
    let excl = excl_of(item);
    match ty {
        "u8" => {
            let v = boundary_u64(rng, u8::MAX as u64) as u8;
            (json!(v), vec![v])
        }
        "i8" => {
            let v = boundary_u64(rng, u8::MAX as u64) as u8 as i8;
            (json!(v), vec![v as u8])
        }
        "u16le" => {
            let v = boundary_u64(rng, u16::MAX as u64) as u16;
            (json!(v), v.to_le_bytes().to_vec())
        }
        "u16be" => {
            let v = boundary_u64(rng, u16::MAX as u64) as u16;
            (json!(v), v.to_be_bytes().to_vec())
        }
        "u32le" => {
            let v = boundary_u64(rng, u32::MAX as u64) as u32;
            (json!(v), v.to_le_bytes().to_vec())
        }
        "u32be" => {
            let v = boundary_u64(rng, u32::MAX as u64) as u32;
            (json!(v), v.to_be_bytes().to_vec())
        }
        "i32le" => {
            let v = boundary_u64(rng, u32::MAX as u64) as u32 as i32;
            (json!(v), v.to_le_bytes().to_vec())
        }
        "i32be" => {
            let v = boundary_u64(rng, u32::MAX as u64) as u32 as i32;
            (json!(v), v.to_be_bytes().to_vec())
        }
        "u64le" => {
            let v = boundary_u64(rng, u64::MAX);
            (json!(v), v.to_le_bytes().to_vec())
        }
        "f32le" => {
            // any finite float (NaN is not equal to itself in the response comparison)
            let v: f32 = match rng.gen_range(0 .. 6) {
                0 => 0.0,
                1 => -1.5,
                2 => f32::MAX,
                3 => f32::MIN_POSITIVE,
                _ => f32::from_bits(rng.gen::<u32>()),
            };
            let v = if v.is_finite() { v } else { 12345.678 };
            (serde_json::to_value(v).unwrap(), v.to_le_bytes().to_vec())
        }
        "oneof" => {
            let opts = item["opts"].as_array().expect("oneof opts");
            let b = opts[rng.gen_range(0 .. opts.len())].as_u64().unwrap() as u8;
            (json!(b), vec![b])
        }
        // NUL-terminated UTF-8
        "cstr" => {
            let s = draw_text(rng, item, uniq, &excl, 0, 40);
            let mut b = s.as_bytes().to_vec();
            b.push(0);
            (json!(s), b)
        }
        // u8 length + UTF-8 (at most 255 bytes)
        "lp8" => {
            let mut s = draw_text(rng, item, uniq, &excl, 0, 40);
            while s.len() > 255 {
                s.pop();
            }
            let mut b = vec![s.len() as u8];
            b.extend(s.as_bytes());
            (json!(s), b)
        }
        // bare text (delimited by the surrounding literals); `excl` lists the characters it must avoid
        "text" => {
            let min = item["min"].as_u64().unwrap_or(0) as usize;
            let s = draw_text(rng, item, uniq, &excl, min, 24);
            (json!(s), s.as_bytes().to_vec())
        }
        // ASCII-only bare text
        "atext" => {
            let min = item["min"].as_u64().unwrap_or(0) as usize;
            let max = item["max"].as_u64().unwrap_or(16) as usize;
            let s = loop {
                let n = rng.gen_range(min ..= max);
                let s: String = (0 .. n)
                    .map(|_| {
                        loop {
                            let c = rng.gen_range(0x21u8 ..= 0x7e) as char;
                            if !excl.contains(&c) {
                                break c;
                            }
                        }
                    })
                    .collect();
                if check_uniq(item, uniq, &s) {
                    break s;
                }
            };
            (json!(s), s.as_bytes().to_vec())
        }
        // decimal text of an integer in the named range
        "dec_u8" | "dec_u16" | "dec_u32" | "dec_i32" | "dec_u31" => {
            let (v, txt): (Value, String) = match ty {
                "dec_u8" => {
                    let v = boundary_u64(rng, 255);
                    (json!(v), v.to_string())
                }
                "dec_u16" => {
                    let v = boundary_u64(rng, 65535);
                    (json!(v), v.to_string())
                }
                "dec_u32" => {
                    let v = boundary_u64(rng, u32::MAX as u64);
                    (json!(v), v.to_string())
                }
                "dec_u31" => {
                    let v = boundary_u64(rng, i32::MAX as u64);
                    (json!(v), v.to_string())
                }
                _ => {
                    let v = boundary_u64(rng, u32::MAX as u64) as u32 as i32;
                    (json!(v), v.to_string())
                }
            };
            (v, txt.into_bytes())
        }
        other => panic!("layout type {other} is not a primitive of the harness"),
    }
}

fn check_uniq(item: &Value, uniq: &mut HashMap<String, HashSet<String>>, s: &str) -> bool {
    match item["uniq"].as_str() {
        None => true,
        Some(g) => {
            let set = uniq.entry(g.to_string()).or_default();
            if let Some(res) = item["reserved"].as_array() {
                if res.iter().any(|r| r.as_str() == Some(s)) {
                    return false;
                }
            }
            set.insert(s.to_string())
        }
    }
}

fn draw_text(
    rng: &mut StdRng,
    item: &Value,
    uniq: &mut HashMap<String, HashSet<String>>,
    excl: &[char],
    min: usize,
    max: usize,
) -> String {
    for _ in 0 .. 1000 {
        let s = random_string_where(rng, min, max, |c| c != '\0' && !excl.contains(&c));
        let s = if item["uniq"].is_string() && s.is_empty() && min == 0 && rng.gen_bool(0.8) {
            // unique keys: the empty key is legal but drawn rarely
            random_string_where(rng, 1, max, |c| c != '\0' && !excl.contains(&c))
        } else {
            s
        };
        if check_uniq(item, uniq, &s) {
            return s;
        }
    }
    panic!("could not draw a unique text value");
}

/// Encode a flat item list. `fixed` can pin field values (field name -> (value, bytes)).
pub fn encode(rng: &mut StdRng, items: &[Value], fixed: &HashMap<String, (Value, Vec<u8>)>) -> Encoded {
    let mut bytes = Vec::new();
    let mut values = HashMap::new();
    let mut offsets = Vec::with_capacity(items.len());
    let mut uniq: HashMap<String, HashSet<String>> = HashMap::new();
    for it in items {
        offsets.push(bytes.len());
        match it["k"].as_str().expect("item kind") {
            "lit" => bytes.extend(it["b"].as_array().unwrap().iter().map(|x| x.as_u64().unwrap() as u8)),
            "txt" => bytes.extend(it["s"].as_str().unwrap().as_bytes()),
            "skip" => {
                for _ in 0 .. it["n"].as_u64().unwrap() {
                    bytes.push(rng.gen());
                }
            }
            "f" => {
                let name = it["f"].as_str().unwrap().to_string();
                let (v, b) = match fixed.get(&name) {
                    Some(x) => x.clone(),
                    None => draw(rng, it, &mut uniq),
                };
                bytes.extend(b);
                values.insert(name, v);
            }
            k => panic!("unknown item kind {k}"),
        }
    }
    Encoded {
        bytes,
        values,
        offsets,
    }
}

fn set_path(root: &mut Value, path: &[Value], v: Value) {
    let mut cur = root;
    for (i, seg) in path.iter().enumerate() {
        let last = i + 1 == path.len();
        if let Some(key) = seg.as_str() {
            if !cur.is_object() {
                *cur = Value::Object(Map::new());
            }
            let obj = cur.as_object_mut().unwrap();
            if last {
                obj.insert(key.to_string(), v);
                return;
            }
            cur = obj.entry(key.to_string()).or_insert(Value::Null);
        } else {
            let idx = seg.as_u64().expect("path index") as usize;
            if !cur.is_array() {
                *cur = Value::Array(Vec::new());
            }
            let arr = cur.as_array_mut().unwrap();
            while arr.len() <= idx {
                arr.push(Value::Null);
            }
            if last {
                arr[idx] = v;
                return;
            }
            cur = &mut arr[idx];
        }
    }
}

fn get_path_mut<'a>(root: &'a mut Value, path: &[Value]) -> &'a mut Value {
    let mut cur = root;
    for seg in path {
        if let Some(key) = seg.as_str() {
            if !cur.is_object() {
                *cur = Value::Object(Map::new());
            }
            cur = cur.as_object_mut().unwrap().entry(key.to_string()).or_insert(Value::Null);
        } else {
            let idx = seg.as_u64().unwrap() as usize;
            if !cur.is_array() {
                *cur = Value::Array(Vec::new());
            }
            let arr = cur.as_array_mut().unwrap();
            while arr.len() <= idx {
                arr.push(Value::Null);
            }
            cur = &mut arr[idx];
        }
    }
    cur
}

/// Compute the expected response (as the JSON the crate's serde derive produces) from drawn values.
pub fn expected(expect: &[Value], values: &HashMap<String, Value>) -> Value {
    let mut root = Value::Object(Map::new());
    for e in expect {
        let path = e["p"].as_array().expect("expect path");
        let tr = e["tr"].as_str().expect("expect transform");
        let src = || {
            let name = e["src"].as_str().expect("expect src");
            values
                .get(name)
                .unwrap_or_else(|| panic!("expect refers to field {name} which is not on the wire"))
                .clone()
        };
        match tr {
            "id" => set_path(&mut root, path, src()),
            "eq1" => set_path(&mut root, path, json!(src().as_u64() == Some(1))),
            "ne0" => set_path(&mut root, path, json!(src().as_u64() != Some(0))),
            "low24" => set_path(&mut root, path, json!(src().as_u64().unwrap() & 0xff_ffff)),
            "str" => {
                let v = src();
                set_path(&mut root, path, json!(match v {
                    Value::String(s) => s,
                    other => other.to_string(),
                }))
            }
            "enum" => {
                let b = src().as_u64().unwrap();
                let name = e["map"]
                    .as_array()
                    .unwrap()
                    .iter()
                    .find(|p| p[0].as_u64() == Some(b))
                    .unwrap_or_else(|| panic!("enum map has no entry for {b}"))[1]
                    .clone();
                set_path(&mut root, path, name);
            }
            "const" => set_path(&mut root, path, e["v"].clone()),
            "null" => set_path(&mut root, path, Value::Null),
            "list" => {
                let slot = get_path_mut(&mut root, path);
                if !slot.is_array() {
                    *slot = Value::Array(Vec::new());
                }
            }
            "map" => {
                let slot = get_path_mut(&mut root, path);
                if !slot.is_object() {
                    *slot = Value::Object(Map::new());
                }
            }
            "entry" => {
                let key = values[e["key"].as_str().unwrap()].as_str().expect("map key is text").to_string();
                let v = src();
                let slot = get_path_mut(&mut root, path);
                if !slot.is_object() {
                    *slot = Value::Object(Map::new());
                }
                slot.as_object_mut().unwrap().insert(key, v);
            }
            other => panic!("unknown expect transform {other}"),
        }
    }
    root
}

/// First difference between expected and observed JSON (None = equal). Numbers compare by value.
pub fn diff(path: &str, want: &Value, got: &Value) -> Option<String> {
    match (want, got) {
        (Value::Object(a), Value::Object(b)) => {
            for (k, va) in a {
                match b.get(k) {
                    None => return Some(format!("{path}.{k}: missing (expected {va})")),
                    Some(vb) => {
                        if let Some(d) = diff(&format!("{path}.{k}"), va, vb) {
                            return Some(d);
                        }
                    }
                }
            }
            for k in b.keys() {
                if !a.contains_key(k) {
                    return Some(format!("{path}.{k}: unexpected {}", b[k]));
                }
            }
            None
        }
        (Value::Array(a), Value::Array(b)) => {
            if a.len() != b.len() {
                return Some(format!("{path}: length {} expected, {} observed", a.len(), b.len()));
            }
            for (i, (x, y)) in a.iter().zip(b).enumerate() {
                if let Some(d) = diff(&format!("{path}[{i}]"), x, y) {
                    return Some(d);
                }
            }
            None
        }
        (Value::Number(a), Value::Number(b)) => {
            let eq = if let (Some(x), Some(y)) = (a.as_u64(), b.as_u64()) {
                x == y
            } else if let (Some(x), Some(y)) = (a.as_i64(), b.as_i64()) {
                x == y
            } else {
                a.as_f64() == b.as_f64()
            };
            if eq {
                None
            } else {
                Some(format!("{path}: expected {a}, observed {b}"))
            }
        }
        (a, b) => {
            if a == b {
                None
            } else {
                let mut sa = a.to_string();
                let mut sb = b.to_string();
                if sa.len() > 120 {
                    sa = sa.chars().take(120).collect();
                }
                if sb.len() > 120 {
                    sb = sb.chars().take(120).collect();
                }
                Some(format!("{path}: expected {sa}, observed {sb}"))
            }
        }
    }
}

/// Strip `[n]`, digits and quoted data from a diff so that signatures group by field, not by value.
pub fn diff_class(d: &str) -> String {
    let head = d.split(':').next().unwrap_or(d);
    let mut out = String::new();
    let mut in_idx = false;
    for c in head.chars() {
        match c {
            '[' => {
                in_idx = true;
                out.push_str("[]");
            }
            ']' => in_idx = false,
            _ if in_idx => {}
            _ => out.push(c),
        }
    }
    out
}

pub struct LayoutSet {
    pub all: Vec<Value>,
}

impl LayoutSet {
    pub fn load(path: &str) -> Self { LayoutSet { all: read_ndjson(path) } }
    pub fn of<'a>(&'a self, proto: &str, sec: &str) -> Vec<&'a Value> {
        self.all
            .iter()
            .filter(|l| l["proto"] == proto && l["sec"] == sec)
            .collect()
    }
    pub fn pick<'a>(&'a self, rng: &mut StdRng, proto: &str, sec: &str) -> &'a Value {
        let c = self.of(proto, sec);
        assert!(!c.is_empty(), "no layout for {proto}/{sec}");
        c[rng.gen_range(0 .. c.len())]
    }
}
