//! C20: the game-id naming checker against IdRules.tla shapes; verdict histories recorded for Trace_IdRules.tla.
use crate::util::*;
use gamedig_id_tests::{test_game_name_rules, test_single_game_rule};
use rand::prelude::*;
use serde_json::{json, Value};
use std::panic::{catch_unwind, AssertUnwindSafe};

fn word(rng: &mut StdRng) -> String {
    let n = rng.gen_range(2 ..= 8);
    let mut s = String::new();
    s.push(rng.gen_range(b'A' ..= b'Z') as char);
    for _ in 1 .. n {
        s.push(rng.gen_range(b'a' ..= b'z') as char);
    }
    s
}

/// A number token: the grammar puts no bound on a number's size; `wide` shapes draw from the boundaries of the machine
/// integer types as well (IdRules.tla: mag).
fn number(rng: &mut StdRng, wide: bool, small: &[u64]) -> String {
    const WIDE: [&str; 12] = ["0", "255", "256", "32767", "65535", "65536", "99999", "100000", "2147483648", "4294967295", "4294967296",
                              "18446744073709551616"];
    if wide && rng.gen_bool(0.7) {
        WIDE[rng.gen_range(0 .. WIDE.len())].to_string()
    } else {
        small[rng.gen_range(0 .. small.len())].to_string()
    }
}

pub fn name_of(rng: &mut StdRng, shape: &Value) -> String {
    let mut parts: Vec<String> = Vec::new();
    let wide = shape["mag"] == "wide";
    if shape["lead"] == true {
        parts.push([7u32, 12, 100, 3][rng.gen_range(0 .. 4)].to_string());
    }
    for t in shape["core"].as_array().unwrap() {
        parts.push(match t.as_str().unwrap() {
            "word" => word(rng),
            "acronym" => {
                let n = rng.gen_range(2 ..= 7);
                let dotted: String = (0 .. n).map(|_| format!("{}.", rng.gen_range(b'A' ..= b'Z') as char)).collect();
                if rng.gen_bool(0.5) { dotted } else { dotted.trim_end_matches('.').to_string() }
            }
            "roman" => ["II", "III", "IV", "V", "IX", "XIV", "MMXX"][rng.gen_range(0 .. 7)].to_string(),
            "num" => number(rng, wide, &[4, 66, 2042, 9]),
            "hyphen" => format!("{}-{}", word(rng), word(rng)),
            "alnum" => ["3D", "4x4", "7th", "2Fort", "Quake3", "F1", "R6", "X3"][rng.gen_range(0 .. 8)].to_string(),
            _ => {
                let (a, b) = (rng.gen_range(10 ..= 99), rng.gen_range(10 ..= 99));
                if rng.gen_bool(0.5) { format!("'{a}-'{b}") } else { format!("{a}-{b}") }
            }
        });
    }
    match shape["trail"].as_str().unwrap() {
        "num" => parts.push(number(rng, wide, &[2, 3, 4, 5, 6, 7, 8, 9])),
        "year" => parts.push(rng.gen_range(1990 ..= 2030u32).to_string()),
        _ => {}
    }
    let mut name = parts.join(" ");
    match shape["mod"].as_str().unwrap() {
        "word" => name += &format!(" - {}", word(rng)),
        "twowords" => name += &format!(" - {} {}", word(rng), word(rng)),
        _ => {}
    }
    match shape["bracket"].as_str().unwrap() {
        "year" => name += &format!(" ({})", rng.gen_range(1995 ..= 2025u32)),
        "edition" => name += &format!(" ({})", ["java", "bedrock", "legacy 1.6", "2003 edition"][rng.gen_range(0 .. 4)]),
        _ => {}
    }
    name
}

fn single(id: &str, name: &str) -> Result<Vec<String>, String> {
    let r = catch_unwind(AssertUnwindSafe(|| test_single_game_rule(id, name)));
    match r {
        Ok(fails) => Ok(fails.into_iter().map(|f| f.expected_id).collect()),
        Err(_) => Err(take_panic()),
    }
}

pub fn replay(shapes: &[Value], seed: u64, reps: usize, rep: &mut Report, trace: &mut Vec<Value>) {
    let mut rng = StdRng::seed_from_u64(seed);
    let panic_v = |rep: &mut Report, what: &str, name: &str, id: &str, msg: &str| {
        rep.violation(
            "C20",
            &format!("id checker panics ({what}): {}", crate::valve::first_line(msg)),
            json!({"kind":"idrules","name":name,"id":id,"panic":msg}),
        );
    };
    for shape in shapes {
        for _ in 0 .. reps {
            let name = name_of(&mut rng, shape);
            rep.evaluations += 1;
            let start = trace.len();
            trace.push(json!({"ev":"Name","name":name}));
            // a wrong (lower-case alphanumeric) id: the checker reports what it expects
            let wrong = format!("zz{}", rng.gen_range(100 ..= 999));
            let reported = match single(&wrong, &name) {
                Ok(r) => r,
                Err(msg) => {
                    panic_v(rep, "wrong id proposed", &name, &wrong, &msg);
                    trace.truncate(start);
                    continue;
                }
            };
            trace.push(json!({"ev":"Wrong","id":wrong,"reported":reported}));
            // a different wrong id must elicit the same expectations
            let wrong2 = format!("q{}", rng.gen_range(1000 ..= 9999));
            match single(&wrong2, &name) {
                Ok(r2) => {
                    let mut a = reported.clone();
                    let mut b = r2.clone();
                    a.sort();
                    b.sort();
                    if a != b {
                        rep.violation(
                            "C20",
                            "id checker: the expected ids it reports depend on which wrong id was proposed",
                            json!({"kind":"idrules","name":name,"wrong":[wrong, wrong2],"reported":[reported, r2]}),
                        );
                    }
                }
                Err(msg) => {
                    panic_v(rep, "wrong id proposed", &name, &wrong2, &msg);
                    trace.truncate(start);
                    continue;
                }
            }
            let mut candidates: Vec<String> = reported.clone();
            // near misses of EVERY reported id (the full-name id and the mod-part id): a letter appended, the last one dropped,
            // upper case, only the first / only the last letter in upper case
            for r in reported.clone() {
                let mut near = vec![format!("{r}x"), r.to_uppercase()];
                if r.len() > 1 {
                    near.push(r[.. r.len() - 1].to_string());
                }
                if let Some(f) = r.chars().next() {
                    near.push(f.to_uppercase().collect::<String>() + &r[f.len_utf8() ..]);
                }
                if let Some(l) = r.chars().last() {
                    near.push(r[.. r.len() - l.len_utf8()].to_string() + &l.to_uppercase().collect::<String>());
                }
                for c in near {
                    if !candidates.contains(&c) {
                        candidates.push(c);
                    }
                }
            }
            // every number written in the name (inner, trailing, bracketed year) attached to / removed from a reported id: the ids a
            // contributor would plausibly try
            let numbers: Vec<String> = {
                let mut v = Vec::new();
                let mut cur = String::new();
                for ch in name.chars().chain(std::iter::once(' ')) {
                    if ch.is_ascii_digit() {
                        cur.push(ch);
                    } else if !cur.is_empty() {
                        v.push(std::mem::take(&mut cur));
                    }
                }
                v
            };
            for r in reported.clone() {
                for d in &numbers {
                    let short = if d.len() > 2 { d[d.len() - 2 ..].to_string() } else { d.clone() };
                    for c in [format!("{r}{d}"), format!("{d}{r}"), format!("{r}{short}"), r.replacen(d.as_str(), "", 1)] {
                        if !c.is_empty() && !candidates.contains(&c) {
                            candidates.push(c);
                        }
                    }
                }
            }
            // ids the checker expects for closely related names (the hyphen dropped, each side of it alone, the bracket dropped):
            // plausible ids for this name that it may not have reported - whichever of them it accepts it must also have reported
            if name.contains('-') || name.contains('(') {
                let mut related: Vec<String> = vec![name.replace(" - ", " ").replace('-', " ")];
                if let Some((a, b)) = name.split_once('-') {
                    related.push(a.trim().to_string());
                    related.push(b.trim().to_string());
                }
                if let Some((a, _)) = name.split_once(" (") {
                    related.push(a.trim().to_string());
                }
                for rn in related {
                    if rn.trim().is_empty() || !rn.chars().any(|c| c.is_alphabetic()) {
                        continue;
                    }
                    if let Ok(ids) = single(&wrong, &rn) {
                        for i in ids {
                            if !candidates.contains(&i) {
                                candidates.push(i);
                            }
                        }
                    }
                }
            }
            let mut bad = false;
            for c in candidates {
                match single(&c, &name) {
                    Ok(f) => {
                        let accepted = f.is_empty();
                        trace.push(json!({"ev":"Propose","id":c,"accepted":accepted}));
                        if accepted != reported.contains(&c) {
                            rep.violation(
                                "C20",
                                if accepted { "id checker accepts an id it does not report as expected" } else { "id checker rejects an id it reports as expected" },
                                json!({"kind":"idrules","name":name,"id":c,"reported":reported,"fails":f}),
                            );
                            bad = true;
                        }
                    }
                    Err(msg) => {
                        panic_v(rep, "candidate id proposed", &name, &c, &msg);
                        bad = true;
                    }
                }
            }
            if bad {
                trace.truncate(start);
            }
        }
        rep.distinct.insert(hash_of(&shape.to_string()));
        rep.sample(&json!({"shape": shape, "example": name_of(&mut rng, shape)}));
    }
    // lists of 1-4 games: totality
    for _ in 0 .. (shapes.len() * reps / 4).max(50) {
        let k = rng.gen_range(1 ..= 4);
        let mut names: Vec<String> = Vec::new();
        let games: Vec<(String, String)> = (0 .. k)
            .map(|_| {
                let s = &shapes[rng.gen_range(0 .. shapes.len())];
                // repeated names (the same game twice, a re-release with a year, a mod of an earlier game) exercise the duplicate rules
                let name = if !names.is_empty() && rng.gen_bool(0.4) {
                    let prev = names[rng.gen_range(0 .. names.len())].clone();
                    match rng.gen_range(0 .. 4) {
                        0 => prev,
                        1 => format!("{} ({})", prev.split(" (").next().unwrap(), rng.gen_range(2000 ..= 2024u32)),
                        2 => format!("{} - {}", name_of(&mut rng, s).split(" - ").next().unwrap().split(" (").next().unwrap(), prev.split(" (").next().unwrap()),
                        _ => format!("{} (edition)", prev.split(" (").next().unwrap()),
                    }
                } else {
                    name_of(&mut rng, s)
                };
                names.push(name.clone());
                // the id the checker itself expects (so that duplicate handling, years and protocols interact), or a wrong one
                let id = single("zz", &name).ok().and_then(|r| r.last().cloned()).unwrap_or_else(|| "zz".into());
                // (wrong ids of several kinds: one game can fail several rules at once - more failures than games)
                let id = match rng.gen_range(0 .. 10) {
                    0 ..= 5 => id,
                    6 | 7 => "other".into(),
                    8 => "OtherID".into(),
                    _ => id.to_uppercase(),
                };
                (id, name)
            })
            .collect();
        rep.evaluations += 1;
        let r = catch_unwind(AssertUnwindSafe(|| test_game_name_rules(games.iter().map(|(i, n)| (i.as_str(), n.as_str()))).len()));
        match r {
            Ok(_) => trace.push(json!({"ev":"List","n":k,"ok":true})),
            Err(_) => {
                let msg = take_panic();
                rep.violation("C20", &format!("id checker panics (list of games): {}", crate::valve::first_line(&msg)),
                              json!({"kind":"idrules-list","games":games,"panic":msg}));
            }
        }
    }
    // the shipped table passes
    let r = catch_unwind(|| test_game_name_rules(gamedig::GAMES.entries().map(|(id, g)| (id.to_owned(), g.name))).len());
    match r {
        Ok(n) => {
            trace.push(json!({"ev":"Table","fails":n}));
            if n != 0 {
                rep.violation("C20", "the shipped definitions table does not pass the naming rules", json!({"kind":"idrules-table","fails":n}));
            }
        }
        Err(_) => rep.violation("C20", "id checker panics on the shipped definitions table", json!({"kind":"idrules-table","panic":take_panic()})),
    }
}
