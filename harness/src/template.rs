//! Recogniser for the request templates exported by spec/Templates.tla.
use crate::util::*;
use serde_json::{json, Value};
use std::collections::HashMap;

pub struct Templates {
    pub all: Vec<Value>,
}

fn varint(data: &[u8], pos: &mut usize) -> Option<i32> {
    let mut r: u32 = 0;
    for i in 0 .. 5 {
        let b = *data.get(*pos)?;
        *pos += 1;
        r |= ((b & 0x7f) as u32) << (7 * i);
        if i == 4 && b > 0x0f {
            return None;
        }
        if b & 0x80 == 0 {
            // a request carries the encoding the protocol's writer produces: no group of zero bits after the last significant one
            // (VarInt.tla EncShape); a longer spelling of the same number is not "the protocol's bytes"
            if i > 0 && b == 0 {
                return None;
            }
            return Some(r as i32);
        }
    }
    None
}

/// Match `data` against one template; returns slot values on success.
pub fn match_items(items: &[Value], data: &[u8]) -> Option<HashMap<String, Value>> {
    let mut pos = 0usize;
    let mut slots = HashMap::new();
    for (idx, it) in items.iter().enumerate() {
        let last = idx + 1 == items.len();
        match it["k"].as_str()? {
            "lit" => {
                for b in it["b"].as_array()? {
                    if data.get(pos).copied()? != b.as_u64()? as u8 {
                        return None;
                    }
                    pos += 1;
                }
            }
            "txt" => {
                for b in it["s"].as_str()?.as_bytes() {
                    if data.get(pos)? != b {
                        return None;
                    }
                    pos += 1;
                }
            }
            "slot" => {
                let name = it["f"].as_str()?.to_string();
                match it["ty"].as_str()? {
                    "bytes4" => {
                        let s = data.get(pos .. pos + 4)?;
                        slots.insert(name, json!(hex::encode(s)));
                        pos += 4;
                    }
                    "bytes8" => {
                        let s = data.get(pos .. pos + 8)?;
                        slots.insert(name, json!(hex::encode(s)));
                        pos += 8;
                    }
                    "optbytes4" => {
                        // only as the final item: nothing, or exactly four bytes
                        if !last {
                            return None;
                        }
                        match data.len() - pos {
                            0 => {
                                slots.insert(name, Value::Null);
                            }
                            4 => {
                                slots.insert(name, json!(hex::encode(&data[pos ..])));
                                pos += 4;
                            }
                            _ => return None,
                        }
                    }
                    "opti32be" => {
                        // followed by a fixed literal tail: present iff 4 more bytes than the tail remain
                        let tail: usize = items[idx + 1 ..]
                            .iter()
                            .map(|t| t["b"].as_array().map_or(0, |a| a.len()))
                            .sum();
                        match (data.len() - pos).checked_sub(tail)? {
                            0 => {
                                slots.insert(name, Value::Null);
                            }
                            4 => {
                                let v = i32::from_be_bytes(data[pos .. pos + 4].try_into().ok()?);
                                slots.insert(name, json!(v));
                                pos += 4;
                            }
                            _ => return None,
                        }
                    }
                    "u8" => {
                        slots.insert(name, json!(data.get(pos).copied()?));
                        pos += 1;
                    }
                    "u16be" => {
                        let s = data.get(pos .. pos + 2)?;
                        slots.insert(name, json!(u16::from_be_bytes([s[0], s[1]])));
                        pos += 2;
                    }
                    "varint" => {
                        slots.insert(name, json!(varint(data, &mut pos)?));
                    }
                    "framelen" => {
                        // VarInt that must equal the number of bytes that follow it
                        let v = varint(data, &mut pos)?;
                        if v < 0 || v as usize != data.len() - pos {
                            return None;
                        }
                        slots.insert(name, json!(v));
                    }
                    "mcstr" => {
                        let n = varint(data, &mut pos)?;
                        if n < 0 {
                            return None;
                        }
                        let s = data.get(pos .. pos + n as usize)?;
                        slots.insert(name, json!(String::from_utf8(s.to_vec()).ok()?));
                        pos += n as usize;
                    }
                    "cstr" => {
                        let end = data[pos ..].iter().position(|b| *b == 0)? + pos;
                        slots.insert(name, json!(hex::encode(&data[pos .. end])));
                        pos = end + 1;
                    }
                    "rest" => {
                        slots.insert(name, json!(hex::encode(&data[pos ..])));
                        pos = data.len();
                    }
                    _ => return None,
                }
            }
            _ => return None,
        }
    }
    if pos == data.len() {
        Some(slots)
    } else {
        None
    }
}

impl Templates {
    pub fn load(path: &str) -> Self { Templates { all: read_ndjson(path) } }

    /// Recognise a sent byte string as one of the templates of `family`.
    pub fn recognise(&self, family: &str, data: &[u8]) -> Option<(String, HashMap<String, Value>)> {
        for t in &self.all {
            if !t["families"].as_array().map_or(false, |f| f.iter().any(|x| x == family)) {
                continue;
            }
            if let Some(slots) = match_items(t["items"].as_array().unwrap(), data) {
                return Some((t["name"].as_str().unwrap().to_string(), slots));
            }
        }
        None
    }

    pub fn get(&self, name: &str) -> &Value {
        self.all
            .iter()
            .find(|t| t["name"] == name)
            .unwrap_or_else(|| panic!("no template {name}"))
    }
}

/// Java sends handshake, status request and ping as separate writes; each write is one framed packet:
/// VarInt length + body. Strip the frame and return the body for template matching.
pub fn java_unframe(data: &[u8]) -> Option<&[u8]> {
    let mut pos = 0;
    let n = varint(data, &mut pos)?;
    if n < 0 || n as usize != data.len() - pos {
        return None;
    }
    Some(&data[pos ..])
}
