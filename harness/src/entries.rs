//! Registry of public query entry points: name -> call through the scripted transport.
use crate::proto;
use crate::transport::*;
use crate::valve::{addr, engine_of, timeouts, toggle};
use gamedig::games::*;
use gamedig::protocols::types::{ExtraRequestSettings, TimeoutSettings};
use gamedig::protocols::valve::GatheringSettings;
use gamedig::GAMES;
use serde_json::{json, Value};
use std::net::IpAddr;

macro_rules! modules {
    ($( $id:literal => $m:ident ),* $(,)?) => {
        /// per-game modules: definition id -> `games::<module>::query(ip, port)`
        pub fn call_module(id: &str, script: &ScriptJ, ip: &IpAddr, port: Option<u16>) -> Option<CallRecord> {
            match id {
                $( $id => Some(run_call(script, DEFAULT_MAX_OPS, || $m::query(ip, port))), )*
                _ => None,
            }
        }
        pub const MODULE_IDS: &[&str] = &[ $( $id ),* ];
    };
}

modules! {
    "abioticfactor" => abioticfactor, "a2oa" => a2oa, "basedefense" => basedefense, "alienswarm" => alienswarm, "aoc" => aoc,
    "aapg" => aapg, "ase" => ase, "asrd" => asrd, "atlas" => atlas, "avorion" => avorion, "ballisticoverkill" => ballisticoverkill,
    "armareforger" => armareforger, "avp2010" => avp2010, "barotrauma" => barotrauma, "blackmesa" => blackmesa,
    "brainbread2" => brainbread2, "codbo3" => codbo3, "codenamecure" => codenamecure, "colonysurvival" => colonysurvival,
    "conanexiles" => conanexiles, "counterstrike" => counterstrike, "counterstrike2" => counterstrike2, "creativerse" => creativerse,
    "cscz" => cscz, "csgo" => csgo, "css" => css, "dab" => dab, "dod" => dod, "dods" => dods, "doi" => doi, "dst" => dst,
    "enshrouded" => enshrouded, "garrysmod" => garrysmod, "hl2d" => hl2d, "hlds" => hlds, "hll" => hll, "imic" => imic,
    "insurgency" => insurgency, "insurgencysandstorm" => insurgencysandstorm, "l4d" => l4d, "l4d2" => l4d2, "ohd" => ohd,
    "onset" => onset, "postscriptum" => postscriptum, "projectzomboid" => projectzomboid, "risingworld" => risingworld,
    "ror2" => ror2, "rust" => rust, "sco" => sco, "sdtd" => sdtd, "soulmask" => soulmask, "squad" => squad,
    "starbound" => starbound, "teamfortress2" => teamfortress2, "tfc" => tfc, "theforest" => theforest, "thefront" => thefront,
    "unturned" => unturned, "valheim" => valheim, "vrising" => vrising, "zps" => zps, "moe" => moe, "mordhau" => mordhau,
    "pvak2" => pvak2, "nla" => nla, "pixark" => pixark,
    "battalion1944" => battalion1944,
    "battlefield1942" => battlefield1942, "crysiswars" => crysiswars, "hce" => hce, "serioussam" => serioussam,
    "unrealtournament" => unrealtournament,
    "quake1" => quake1, "quake2" => quake2, "q3a" => q3a, "sof2" => sof2, "warsow" => warsow,
    "dhe4445" => darkesthour, "devastation" => devastation, "killingfloor" => killingfloor, "redorchestra" => redorchestra,
    "unrealtournament2003" => ut2003, "unrealtournament2004" => ut2004,
    "theship" => theship, "ffow" => ffow, "jc2m" => jc2m, "savage2" => savage2,
}

pub fn timeouts_of(cfg: &Value) -> Option<TimeoutSettings> {
    match cfg.get("retries").and_then(|r| r.as_u64()) {
        None => None,
        Some(r) => timeouts(r as usize),
    }
}

pub fn extra_of(cfg: &Value) -> Option<ExtraRequestSettings> {
    let e = cfg.get("extra")?;
    if e.is_null() {
        return None;
    }
    let mut x = ExtraRequestSettings::default();
    if let Some(h) = e["hostname"].as_str() {
        x = x.set_hostname(h.to_string());
    }
    if let Some(p) = e["protocol_version"].as_i64() {
        x = x.set_protocol_version(p as i32);
    }
    if let Some(p) = e["gather_players"].as_str() {
        x = x.set_gather_players(toggle(p));
    }
    if let Some(p) = e["gather_rules"].as_str() {
        x = x.set_gather_rules(toggle(p));
    }
    if let Some(p) = e["check_app_id"].as_bool() {
        x = x.set_check_app_id(p);
    }
    Some(x)
}

/// Protocol family (Hostile.tla EntryTable) of a definition row.
pub fn family_of_game(id: &str) -> &'static str {
    use gamedig::protocols::types::{ProprietaryProtocol as P, Protocol};
    match &GAMES.get(id).expect("game id").protocol {
        Protocol::Valve(_) => "valve",
        Protocol::Gamespy(v) => {
            match v {
                gamedig::protocols::gamespy::GameSpyVersion::One => "gs1",
                gamedig::protocols::gamespy::GameSpyVersion::Two => "gs2",
                gamedig::protocols::gamespy::GameSpyVersion::Three => "gs3",
            }
        }
        Protocol::Quake(_) => "quake",
        Protocol::Unreal2 => "unreal2",
        Protocol::PROPRIETARY(p) => {
            match p {
                P::TheShip => "valve",
                P::FFOW => "ffow",
                P::JC2M => "jc2m",
                P::Savage2 => "savage2",
                P::Mindustry => "mindustry",
                P::Eco => "eco",
                P::Minecraft(None) => "mcauto",
                P::Minecraft(Some(minecraft::Server::Java)) => "java",
                P::Minecraft(Some(minecraft::Server::Bedrock)) => "bedrock",
                P::Minecraft(Some(minecraft::Server::Legacy(_))) => "legacy",
            }
        }
    }
}

/// the builder (layout protocol + entry) whose replies suit a definition row
pub fn base_of_game(id: &str) -> &'static str {
    use gamedig::protocols::types::{ProprietaryProtocol as P, Protocol};
    match &GAMES.get(id).expect("game id").protocol {
        Protocol::Valve(_) => "valve",
        Protocol::Gamespy(v) => {
            match v {
                gamedig::protocols::gamespy::GameSpyVersion::One => "gs1",
                gamedig::protocols::gamespy::GameSpyVersion::Two => "gs2",
                gamedig::protocols::gamespy::GameSpyVersion::Three => "gs3",
            }
        }
        Protocol::Quake(v) => {
            match v {
                gamedig::protocols::quake::QuakeVersion::One => "quake1",
                gamedig::protocols::quake::QuakeVersion::Two => "quake2",
                gamedig::protocols::quake::QuakeVersion::Three => "quake3",
            }
        }
        Protocol::Unreal2 => "unreal2",
        Protocol::PROPRIETARY(p) => {
            match p {
                P::TheShip => "valve",
                P::FFOW => "ffow",
                P::JC2M => "jc2m",
                P::Savage2 => "savage2",
                P::Mindustry => "mindustry",
                P::Eco => "eco",
                P::Minecraft(None) => "mcauto",
                P::Minecraft(Some(minecraft::Server::Java)) => "java",
                P::Minecraft(Some(minecraft::Server::Bedrock)) => "bedrock",
                P::Minecraft(Some(minecraft::Server::Legacy(g))) => {
                    match g {
                        minecraft::LegacyGroup::V1_6 => "legacy16",
                        minecraft::LegacyGroup::V1_4 => "legacy14",
                        minecraft::LegacyGroup::VB1_8 => "legacyb18",
                    }
                }
            }
        }
    }
}

/// Call an entry point by name. cfg: {port: n|null, retries: n|null, engine, gp, gr, check, extra, region..}
pub fn call_entry(name: &str, cfg: &Value, script: &ScriptJ) -> CallRecord {
    let port_opt: Option<u16> = cfg.get("port").and_then(|p| p.as_u64()).map(|p| p as u16);
    let a = addr(port_opt.unwrap_or(27015));
    let ip = a.ip();
    let t = timeouts_of(cfg);
    let m = DEFAULT_MAX_OPS;
    if let Some(id) = name.strip_prefix("generic:") {
        let game = GAMES.get(id).expect("game id");
        let extra = extra_of(cfg);
        return run_call_json(script, m, || {
            match query_with_timeout_and_extra_settings(game, &ip, port_opt, t, extra) {
                Ok(r) => Ok(view_json(r.as_ref())),
                Err(e) => Err(format!("{:?}", e.kind)),
            }
        });
    }
    if let Some(id) = name.strip_prefix("module:") {
        return call_module(id, script, &ip, port_opt).unwrap_or_else(|| panic!("no module for {id}"));
    }
    if let Some(e) = name.strip_prefix("proto:") {
        let gather = match (cfg.get("gp").and_then(|x| x.as_str()), cfg.get("gr").and_then(|x| x.as_str())) {
            (Some(p), Some(r)) => Some((p, r)),
            _ => None,
        };
        return proto::call(e, script, a.port(), cfg.get("retries").and_then(|r| r.as_u64()).unwrap_or(0) as usize, gather);
    }
    match name {
        "valve::query" => {
            let engine = engine_of(&cfg["engine"]);
            let g = GatheringSettings {
                players: toggle(cfg["gp"].as_str().unwrap_or("Try")),
                rules: toggle(cfg["gr"].as_str().unwrap_or("Try")),
                check_app_id: cfg["check"].as_bool().unwrap_or(true),
            };
            run_call(script, m, || gamedig::protocols::valve::query(&a, engine, Some(g), t))
        }
        "mc::query" => run_call(script, m, || minecraft::protocol::query(&a, t, None)),
        "mc::query_legacy" => run_call(script, m, || minecraft::protocol::query_legacy(&a, t)),
        "mcgame::query" => run_call(script, m, || minecraft::query(&ip, port_opt)),
        "mcgame::query_java" => run_call(script, m, || minecraft::query_java(&ip, port_opt, None)),
        "mcgame::query_bedrock" => run_call(script, m, || minecraft::query_bedrock(&ip, port_opt)),
        "mcgame::query_legacy" => run_call(script, m, || minecraft::query_legacy(&ip, port_opt)),
        "theship::query" => run_call(script, m, || theship::query_with_timeout(&ip, port_opt, t)),
        "battalion1944::query" => run_call(script, m, || battalion1944::query(&ip, port_opt)),
        "master::query" | "master::query_specific" => {
            use gamedig::valve_master_server::{Region, ValveMasterServer};
            let specific = name.ends_with("specific");
            run_call(script, m, || {
                let mut ms = ValveMasterServer::new(&a)?;
                let r = if specific {
                    ms.query_specific(Region::Europe, &None, "0.0.0.0", 0)?
                } else {
                    ms.query(Region::Europe, None)?
                };
                Ok(r.iter().map(|(ip, p)| format!("{ip}:{p}")).collect::<Vec<_>>())
            })
        }
        n => panic!("unknown entry {n}"),
    }
}

/// Hostile.tla family of an entry name
pub fn family_of(name: &str) -> &'static str {
    if let Some(id) = name.strip_prefix("generic:").or_else(|| name.strip_prefix("module:")) {
        return family_of_game(id);
    }
    if let Some(e) = name.strip_prefix("proto:") {
        return match e {
            "quake1" | "quake2" | "quake3" => "quake",
            "gs1" | "gs1vars" => "gs1",
            "gs3" | "gs3vars" => "gs3",
            "legacy16" | "legacy14" | "legacyb18" => "legacy",
            "gs2" => "gs2",
            "jc2m" => "jc2m",
            "unreal2" => "unreal2",
            "java" => "java",
            "bedrock" => "bedrock",
            "ffow" => "ffow",
            "savage2" => "savage2",
            "mindustry" => "mindustry",
            x => panic!("family of {x}"),
        };
    }
    match name {
        "valve::query" | "theship::query" | "battalion1944::query" => "valve",
        "mc::query" | "mcgame::query" => "mcauto",
        "mc::query_legacy" | "mcgame::query_legacy" => "mclegacyauto",
        "mcgame::query_java" => "java",
        "mcgame::query_bedrock" => "bedrock",
        "master::query" | "master::query_specific" => "master",
        n => panic!("family of {n}"),
    }
}


/// original (as_original), common (as_json) and the value of every accessor called directly
pub fn view_json(r: &dyn gamedig::protocols::types::CommonResponse) -> Value {
    let players = r.players().map(|ps| {
        ps.iter()
            .map(|p| {
                json!({"name": p.name(), "score": p.score(), "as_json": serde_json::to_value(p.as_json()).unwrap(),
                       "as_original": serde_json::to_value(p.as_original()).unwrap()})
            })
            .collect::<Vec<_>>()
    });
    json!({
        "original": serde_json::to_value(r.as_original()).unwrap(),
        "common": serde_json::to_value(r.as_json()).unwrap(),
        "accessors": {
            "name": r.name(), "description": r.description(), "game_mode": r.game_mode(), "game_version": r.game_version(),
            "map": r.map(), "players_maximum": r.players_maximum(), "players_online": r.players_online(),
            "players_bots": r.players_bots(), "has_password": r.has_password(), "players": players,
        },
    })
}
