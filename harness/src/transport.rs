//! Script / event JSON forms and the call wrapper (Call -> events -> Return | Panic).
use gamedig::verif_hook as hook;
use serde::{Deserialize, Serialize};
use serde_json::{json, Value};
use std::panic::{catch_unwind, AssertUnwindSafe};

#[derive(Debug, Clone, Default, Serialize, Deserialize, PartialEq)]
pub struct ReactionJ {
    #[serde(default)]
    pub fail: bool,
    #[serde(default)]
    pub batch: Vec<String>, // hex
    #[serde(default)]
    pub close: bool,
}

#[derive(Debug, Clone, Default, Serialize, Deserialize, PartialEq)]
pub struct ConnJ {
    #[serde(default)]
    pub refuse: bool,
    #[serde(default)]
    pub on_send: Vec<ReactionJ>,
}

#[derive(Debug, Clone, Default, Serialize, Deserialize, PartialEq)]
pub struct ScriptJ {
    pub conns: Vec<ConnJ>,
}

pub fn hex(b: &[u8]) -> String { hex::encode(b) }
pub fn unhex(s: &str) -> Vec<u8> { hex::decode(s).expect("bad hex in script") }

impl ScriptJ {
    pub fn to_hook(&self, max_ops: usize) -> hook::Script {
        hook::Script {
            conns: self
                .conns
                .iter()
                .map(|c| {
                    hook::ConnScript {
                        refuse: c.refuse,
                        on_send: c
                            .on_send
                            .iter()
                            .map(|r| {
                                hook::Reaction {
                                    fail: r.fail,
                                    batch: r.batch.iter().map(|h| unhex(h)).collect(),
                                    close: r.close,
                                }
                            })
                            .collect(),
                    }
                })
                .collect(),
            max_ops,
        }
    }

    /// one UDP connection answering the n-th send with the n-th batch
    pub fn udp(batches: Vec<Vec<Vec<u8>>>) -> Self {
        ScriptJ {
            conns: vec![ConnJ {
                refuse: false,
                on_send: batches
                    .into_iter()
                    .map(|b| {
                        ReactionJ {
                            fail: false,
                            batch: b.iter().map(|d| hex(d)).collect(),
                            close: false,
                        }
                    })
                    .collect(),
            }],
        }
    }
}

#[derive(Debug, Clone, PartialEq)]
pub enum Outcome {
    Ok(Value),
    Err(String),
    Panic { msg: String },
    Hang,
}

impl Outcome {
    pub fn class(&self) -> &'static str {
        match self {
            Outcome::Ok(_) => "ok",
            Outcome::Err(_) => "err",
            Outcome::Panic { .. } => "panic",
            Outcome::Hang => "hang",
        }
    }
    pub fn to_json(&self) -> Value {
        match self {
            Outcome::Ok(v) => json!({"ok": true, "value": v}),
            Outcome::Err(k) => json!({"ok": false, "err": k}),
            Outcome::Panic { msg } => json!({"panic": msg}),
            Outcome::Hang => json!({"hang": true}),
        }
    }
    pub fn err_kind(&self) -> Option<&str> {
        match self {
            Outcome::Err(k) => Some(k),
            _ => None,
        }
    }
    pub fn is_timeout_class(&self) -> bool { matches!(self.err_kind(), Some("PacketReceive") | Some("PacketSend")) }
}

#[derive(Debug, Clone)]
pub struct CallRecord {
    pub events: Vec<hook::Event>,
    pub outcome: Outcome,
    pub alloc_peak: usize,
    pub alloc_max: usize,
}

pub const DEFAULT_MAX_OPS: usize = 20_000;

// ---- wall-clock watchdog -----------------------------------------------------------------------------------------
// The socket-operation bound catches an exchange that never ends; a loop that spins without touching a socket is caught
// here: every call registers itself, a watchdog thread ends the process (exit status 97) when one call has been running
// for WATCHDOG_SECS, after writing the call's script to <report>.hang. (No library call legitimately takes that long on the
// scripted transport: nothing blocks.)
pub const WATCHDOG_SECS: u64 = 40;

struct Slot {
    started: Option<std::time::Instant>,
    /// CPU time of the calling thread when the call started, and the clock that measures it: a call that spins burns CPU
    /// time; a call that is merely starved on an overloaded machine does not, and is not a hang
    cpu_at_start: f64,
    cpu_clock: libc::clockid_t,
    script: Option<ScriptJ>,
    context: String,
}

fn cpu_secs(clock: libc::clockid_t) -> f64 {
    let mut ts = libc::timespec { tv_sec: 0, tv_nsec: 0 };
    // SAFETY: plain clock_gettime on a clock id obtained from pthread_getcpuclockid
    if unsafe { libc::clock_gettime(clock, &mut ts) } != 0 {
        return f64::MAX; // the thread is gone: treat as "burnt enough" (wall time decides)
    }
    ts.tv_sec as f64 + ts.tv_nsec as f64 / 1e9
}
/// CPU seconds a call must have burnt (on top of WATCHDOG_SECS of wall time) to count as spinning
pub const WATCHDOG_CPU_SECS: f64 = 20.0;

static SLOTS: std::sync::Mutex<Vec<std::sync::Arc<std::sync::Mutex<Slot>>>> = std::sync::Mutex::new(Vec::new());
static HANG_FILE: std::sync::Mutex<Option<String>> = std::sync::Mutex::new(None);

thread_local! {
    static MY_SLOT: std::sync::Arc<std::sync::Mutex<Slot>> = {
        let mut clock: libc::clockid_t = 0;
        // SAFETY: pthread_self is always valid for the calling thread
        unsafe { libc::pthread_getcpuclockid(libc::pthread_self(), &mut clock) };
        let s = std::sync::Arc::new(std::sync::Mutex::new(Slot { started: None, cpu_at_start: 0.0, cpu_clock: clock, script: None, context: String::new() }));
        SLOTS.lock().unwrap().push(s.clone());
        s
    };
}

/// what the current thread is working on (entry point, case), for the watchdog's report
pub fn set_context(c: &str) { MY_SLOT.with(|s| s.lock().unwrap().context = c.to_string()); }

pub fn start_watchdog(hang_file: String) {
    *HANG_FILE.lock().unwrap() = Some(hang_file);
    std::thread::spawn(|| loop {
        std::thread::sleep(std::time::Duration::from_millis(500));
        let slots: Vec<_> = SLOTS.lock().unwrap().clone();
        for s in slots {
            let g = s.lock().unwrap();
            if let Some(t) = g.started {
                if t.elapsed().as_secs() >= WATCHDOG_SECS && cpu_secs(g.cpu_clock) - g.cpu_at_start >= WATCHDOG_CPU_SECS {
                    let j = json!({"kind":"hang-watchdog","context":g.context,"script":g.script,"seconds":t.elapsed().as_secs()});
                    if let Some(p) = HANG_FILE.lock().unwrap().as_ref() {
                        let _ = std::fs::write(p, j.to_string());
                    }
                    eprintln!("WATCHDOG: a call has not returned for {} s without exceeding the socket-operation bound ({})", t.elapsed().as_secs(), g.context);
                    std::process::exit(97);
                }
            }
        }
    });
}

fn enter(script: &ScriptJ) {
    MY_SLOT.with(|s| {
        let mut g = s.lock().unwrap();
        g.started = Some(std::time::Instant::now());
        g.cpu_at_start = cpu_secs(g.cpu_clock);
        g.script = Some(script.clone());
    });
}

fn leave() {
    MY_SLOT.with(|s| {
        let mut g = s.lock().unwrap();
        g.started = None;
        g.script = None;
    });
}

/// The scripted transport records every request and every delivered datagram on the calling thread, inside the call: those
/// copies are the recorder's memory, not the library's, and are taken off the measured peak (a lower bound of the library's own
/// peak - never an over-estimate; a client that legitimately echoes a large challenge a thousand times is not charged for the log).
fn recorded_bytes(events: &[hook::Event]) -> usize {
    events
        .iter()
        .map(|e| {
            match e {
                hook::Event::Send { data, .. } => data.len(),
                hook::Event::Recv { out: hook::RecvOut::Data(d), .. } => d.len(),
                _ => 0,
            }
        })
        .sum()
}

/// Run `f` (a public entry point of the library) against the scripted transport.
pub fn run_call<T: Serialize>(
    script: &ScriptJ,
    max_ops: usize,
    f: impl FnOnce() -> gamedig::GDResult<T>,
) -> CallRecord {
    hook::install(script.to_hook(max_ops));
    enter(script);
    crate::alloc::reset();
    let r = catch_unwind(AssertUnwindSafe(|| {
        let r = f();
        match r {
            Ok(v) => {
                let j = serde_json::to_value(&v).unwrap_or_else(|e| json!({"__serialize_error": e.to_string()}));
                drop(v);
                Ok(j)
            }
            Err(e) => Err(format!("{:?}", e.kind)),
        }
    }));
    let (alloc_peak, alloc_max) = crate::alloc::read();
    leave();
    let events = hook::uninstall();
    let alloc_peak = alloc_peak.saturating_sub(recorded_bytes(&events));
    let outcome = match r {
        Ok(Ok(v)) => Outcome::Ok(v),
        Ok(Err(k)) => Outcome::Err(k),
        Err(_) => {
            let msg = crate::util::take_panic();
            if msg.starts_with("VERIF_HANG") {
                Outcome::Hang
            } else {
                Outcome::Panic { msg }
            }
        }
    };
    CallRecord {
        events,
        outcome,
        alloc_peak,
        alloc_max,
    }
}

/// Same, for closures that already produce a JSON value.
pub fn run_call_json(
    script: &ScriptJ,
    max_ops: usize,
    f: impl FnOnce() -> Result<Value, String>,
) -> CallRecord {
    hook::install(script.to_hook(max_ops));
    enter(script);
    crate::alloc::reset();
    let r = catch_unwind(AssertUnwindSafe(f));
    let (alloc_peak, alloc_max) = crate::alloc::read();
    leave();
    let events = hook::uninstall();
    let alloc_peak = alloc_peak.saturating_sub(recorded_bytes(&events));
    let outcome = match r {
        Ok(Ok(v)) => Outcome::Ok(v),
        Ok(Err(k)) => Outcome::Err(k),
        Err(_) => {
            let msg = crate::util::take_panic();
            if msg.starts_with("VERIF_HANG") {
                Outcome::Hang
            } else {
                Outcome::Panic { msg }
            }
        }
    };
    CallRecord {
        events,
        outcome,
        alloc_peak,
        alloc_max,
    }
}

pub fn event_json(e: &hook::Event) -> Value {
    match e {
        hook::Event::Open {
            conn,
            kind,
            addr,
            refused,
            connect,
            read,
            write,
            retries,
        } => {
            json!({"ev":"Open","conn":conn,"kind": if *kind==hook::Kind::Udp {"udp"} else {"tcp"},
                   "ip": addr.ip().to_string(), "port": addr.port(), "refused": refused,
                   "connect_ns": connect.map(|d| d.as_nanos() as u64), "read_ns": read.map(|d| d.as_nanos() as u64),
                   "write_ns": write.map(|d| d.as_nanos() as u64), "retries": *retries as u64})
        }
        hook::Event::Send { conn, data, failed } => json!({"ev":"Send","conn":conn,"hex":hex(data),"failed":failed}),
        hook::Event::Recv { conn, size, out } => {
            match out {
                hook::RecvOut::Data(d) => json!({"ev":"Recv","conn":conn,"size":size,"out":"data","hex":hex(d)}),
                hook::RecvOut::Timeout => json!({"ev":"Recv","conn":conn,"size":size,"out":"timeout"}),
            }
        }
    }
}

pub fn sends(rec: &CallRecord) -> Vec<(usize, Vec<u8>)> {
    rec.events
        .iter()
        .filter_map(|e| {
            match e {
                hook::Event::Send { conn, data, .. } => Some((*conn, data.clone())),
                _ => None,
            }
        })
        .collect()
}

pub fn opens(rec: &CallRecord) -> Vec<(hook::Kind, std::net::SocketAddr)> {
    rec.events
        .iter()
        .filter_map(|e| {
            match e {
                hook::Event::Open { kind, addr, .. } => Some((*kind, *addr)),
                _ => None,
            }
        })
        .collect()
}
