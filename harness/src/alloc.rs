//! Counting global allocator: per-thread live bytes, peak live bytes and the
//! largest single request since the last `reset()`.
use std::alloc::{GlobalAlloc, Layout, System};
use std::cell::Cell;

pub struct Counting;

thread_local! {
    static LIVE: Cell<isize> = const { Cell::new(0) };
    static PEAK: Cell<isize> = const { Cell::new(0) };
    static MAXREQ: Cell<usize> = const { Cell::new(0) };
}

thread_local! {
    static IN_REPORT: Cell<bool> = const { Cell::new(false) };
}

/// A request this large ends in an abort of the whole process (no unwinding, no message beyond the size): say where it comes
/// from first, so that the crash report names the code that asked.
#[cold]
fn report_huge(size: usize) {
    let _ = IN_REPORT.try_with(|f| {
        if !f.get() {
            f.set(true);
            let bt = std::backtrace::Backtrace::force_capture().to_string();
            let frames: Vec<&str> = bt.lines().filter(|l| l.contains("gamedig") || l.contains("vh::")).take(12).collect();
            eprintln!("HUGE-ALLOCATION {size} bytes requested by:\n{}", frames.join("\n"));
            f.set(false);
        }
    });
}

#[inline]
fn on_alloc(size: usize) {
    if size > (1usize << 32) {
        report_huge(size);
    }
    let _ = LIVE.try_with(|l| {
        let v = l.get() + size as isize;
        l.set(v);
        let _ = PEAK.try_with(|p| {
            if v > p.get() {
                p.set(v)
            }
        });
    });
    let _ = MAXREQ.try_with(|m| {
        if size > m.get() {
            m.set(size)
        }
    });
}

#[inline]
fn on_free(size: usize) {
    let _ = LIVE.try_with(|l| l.set(l.get() - size as isize));
}

unsafe impl GlobalAlloc for Counting {
    unsafe fn alloc(&self, layout: Layout) -> *mut u8 {
        on_alloc(layout.size());
        System.alloc(layout)
    }
    unsafe fn alloc_zeroed(&self, layout: Layout) -> *mut u8 {
        on_alloc(layout.size());
        System.alloc_zeroed(layout)
    }
    unsafe fn dealloc(&self, ptr: *mut u8, layout: Layout) {
        on_free(layout.size());
        System.dealloc(ptr, layout)
    }
    unsafe fn realloc(&self, ptr: *mut u8, layout: Layout, new_size: usize) -> *mut u8 {
        on_free(layout.size());
        on_alloc(new_size);
        System.realloc(ptr, layout, new_size)
    }
}

pub fn reset() {
    LIVE.with(|l| l.set(0));
    PEAK.with(|p| p.set(0));
    MAXREQ.with(|m| m.set(0));
}

/// (peak live bytes, largest single request) since `reset`
pub fn read() -> (usize, usize) {
    (PEAK.with(|p| p.get()).max(0) as usize, MAXREQ.with(|m| m.get()))
}
