//! C07 (second half): The Ship, Battalion 1944 and Eco against GameMaps.tla.
use crate::layout::*;
use crate::transport::*;
use crate::util::*;
use crate::valve::{self, addr, timeouts};
use gamedig::games::{battalion1944, eco, theship};
use rand::prelude::*;
use serde_json::{json, Map, Value};
use std::io::{Read, Write};
use std::net::TcpListener;

fn get<'a>(v: &'a Value, path: &Value) -> &'a Value {
    let mut cur = v;
    for seg in path.as_array().unwrap() {
        cur = match seg.as_str() {
            Some(k) => &cur[k],
            None => &cur[seg.as_u64().unwrap() as usize],
        };
    }
    cur
}

fn valve_exchange(rng: &mut StdRng, ctx: &valve::Ctx, engine: &Value, appid: u32, rules_payload: Option<(Vec<u8>, Value)>) -> (Vec<Vec<Vec<u8>>>, Value) {
    let mut batches = Vec::new();
    let mut expected = json!({});
    for sec in ["info", "players", "rules"] {
        if sec == "rules" {
            if let Some((p, e)) = &rules_payload {
                batches.push(vec![p.clone()]);
                expected["rules"] = e.clone();
                continue;
            }
        }
        let small = |s: &Value| s["n"].as_u64().map_or(true, |n| n <= 8);
        let (payload, exp, _) = valve::build_section(rng, ctx, sec, engine, appid, Some(&small), None);
        expected[sec] = exp[sec].clone();
        batches.push(vec![payload]);
    }
    (batches, expected)
}

pub fn replay(ctx: &valve::Ctx, maps: &[Value], seed: u64, reps: usize, rep: &mut Report) {
    let mut rng = StdRng::seed_from_u64(seed);
    let table = |g: &str| maps.iter().find(|m| m["game"] == g).map(|m| m["table"].clone()).unwrap_or_else(|| panic!("no map for {g}"));
    // ---- The Ship
    let t = table("theship");
    let engine = json!({"t":"source","main":2400,"ded":null});
    for n in 0 .. reps {
        let (mut batches, expected) = valve_exchange(&mut rng, &ctx, &engine, 2400, None);
        let missing = if n % 5 == 4 { Some(["players", "rules"][rng.gen_range(0 .. 2)]) } else { None };
        if let Some(m) = missing {
            batches[if m == "players" { 1 } else { 2 }].clear();
        }
        let script = ScriptJ::udp(batches);
        let rec = run_call(&script, DEFAULT_MAX_OPS, || theship::query_with_timeout(&addr(27015).ip(), Some(27015), timeouts(0)));
        rep.evaluations += 1;
        rep.distinct.insert(hash_of(&expected.to_string()));
        let case = json!({"game":"theship","missing":missing,"script":script});
        match (&rec.outcome, missing) {
            (Outcome::Err(_), Some(_)) => {}
            (Outcome::Ok(_), Some(m)) => rep.violation("C07", &format!("theship: a response without {m} is returned although the format requires it"), json!({"kind":"gamemap","case":case})),
            (Outcome::Ok(v), None) => {
                let mut want = Map::new();
                for f in t["fields"].as_array().unwrap() {
                    want.insert(f["dst"][0].as_str().unwrap().to_string(), get(&expected, &f["src"]).clone());
                }
                let plist = get(&expected, &t["players"]["list"]);
                let pf = t["players"]["fields"].as_array().unwrap();
                want.insert(
                    "players".into(),
                    json!(plist.as_array().unwrap().iter().map(|p| {
                        let mut o = Map::new();
                        for f in pf {
                            o.insert(f.as_str().unwrap().to_string(), p[f.as_str().unwrap()].clone());
                        }
                        Value::Object(o)
                    }).collect::<Vec<_>>()),
                );
                if let Some(d) = diff("", &Value::Object(want), v) {
                    rep.violation("C07", &format!("theship: response differs at {}", diff_class(&d)), json!({"kind":"gamemap","case":case,"diff":d}));
                }
            }
            (o, _) => rep.violation("C07", &format!("theship: {} on a well-formed reply", o.class()), json!({"kind":"gamemap","case":case,"outcome":o.to_json()})),
        }
        if n == 0 {
            rep.sample(&json!({"game":"theship"}));
        }
    }
    // ---- Battalion 1944
    let t = table("battalion");
    let engine = json!({"t":"source","main":489940,"ded":null});
    let overrides = t["overrides"].as_array().unwrap();
    for n in 0 .. reps {
        // rules: a random subset of the override rules, the dropped rule, and ordinary ones
        let mut items = Vec::new();
        let mut chosen: Vec<&Value> = overrides.iter().filter(|_| rng.gen_bool(0.5)).collect();
        chosen.shuffle(&mut rng);
        let drop_present = rng.gen_bool(0.5);
        let extra = rng.gen_range(0 ..= 3);
        let count = chosen.len() + drop_present as usize + extra;
        items.push(json!({"k":"lit","b":[(count & 0xff) as u8, (count >> 8) as u8]}));
        for o in &chosen {
            items.push(json!({"k":"txt","s":o["rule"]}));
            items.push(json!({"k":"lit","b":[0]}));
            let f = format!("ov_{}", o["rule"].as_str().unwrap());
            items.push(match o["as"].as_str().unwrap() {
                "u8" => json!({"k":"f","f":f,"ty":"dec_u8"}),
                "isY" => json!({"k":"f","f":f,"ty":"oneoftext","opts":["Y","N","y",""]}),
                _ => json!({"k":"f","f":f,"ty":"text","excl":""}),
            });
            items.push(json!({"k":"lit","b":[0]}));
        }
        if drop_present {
            items.push(json!({"k":"txt","s":"bat_map_s"}));
            items.push(json!({"k":"lit","b":[0]}));
            items.push(json!({"k":"f","f":"dropped","ty":"cstr"}));
        }
        let reserved: Vec<Value> = overrides.iter().map(|o| o["rule"].clone()).chain([json!("bat_map_s")]).collect();
        // ordinary rules; some of them carry the game's own prefix without being one of the override rules: they stay rules
        let prefixed: Vec<bool> = (0 .. extra).map(|_| rng.gen_bool(0.5)).collect();
        let reserved_tail: Vec<Value> = reserved.iter().map(|r| json!(r.as_str().unwrap().trim_start_matches("bat_"))).collect();
        for i in 0 .. extra {
            if prefixed[i] {
                items.push(json!({"k":"txt","s":"bat_"}));
                items.push(json!({"k":"f","f":format!("xk{i}"),"ty":"cstr","uniq":"rulekeys_bat","reserved":reserved_tail}));
            } else {
                items.push(json!({"k":"f","f":format!("xk{i}"),"ty":"cstr","uniq":"rulekeys","reserved":reserved}));
            }
            items.push(json!({"k":"f","f":format!("xv{i}"),"ty":"cstr"}));
        }
        let enc = encode(&mut rng, &items, &Default::default());
        let mut payload = vec![0xff, 0xff, 0xff, 0xff, 0x45];
        payload.extend(&enc.bytes);
        // the plain rules map a Valve query returns for this reply
        let mut rules = Map::new();
        let text = |v: &Value| match v { Value::String(s) => s.clone(), o => o.to_string() };
        for o in &chosen {
            rules.insert(o["rule"].as_str().unwrap().to_string(), json!(text(&enc.values[&format!("ov_{}", o["rule"].as_str().unwrap())])));
        }
        if drop_present {
            rules.insert("bat_map_s".into(), enc.values["dropped"].clone());
        }
        for i in 0 .. extra {
            let k = enc.values[&format!("xk{i}")].as_str().unwrap().to_string();
            rules.insert(if prefixed[i] { format!("bat_{k}") } else { k }, enc.values[&format!("xv{i}")].clone());
        }
        let (batches, mut expected) = valve_exchange(&mut rng, &ctx, &engine, 489_940, Some((payload, Value::Object(rules.clone()))));
        // apply the table
        let mut rules2 = rules.clone();
        for o in &chosen {
            let key = o["rule"].as_str().unwrap();
            let field = o["field"].as_str().unwrap();
            let raw = text(&enc.values[&format!("ov_{key}")]);
            expected["info"][field] = match o["as"].as_str().unwrap() {
                "u8" => json!(raw.parse::<u8>().unwrap()),
                "isY" => json!(raw == "Y"),
                _ => json!(raw),
            };
            rules2.remove(key);
        }
        for d in t["dropped"].as_array().unwrap() {
            rules2.remove(d.as_str().unwrap());
        }
        expected["rules"] = Value::Object(rules2);
        let want = match serde_json::from_value::<gamedig::protocols::valve::Response>(expected.clone()) {
            Ok(r) => serde_json::to_value(gamedig::protocols::valve::game::Response::new_from_valve_response(r)).unwrap(),
            Err(e) => {
                rep.tool_error(&format!("battalion expectation is not a valve response: {e}"));
                continue;
            }
        };
        let script = ScriptJ::udp(batches);
        let rec = run_call(&script, DEFAULT_MAX_OPS, || battalion1944::query(&addr(7780).ip(), None));
        rep.evaluations += 1;
        rep.distinct.insert(hash_of(&expected.to_string()));
        let case = json!({"game":"battalion1944","overrides": chosen.iter().map(|o| o["rule"].clone()).collect::<Vec<_>>(),"script":script});
        match &rec.outcome {
            Outcome::Ok(v) => {
                if let Some(d) = diff("", &want, v) {
                    rep.violation("C07", &format!("battalion1944: response differs at {}", diff_class(&d)), json!({"kind":"gamemap","case":case,"diff":d}));
                }
            }
            o => rep.violation("C07", &format!("battalion1944: {} on a well-formed reply", o.class()), json!({"kind":"gamemap","case":case,"outcome":o.to_json()})),
        }
        if opens(&rec).first().map(|(_, a)| a.port()) != Some(7780) {
            rep.violation("C07", "battalion1944: query does not go to port 7780 when none is given", json!({"kind":"gamemap","case":case}));
        }
        if n == 0 {
            rep.sample(&json!({"game":"battalion1944","overrides":chosen.len()}));
        }
    }
    // ---- Eco over a real loopback HTTP server
    let t = table("eco");
    let listener = TcpListener::bind("127.0.0.1:0").expect("bind http");
    let port = listener.local_addr().unwrap().port();
    let (tx, rx) = std::sync::mpsc::channel::<String>();
    let (ptx, prx) = std::sync::mpsc::channel::<String>();
    let server = std::thread::spawn(move || {
        // one request per document sent over the channel
        while let Ok(doc) = rx.recv() {
            if doc == "__stop" {
                break;
            }
            if let Ok((mut st, _)) = listener.accept() {
                let mut buf = Vec::new();
                let mut b = [0u8; 1024];
                let _ = st.set_read_timeout(Some(std::time::Duration::from_millis(500)));
                while !buf.windows(4).any(|w| w == b"\r\n\r\n") {
                    match st.read(&mut b) {
                        Ok(0) | Err(_) => break,
                        Ok(n) => buf.extend(&b[.. n]),
                    }
                }
                let line = String::from_utf8_lossy(&buf).lines().next().unwrap_or("").to_string();
                let _ = ptx.send(line);
                // the framing of the body is the server's choice (the document starts with one digit that selects it):
                // Content-Length, chunked transfer coding (several chunks), or delimited by closing the connection
                let (framing, doc) = doc.split_at(1);
                let body = doc.as_bytes();
                match framing {
                    "1" => {
                        let _ = st.write_all(b"HTTP/1.1 200 OK\r\nContent-Type: application/json\r\nTransfer-Encoding: chunked\r\nConnection: close\r\n\r\n");
                        for ch in body.chunks(1 + body.len() / 3) {
                            let _ = st.write_all(format!("{:x}\r\n", ch.len()).as_bytes());
                            let _ = st.write_all(ch);
                            let _ = st.write_all(b"\r\n");
                        }
                        let _ = st.write_all(b"0\r\n\r\n");
                    }
                    "2" => {
                        let _ = st.write_all(b"HTTP/1.1 200 OK\r\nContent-Type: application/json\r\nConnection: close\r\n\r\n");
                        let _ = st.write_all(body);
                    }
                    _ => {
                        let head = format!("HTTP/1.1 200 OK\r\nContent-Type: application/json\r\nContent-Length: {}\r\nConnection: close\r\n\r\n", body.len());
                        let _ = st.write_all(head.as_bytes());
                        let _ = st.write_all(body);
                    }
                }
            }
        }
    });
    for n in 0 .. reps {
        let mut info = Map::new();
        let types = &t["types"];
        // one document in three is large (long texts, a hundred players: tens of kilobytes)
        let long = n % 3 == 2;
        for f in t["fields"].as_array().unwrap() {
            let m = f["src"].as_str().unwrap();
            let v = match types[m].as_str().unwrap_or("str") {
                "bool" => json!(rng.gen_bool(0.5)),
                "u32" => json!(boundary_u64(&mut rng, u32::MAX as u64)),
                "f64" => json!([0.0, -1.5, 1e300, 12345.678][rng.gen_range(0 .. 4)]),
                "map" => {
                    let mut mm = Map::new();
                    for _ in 0 .. rng.gen_range(0 ..= 3) {
                        mm.insert(random_string(&mut rng, 1, 8), json!(random_string(&mut rng, 0, 8)));
                    }
                    Value::Object(mm)
                }
                _ => json!(random_string(&mut rng, 0, if long { 600 } else { 40 })),
            };
            info.insert(m.to_string(), v);
        }
        let names: Vec<String> = (0 .. if long { 100 } else { [0usize, 1, 3, 100][rng.gen_range(0 .. 4)] }).map(|_| random_string(&mut rng, 0, 12)).collect();
        info.insert(t["players"]["from"].as_str().unwrap().to_string(), json!(names));
        let doc = json!({"Info": info});
        let framing = n % 3 + (n / 3) % 3; // every framing with every size class
        tx.send(format!("{}{}", framing % 3, doc)).unwrap();
        let ip = addr(port).ip();
        let res = std::panic::catch_unwind(|| eco::query_with_timeout(&ip, Some(port), &timeouts(0)));
        let reqline = prx.recv_timeout(std::time::Duration::from_secs(3)).unwrap_or_default();
        rep.evaluations += 1;
        rep.distinct.insert(hash_of(&doc.to_string()));
        let framing_name = ["content-length", "chunked", "close-delimited"][framing % 3];
        let case = json!({"game":"eco","document":doc,"framing":framing_name,"bytes":doc.to_string().len()});
        if !reqline.starts_with("GET /frontpage") {
            rep.violation("C07", "eco: the request is not GET /frontpage", json!({"kind":"gamemap","case":case,"request_line":reqline}));
        }
        match res {
            Err(_) => rep.violation("C07", &format!("eco: panic {}", valve::first_line(&take_panic())), json!({"kind":"gamemap","case":case})),
            Ok(Err(e)) => rep.violation("C07", &format!("eco: {:?} on a well-formed document", e.kind), json!({"kind":"gamemap","case":case})),
            Ok(Ok(r)) => {
                let got = serde_json::to_value(&r).unwrap();
                let mut want = Map::new();
                for f in t["fields"].as_array().unwrap() {
                    want.insert(f["dst"].as_str().unwrap().to_string(), doc["Info"][f["src"].as_str().unwrap()].clone());
                }
                want.insert("players".into(), json!(names.iter().map(|x| json!({"name": x})).collect::<Vec<_>>()));
                if let Some(d) = diff("", &Value::Object(want), &got) {
                    rep.violation("C07", &format!("eco: response differs at {}", diff_class(&d)), json!({"kind":"gamemap","case":case,"diff":d}));
                }
            }
        }
        if n == 0 {
            rep.sample(&json!({"game":"eco","members":doc["Info"].as_object().unwrap().len()}));
        }
    }
    let _ = tx.send("__stop".into());
    let _ = std::net::TcpStream::connect(("127.0.0.1", port));
    let _ = server.join();
}
