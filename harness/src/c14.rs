//! C14: generic dispatch vs per-game module vs protocol-level query, for every definition row.
use crate::entries::*;
use crate::fuzz;
use crate::transport::*;
use crate::util::*;
use crate::valve::addr;
use gamedig::games::*;
use gamedig::protocols::types::{ExtraRequestSettings, ProprietaryProtocol as P, Protocol};
use gamedig::protocols::{gamespy, quake, unreal2, valve as vp};
use gamedig::verif_hook as hook;
use gamedig::GAMES;
use rand::prelude::*;
use serde_json::{json, Value};
use std::net::{IpAddr, SocketAddr};

struct Obs {
    port: u64,
    reqs: String,
    res: String,
    detail: Value,
}

fn strip_variants(v: &Value) -> &Value {
    let mut cur = v;
    loop {
        match cur.as_object() {
            Some(m) if m.len() == 1 => {
                let (k, inner) = m.iter().next().unwrap();
                if k.chars().next().map_or(false, |c| c.is_uppercase()) && inner.is_object() {
                    cur = inner;
                    continue;
                }
                return cur;
            }
            _ => return cur,
        }
    }
}

fn digest(v: &Value) -> String {
    // a HashSet field serialises in arbitrary order
    let mut v = v.clone();
    crate::layout::normalise_unordered(&mut v, &[json!(["mutators_and_rules", "mutators"])]);
    let v = &v;
    // canonical text (serde_json maps are sorted), hashed
    format!("{:016x}", hash_of(&canonical(v)))
}

fn observe(rec: &CallRecord, to_module_repr: &dyn Fn(&Value) -> Value) -> Obs {
    let mut port = 0u64;
    let mut ports_differ = false;
    let mut reqs = Vec::new();
    let mut ports: Vec<u16> = Vec::new();
    for e in &rec.events {
        match e {
            hook::Event::Open { addr, .. } => {
                if !ports.contains(&addr.port()) {
                    ports.push(addr.port());
                }
                if port != 0 && port != addr.port() as u64 {
                    ports_differ = true;
                }
                if port == 0 {
                    port = addr.port() as u64;
                }
            }
            hook::Event::Send { data, .. } => reqs.push(hex(data)),
            _ => {}
        }
    }
    let (res, detail) = match &rec.outcome {
        Outcome::Ok(v) => {
            let m = to_module_repr(v);
            match m.get("__err").and_then(|e| e.as_str()) {
                // the documented conversion of the module fails on this response: that is the module-level result
                Some(k) => (format!("err:{k}"), json!({"err": k})),
                None => (format!("ok:{}", digest(&m)), m),
            }
        }
        Outcome::Err(k) => (format!("err:{k}"), json!({"err": k})),
        Outcome::Panic { msg } => (format!("panic:{}", crate::valve::first_line(msg)), json!({"panic": msg})),
        Outcome::Hang => ("hang".to_string(), json!({})),
    };
    Obs {
        port: if ports_differ { 1 } else { port },
        reqs: format!("{}:{:016x}", reqs.len(), hash_of(&reqs)),
        res,
        detail: json!({"result": detail, "requests": reqs, "ports": ports}),
    }
}

/// Battalion 1944: the documented rule overrides, applied to a protocol-level Valve response
fn battalion_overrides(v: &Value) -> Result<Value, String> {
    let mut r = v.clone();
    if let Some(rules) = v["rules"].as_object() {
        let mut rules2 = rules.clone();
        if let Some(x) = rules.get("bat_max_players_i") {
            r["info"]["players_maximum"] = json!(x.as_str().unwrap().parse::<u8>().map_err(|e| e.to_string())?);
            rules2.remove("bat_max_players_i");
        }
        if let Some(x) = rules.get("bat_player_count_s") {
            r["info"]["players_online"] = json!(x.as_str().unwrap().parse::<u8>().map_err(|e| e.to_string())?);
            rules2.remove("bat_player_count_s");
        }
        if let Some(x) = rules.get("bat_has_password_s") {
            r["info"]["has_password"] = json!(x == "Y");
            rules2.remove("bat_has_password_s");
        }
        if let Some(x) = rules.get("bat_name_s") {
            r["info"]["name"] = x.clone();
            rules2.remove("bat_name_s");
        }
        if let Some(x) = rules.get("bat_gamemode_s") {
            r["info"]["game_mode"] = x.clone();
            rules2.remove("bat_gamemode_s");
        }
        rules2.remove("bat_map_s");
        r["rules"] = Value::Object(rules2);
    }
    Ok(r)
}

fn valve_to_game(v: &Value) -> Value {
    // the documented conversion, re-stated (valve::game_json_of): the library's own conversion function is what the module path
    // runs, so using it here would compare it with itself
    match serde_json::from_value::<vp::Response>(v.clone()) {
        Ok(_) => crate::valve::game_json_of(v),
        Err(e) => json!({"__not_a_valve_response": e.to_string()}),
    }
}

/// The Minecraft request settings the caller's extra settings denote: each field as given, the documented default where unset.
fn mc_request_settings(extras: &Option<ExtraRequestSettings>) -> Option<minecraft::RequestSettings> {
    extras.as_ref().map(|x| {
        minecraft::RequestSettings {
            hostname: x.hostname.clone().unwrap_or_else(|| "gamedig".to_string()),
            protocol_version: x.protocol_version.unwrap_or(-1),
        }
    })
}

fn extra_to_valve_gather(e: &ExtraRequestSettings) -> vp::GatheringSettings { e.clone().into() }

pub fn replay(fctx: &fuzz::Ctx, seed: u64, reps: usize, rep: &mut Report, trace: &mut Vec<Value>) {
    let mut rng = StdRng::seed_from_u64(seed);
    let mut ids: Vec<&str> = GAMES.keys().copied().collect();
    ids.sort();
    let mut uncovered = Vec::new();
    for id in ids {
        if id == "eco" {
            continue; // HTTP: checked on real sockets by `eco_ports`
        }
        let game = GAMES.get(id).unwrap();
        let has_module = MODULE_IDS.contains(&id) || id.starts_with("minecraft") || id == "mindustry";
        if !has_module {
            uncovered.push(id.to_string());
        }
        for n in 0 .. reps {
            let given: Option<u16> = if n % 2 == 0 { None } else { Some(rng.gen_range(1024 ..= 65000)) };
            // server behaviour
            let name = format!("generic:{id}");
            let mut base = fuzz::base_for(&mut rng, fctx, &name);
            let behaviour = ["valid", "valid", "foreign", "partial", "silent", "malformed", "dedicated"][rng.gen_range(0 .. 7)];
            // every run includes, for every auto-detecting / multi-connection entry, the case "port omitted, silent server,
            // no extra settings" (all probes of all three paths are then visible; F32 is this case for `minecraft`)
            let forced = n == 0;
            let behaviour = if forced { "silent" } else { behaviour };
            // ... and, for every row, a fixed schedule before the random cases: each server behaviour once without any settings
            // (the only cases in which the module path is comparable), then silence and a partial answer with the caller's
            // timeout settings (retries 1), then a valid and a partial answer with default extra settings
            // (n even: port omitted, n odd: port given - every behaviour meets both)
            const FIXED: [(&str, u8); 18] = [("silent", 0), ("valid", 0), ("partial", 0), ("foreign", 0), ("malformed", 0), ("dedicated", 0),
                                            ("valid", 0), ("silent", 0), ("foreign", 0), ("partial", 0), ("dedicated", 0), ("malformed", 0),
                                            ("silent", 1), ("partial", 1), ("valid", 2), ("partial", 2),
                                            // 3: the caller's extra settings carry a host name AND a protocol version (Minecraft handshake)
                                            ("valid", 3), ("silent", 3)];
            let fixed: Option<(&str, u8)> = FIXED.get(n).copied();
            let behaviour = fixed.map_or(behaviour, |f| f.0);
            let is_valve = matches!(game.protocol, Protocol::Valve(_) | Protocol::PROPRIETARY(P::TheShip));
            match behaviour {
                "foreign" | "dedicated" if is_valve => {
                    // rebuild the valve exchange with another app id
                    let (engine, main) = match &game.protocol {
                        Protocol::Valve(vp::Engine::Source(Some((a, d)))) => (json!({"t":"source","main":a,"ded":d}), (*a, *d)),
                        Protocol::PROPRIETARY(P::TheShip) => (json!({"t":"source","main":2400,"ded":null}), (2400, None)),
                        Protocol::Valve(vp::Engine::GoldSrc(f)) => (json!({"t":"goldsrc","force":f}), (10, None)),
                        _ => (json!({"t":"source_none"}), (10, None)),
                    };
                    let appid = if behaviour == "dedicated" { main.1.unwrap_or(main.0) } else { main.0.wrapping_add(7) & 0xffff };
                    let mut batches = Vec::new();
                    for sec in ["info", "players", "rules"] {
                        let (payload, _, _) = crate::valve::build_section(&mut rng, &fctx.v, sec, &engine, appid, None, None);
                        batches.push(vec![payload]);
                    }
                    base.conns = vec![(false, batches)];
                }
                "partial" => {
                    // the second request of the exchange gets no answer
                    if let Some((_, batches)) = base.conns.get_mut(0) {
                        if batches.len() > 1 {
                            batches[1].clear();
                        }
                    }
                }
                "silent" => {
                    for (_, batches) in &mut base.conns {
                        for b in batches.iter_mut() {
                            b.clear();
                        }
                    }
                }
                "malformed" => {
                    for (_, batches) in &mut base.conns {
                        if let Some(b) = batches.first_mut() {
                            for d in b.iter_mut() {
                                let keep = d.len().min(6);
                                d.truncate(keep);
                            }
                        }
                    }
                }
                _ => {}
            }
            let script = base.script();
            let ip: IpAddr = "127.0.0.1".parse().unwrap();
            // caller-supplied settings: none (then the module path is comparable too), or extra settings with some fields unset
            let extras: Option<ExtraRequestSettings> = match if let Some((_, k)) = fixed { if k == 2 { 0 } else if k == 3 { 9 } else { 5 } } else { rng.gen_range(0 .. 6) } {
                9 => Some(ExtraRequestSettings::default().set_hostname("mc.example.org".to_string()).set_protocol_version(47)),
                0 => Some(ExtraRequestSettings::default()),
                1 => Some(ExtraRequestSettings::default().set_gather_players(gamedig::protocols::types::GatherToggle::Skip)),
                2 => Some(ExtraRequestSettings::default().set_check_app_id(false).set_gather_rules(gamedig::protocols::types::GatherToggle::Enforce)),
                _ => None,
            };
            let tsettings = match fixed {
                Some((_, k)) => if k == 1 { crate::valve::timeouts(1) } else { None },
                None => if rng.gen_bool(0.3) { crate::valve::timeouts(1) } else { None },
            };
            let port_eff = |default: u16| given.unwrap_or(default);
            let m = DEFAULT_MAX_OPS;
            // --- conversions to the module's representation
            let conv_valve_game = |v: &Value| valve_to_game(strip_variants(v));
            let conv_battalion = |v: &Value| {
                match battalion_overrides(strip_variants(v)) {
                    Ok(x) => valve_to_game(&x),
                    Err(e) => json!({"__override_parse_error": e}),
                }
            };
            let conv_theship = |v: &Value| {
                let s = strip_variants(v);
                if s.get("info").is_some() {
                    match serde_json::from_value::<vp::Response>(s.clone()) {
                        Ok(r) => {
                            match theship::Response::new_from_valve_response(r) {
                                Ok(t) => serde_json::to_value(t).unwrap(),
                                Err(e) => json!({"__err": format!("{:?}", e.kind)}),
                            }
                        }
                        Err(e) => json!({"__not_a_valve_response": e.to_string()}),
                    }
                } else {
                    s.clone()
                }
            };
            let conv_id = |v: &Value| strip_variants(v).clone();
            // --- generic path
            let g_rec = run_call_json(&script, m, || {
                match query_with_timeout_and_extra_settings(game, &ip, given, tsettings, extras.clone()) {
                    Ok(r) => Ok(serde_json::to_value(r.as_original()).unwrap()),
                    Err(e) => Err(format!("{:?}", e.kind)),
                }
            });
            // --- protocol path with the definition's parameters
            let sock = SocketAddr::new(ip, port_eff(game.default_port));
            let p_rec: Option<CallRecord> = match &game.protocol {
                Protocol::Valve(engine) => {
                    // the caller's extra settings replace the definition's; a field left unset takes the documented default
                    let gather = match &extras {
                        None => extra_to_valve_gather(&game.request_settings),
                        Some(x) => {
                            let d = vp::GatheringSettings::default();
                            vp::GatheringSettings {
                                players: x.gather_players.unwrap_or(d.players),
                                rules: x.gather_rules.unwrap_or(d.rules),
                                check_app_id: x.check_app_id.unwrap_or(d.check_app_id),
                            }
                        }
                    };
                    let e = *engine;
                    Some(run_call(&script, m, || vp::query(&sock, e, Some(gather), tsettings)))
                }
                Protocol::Gamespy(v) => {
                    Some(match v {
                        gamespy::GameSpyVersion::One => run_call(&script, m, || gamespy::one::query(&sock, tsettings)),
                        gamespy::GameSpyVersion::Two => run_call(&script, m, || gamespy::two::query(&sock, tsettings)),
                        gamespy::GameSpyVersion::Three => run_call(&script, m, || gamespy::three::query(&sock, tsettings)),
                    })
                }
                Protocol::Quake(v) => {
                    Some(match v {
                        quake::QuakeVersion::One => run_call(&script, m, || quake::one::query(&sock, tsettings)),
                        quake::QuakeVersion::Two => run_call(&script, m, || quake::two::query(&sock, tsettings)),
                        quake::QuakeVersion::Three => run_call(&script, m, || quake::three::query(&sock, tsettings)),
                    })
                }
                Protocol::Unreal2 => {
                    let d = unreal2::GatheringSettings::default();
                    let g = match &extras {
                        None => d,
                        Some(x) => unreal2::GatheringSettings {
                            players: x.gather_players.unwrap_or(d.players),
                            mutators_and_rules: x.gather_rules.unwrap_or(d.mutators_and_rules),
                        },
                    };
                    Some(run_call(&script, m, || unreal2::query(&sock, &g, tsettings)))
                }
                Protocol::PROPRIETARY(p) => {
                    match p {
                        P::TheShip => Some(run_call(&script, m, || vp::query(&sock, vp::Engine::new(2400), None, tsettings))),
                        P::Minecraft(None) => {
                            let rs = mc_request_settings(&extras);
                            Some(run_call(&script, m, || minecraft::protocol::query(&sock, tsettings, rs)))
                        }
                        P::Minecraft(Some(minecraft::Server::Java)) => {
                            let rs = mc_request_settings(&extras);
                            Some(run_call(&script, m, || minecraft::protocol::query_java(&sock, tsettings, rs)))
                        }
                        P::Minecraft(Some(minecraft::Server::Bedrock)) => Some(run_call(&script, m, || minecraft::protocol::query_bedrock(&sock, tsettings))),
                        P::Minecraft(Some(minecraft::Server::Legacy(g))) => {
                            let g = *g;
                            Some(run_call(&script, m, || minecraft::protocol::query_legacy_specific(g, &sock, tsettings)))
                        }
                        P::Mindustry => Some(run_call(&script, m, || mindustry::protocol::query_with_retries(&sock, &tsettings))),
                        // the game's own function is the protocol for these
                        _ => None,
                    }
                }
            };
            // --- module path
            let m_rec: Option<CallRecord> = if extras.is_some() || tsettings.is_some() {
                None // the module functions take no settings
            } else if MODULE_IDS.contains(&id) {
                call_module(id, &script, &ip, given)
            } else {
                match id {
                    "minecraft" => Some(run_call(&script, m, || minecraft::query(&ip, given))),
                    "minecraftjava" => Some(run_call(&script, m, || minecraft::query_java(&ip, given, None))),
                    "minecraftbedrock" | "minecraftpocket" => Some(run_call(&script, m, || minecraft::query_bedrock(&ip, given))),
                    "minecraftlegacy16" => Some(run_call(&script, m, || minecraft::query_legacy_specific(minecraft::LegacyGroup::V1_6, &ip, given))),
                    "minecraftlegacy14" => Some(run_call(&script, m, || minecraft::query_legacy_specific(minecraft::LegacyGroup::V1_4, &ip, given))),
                    "minecraftlegacyb18" => Some(run_call(&script, m, || minecraft::query_legacy_specific(minecraft::LegacyGroup::VB1_8, &ip, given))),
                    "mindustry" => Some(run_call(&script, m, || mindustry::query(&ip, given, &None))),
                    _ => None,
                }
            };
            let conv: &dyn Fn(&Value) -> Value = match (&game.protocol, id) {
                (_, "battalion1944") => &conv_battalion,
                (Protocol::Valve(_), _) => &conv_valve_game,
                (Protocol::PROPRIETARY(P::TheShip), _) => &conv_theship,
                _ => &conv_id,
            };
            let mut obs: Vec<(&str, Obs)> = vec![("generic", observe(&g_rec, conv))];
            if let Some(r) = &p_rec {
                obs.push(("protocol", observe(r, conv)));
            }
            if let Some(r) = &m_rec {
                obs.push(("module", observe(r, &conv_id)));
            }
            rep.evaluations += 1;
            rep.distinct.insert(hash_of(&(id, given.is_some(), behaviour, extras.is_some(), tsettings.is_some())));
            trace.push(json!({"ev":"Case","id":id,"given":given.unwrap_or(0),"default":game.default_port,"paths":obs.len()}));
            for (p, o) in &obs {
                trace.push(json!({"ev":"Obs","path":p,"port":o.port,"reqs":o.reqs,"res":o.res}));
            }
            // direct comparison (for a replayable report); TLC decides on the trace as well
            let want_port = given.unwrap_or(game.default_port) as u64;
            let mut bad: Option<String> = None;
            for (p, o) in &obs {
                if o.port == 1 {
                    bad = Some(format!("{id}: {p} path opens sockets to different ports {} where one destination ({want_port}) is prescribed", o.detail["ports"]));
                } else if o.port != 0 && o.port != want_port {
                    bad = Some(format!("{id}: {p} path goes to port {} instead of {}", o.port, want_port));
                }
            }
            if bad.is_none() {
                for (p, o) in &obs[1 ..] {
                    if o.reqs != obs[0].1.reqs {
                        bad = Some(format!("{id}: {p} path sends different requests than the generic path ({behaviour} server)"));
                        break;
                    }
                    if o.res != obs[0].1.res {
                        bad = Some(format!("{id}: {p} path returns a different result than the generic path ({behaviour} server)"));
                        break;
                    }
                }
            }
            if let Some(sig) = bad {
                rep.violation(
                    "C14",
                    &sig,
                    json!({"kind":"dispatch","id":id,"given":given,"behaviour":behaviour,"script":script,
                           "extras": extras.as_ref().map(|x| serde_json::to_value(x).unwrap()), "retries": tsettings.map(|t| t.get_retries()),
                           "observations": obs.iter().map(|(p, o)| json!({"path":p,"port":o.port,"reqs":o.reqs,"res":o.res,
                                "detail": o.detail.to_string().chars().take(700).collect::<String>()})).collect::<Vec<_>>()}),
                );
            }
            if n == 0 {
                rep.sample(&json!({"id": id, "given": given, "behaviour": behaviour, "paths": obs.iter().map(|(p, _)| *p).collect::<Vec<_>>()}));
            }
        }
    }
    rep.extra.insert("rows_without_module".into(), json!(uncovered));
}

/// Eco goes through ureq: which port does the generic path connect to when none is given?
pub fn eco_ports(rep: &mut Report, trace: &mut Vec<Value>) {
    use std::net::TcpListener;
    use std::time::Duration;
    let game = GAMES.get("eco").unwrap();
    let def = game.default_port;
    let candidates: Vec<u16> = vec![def, 3000, 3001].into_iter().collect::<std::collections::BTreeSet<_>>().into_iter().collect();
    let listeners: Vec<(u16, TcpListener)> = candidates
        .iter()
        .filter_map(|p| TcpListener::bind(("127.0.0.1", *p)).ok().map(|l| (*p, l)))
        .collect();
    if listeners.len() != candidates.len() {
        rep.extra.insert("eco_ports".into(), json!("could not bind the candidate ports; skipped"));
        return;
    }
    for (_, l) in &listeners {
        l.set_nonblocking(true).unwrap();
    }
    let ip: IpAddr = "127.0.0.1".parse().unwrap();
    let t = gamedig::protocols::types::TimeoutSettings::new(
        Some(Duration::from_millis(300)),
        Some(Duration::from_millis(300)),
        Some(Duration::from_millis(300)),
        0,
    )
    .ok();
    let mut hit = std::collections::BTreeMap::new();
    for path in ["generic", "module"] {
        let h = std::thread::spawn(move || {
            let g = GAMES.get("eco").unwrap();
            if path == "generic" {
                let _ = query_with_timeout(g, &ip, None, t);
            } else {
                let _ = eco::query_with_timeout(&ip, None, &t);
            }
        });
        let start = std::time::Instant::now();
        let mut got = 0u16;
        while start.elapsed() < Duration::from_millis(1500) && got == 0 {
            for (p, l) in &listeners {
                if let Ok((s, _)) = l.accept() {
                    got = *p;
                    drop(s);
                }
            }
            std::thread::sleep(Duration::from_millis(5));
        }
        let _ = h.join();
        hit.insert(path, got);
    }
    rep.evaluations += 2;
    trace.push(json!({"ev":"Case","id":"eco","given":0,"default":def,"paths":2}));
    for (p, port) in &hit {
        trace.push(json!({"ev":"Obs","path":p,"port":port,"reqs":"http","res":"unanswered"}));
        if *port != def {
            rep.violation(
                "C14",
                &format!("eco: {p} path connects to port {port} instead of the definition's default {def}"),
                json!({"kind":"dispatch-eco","path":p,"connected_to":port,"definition_default":def}),
            );
        }
    }
}

/// C09, destination clause: every datagram / connection of the definition-driven entry point goes to the caller's IP and to the
/// given port, or to the definition's default port when none is given - for every row of the table, against a server that never
/// answers (every probe of every auto-detecting entry is then visible) and one that refuses TCP connections.
pub fn destinations(seed: u64, rep: &mut Report) {
    let mut rng = StdRng::seed_from_u64(seed ^ 0xD357);
    let mut ids: Vec<&str> = GAMES.keys().copied().collect();
    ids.sort();
    for id in ids {
        if id == "eco" {
            continue; // HTTP (ureq): ports are checked on real sockets by C14 `eco_ports`
        }
        let game = GAMES.get(id).unwrap();
        let ips: [IpAddr; 3] = [
            "127.0.0.1".parse().unwrap(),
            IpAddr::V4(std::net::Ipv4Addr::new(rng.gen_range(1 ..= 223), rng.gen(), rng.gen(), rng.gen_range(1 ..= 254))),
            "::1".parse().unwrap(),
        ];
        for (n, ip) in ips.iter().enumerate() {
            for given in [None, Some(rng.gen_range(1024 ..= 65000u16)), Some(game.default_port.wrapping_add(1).max(1))] {
                for refuse in [false, true] {
                    let script = ScriptJ { conns: (0 .. 8).map(|_| ConnJ { refuse, on_send: vec![] }).collect() };
                    let t = if n == 0 { None } else { crate::valve::timeouts(rng.gen_range(0 ..= 1)) };
                    let rec = run_call_json(&script, DEFAULT_MAX_OPS, || {
                        match query_with_timeout_and_extra_settings(game, ip, given, t, None) {
                            Ok(r) => Ok(serde_json::to_value(r.as_original()).unwrap()),
                            Err(e) => Err(format!("{:?}", e.kind)),
                        }
                    });
                    rep.evaluations += 1;
                    rep.distinct.insert(hash_of(&(id, n, given.is_some(), refuse)));
                    let want = SocketAddr::new(*ip, given.unwrap_or(game.default_port));
                    let mut opens = 0;
                    let mut bad: Option<String> = None;
                    for e in &rec.events {
                        if let hook::Event::Open { addr, .. } = e {
                            opens += 1;
                            if *addr != want && bad.is_none() {
                                bad = Some(if addr.ip() != want.ip() {
                                    format!("generic:{id}: a request goes to another address than the caller's")
                                } else if given.is_some() {
                                    format!("generic:{id}: a request goes to port {} although the caller gave another port", addr.port())
                                } else {
                                    format!("generic:{id}: a request goes to port {} instead of the game's default port {}", addr.port(), game.default_port)
                                });
                            }
                        }
                    }
                    if opens == 0 && bad.is_none() {
                        if let Outcome::Panic { msg } = &rec.outcome {
                            bad = Some(format!("generic:{id}: panic {}", crate::valve::first_line(msg)));
                        }
                    }
                    if let Some(sig) = bad {
                        rep.violation("C09", &sig, json!({"kind":"destinations","id":id,"ip":ip.to_string(),"given":given,"refuse":refuse,
                            "want":want.to_string(),"events": rec.events.iter().filter_map(|e| if let hook::Event::Open{addr,..}=e {Some(addr.to_string())} else {None}).collect::<Vec<_>>(),
                            "outcome": rec.outcome.to_json()}));
                    }
                }
            }
        }
    }
}
