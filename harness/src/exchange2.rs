//! Replay of Minecraft.tla (auto-detect order, C03) and Unreal2.tla (gather matrix / retry, C11, C10) behaviours.
use crate::layout::*;
use crate::proto;
use crate::transport::*;
use crate::util::*;
use crate::valve::{addr, timeouts, toggle};
use gamedig::games::minecraft;
use gamedig::protocols::unreal2;
use gamedig::verif_hook as hook;
use rand::prelude::*;
use serde_json::{json, Value};

fn pick<'a>(rng: &mut StdRng, layouts: &'a LayoutSet, entry: &str, filt: &dyn Fn(&Value) -> bool) -> &'a Value {
    let c: Vec<&Value> = layouts.all.iter().filter(|l| l["layout"]["entry"] == entry && filt(&l["shape"])).collect();
    assert!(!c.is_empty(), "no layout for {entry}");
    c[rng.gen_range(0 .. c.len())]
}

pub fn replay_minecraft(layouts: &LayoutSet, lines: &[Value], seed: u64, reps: usize, rep: &mut Report) {
    let mut rng = StdRng::seed_from_u64(seed);
    for b in lines {
        for _ in 0 .. reps {
            mc_one(layouts, &mut rng, b, rep);
        }
        rep.distinct.insert(hash_of(&b.to_string()));
        rep.sample(&json!({"speaks": b["speaks"], "entry": b["entry"], "tried": b["tried"], "result": b["result"]}));
    }
}

fn mc_one(layouts: &LayoutSet, rng: &mut StdRng, b: &Value, rep: &mut Report) {
    let tried: Vec<&str> = b["tried"].as_array().unwrap().iter().map(|x| x.as_str().unwrap()).collect();
    let result = b["result"].as_str().unwrap();
    let entry = b["entry"].as_str().unwrap();
    let mut conns = Vec::new();
    let mut answer: Option<proto::Built> = None;
    for v in &tried {
        let tcp = *v != "bedrock";
        if *v == result {
            let cands: Vec<&Value> = layouts.all.iter().filter(|l| l["layout"]["entry"] == *v).collect();
            let bb = proto::build_fitting(rng, &cands);
            conns.push(proto::script_of(&bb).conns.remove(0));
            answer = Some(bb);
        } else {
            let how = b["how"][*v].as_str().unwrap();
            conns.push(match (tcp, how) {
                (true, "refuse") => ConnJ { refuse: true, on_send: vec![] },
                (true, "garbage") => ConnJ {
                    refuse: false,
                    on_send: vec![ReactionJ { fail: false, batch: vec![hex(&[0x00, 0x01])], close: true }],
                },
                _ => ConnJ::default(), // silent: nothing ever arrives
            });
        }
    }
    let script = ScriptJ { conns };
    // protocol-level entry with an explicit port, or the game-level entry with the default ports
    let game_level = rng.gen_bool(0.5);
    let port: u16 = rng.gen_range(1024 ..= 65000);
    let a = addr(port);
    let ip = a.ip();
    let m = DEFAULT_MAX_OPS;
    let rec = match (entry, game_level) {
        ("auto", false) => run_call(&script, m, || minecraft::protocol::query(&a, timeouts(0), None)),
        ("auto", true) => run_call(&script, m, || minecraft::query(&ip, None)),
        ("legacyauto", false) => run_call(&script, m, || minecraft::protocol::query_legacy(&a, timeouts(0))),
        ("legacyauto", true) => run_call(&script, m, || minecraft::query_legacy(&ip, None)),
        ("java", false) => run_call(&script, m, || minecraft::protocol::query_java(&a, timeouts(0), None)),
        ("java", true) => run_call(&script, m, || minecraft::query_java(&ip, None, None)),
        ("bedrock", false) => run_call(&script, m, || minecraft::protocol::query_bedrock(&a, timeouts(0))),
        ("bedrock", true) => run_call(&script, m, || minecraft::query_bedrock(&ip, None)),
        (e, gl) => {
            let g = match e {
                "legacy16" => minecraft::LegacyGroup::V1_6,
                "legacy14" => minecraft::LegacyGroup::V1_4,
                _ => minecraft::LegacyGroup::VB1_8,
            };
            if gl {
                run_call(&script, m, || minecraft::query_legacy_specific(g, &ip, None))
            } else {
                run_call(&script, m, || minecraft::protocol::query_legacy_specific(g, &a, timeouts(0)))
            }
        }
    };
    rep.evaluations += 1;
    let case = json!({"behaviour": b, "game_level": game_level, "port": port, "script": script});
    let mut fail = |sig: String, detail: Value| {
        rep.violation("C03", &sig, json!({"kind":"minecraft-behaviour","case":case,"detail":detail,
                                          "outcome":rec.outcome.to_json().to_string().chars().take(400).collect::<String>()}));
    };
    if let Outcome::Panic { msg } = &rec.outcome {
        fail(format!("minecraft {entry}: panic {}", crate::valve::first_line(msg)), json!({}));
        return;
    }
    // order of connections: kind and port
    let opened: Vec<(bool, u16)> = rec
        .events
        .iter()
        .filter_map(|e| match e {
            hook::Event::Open { kind, addr, .. } => Some((*kind == hook::Kind::Tcp, addr.port())),
            _ => None,
        })
        .collect();
    let want: Vec<(bool, u16)> = tried
        .iter()
        .enumerate()
        .map(|(i, v)| (*v != "bedrock", if game_level { b["ports"][i].as_u64().unwrap() as u16 } else { port }))
        .collect();
    if opened != want {
        fail(format!("minecraft {entry}: connections are not opened in the order / to the ports the model prescribes"),
             json!({"want": want, "got": opened}));
        return;
    }
    match (result, &rec.outcome) {
        ("none", Outcome::Err(_)) => {}
        ("none", _) => fail(format!("minecraft {entry}: a response although no variant answers"), json!({})),
        (_, Outcome::Err(k)) => fail(format!("minecraft {entry}: fails with {k} although {result} answers"), json!({})),
        (v, Outcome::Ok(val)) => {
            let bb = answer.as_ref().unwrap();
            let mut want = bb.expected.clone();
            if v == "bedrock" && matches!(entry, "auto") {
                // the auto-detecting query returns the Java-shaped response built from the Bedrock pong
                let e = &bb.expected;
                want = json!({"game_version": e["version_name"], "protocol_version": 0, "players_maximum": e["players_maximum"],
                              "players_online": e["players_online"], "players": null, "description": e["name"], "favicon": null,
                              "previews_chat": null, "enforces_secure_chat": null, "server_type": "Bedrock"});
            }
            if let Some(d) = diff("", &want, val) {
                let what = if d.starts_with(".server_type") { "is labelled with another variant" } else { "differs from the status sent" };
                fail(format!("minecraft {entry}: the response {what} ({})", diff_class(&d)), json!({"diff": d}));
            }
        }
        _ => {}
    }
}

pub fn replay_unreal2(layouts: &LayoutSet, lines: &[Value], seed: u64, reps: usize, only: &[&'static str], rep: &mut Report) {
    let mut rng = StdRng::seed_from_u64(seed);
    for b in lines {
        for _ in 0 .. reps {
            u2_one(layouts, &mut rng, b, only, rep);
        }
        rep.distinct.insert(hash_of(&b.to_string()));
        rep.sample(&json!({"cfg": b["cfg"], "hist": b["hist"], "result": b["result"]}));
    }
}

fn u2_one(layouts: &LayoutSet, rng: &mut StdRng, b: &Value, only: &[&'static str], rep: &mut Report) {
    let cands: Vec<&Value> = layouts.all.iter().filter(|l| l["layout"]["entry"] == "unreal2" && l["shape"].get("datagrams").is_some()).collect();
    let bb = proto::build_fitting(rng, &cands);
    let sec_idx = |s: &str| match s {
        "info" => 0,
        "rules" => 1,
        _ => 2,
    };
    let mut on_send: Vec<Vec<Vec<u8>>> = Vec::new();
    for h in b["hist"].as_array().unwrap() {
        let sec = h["sec"].as_str().unwrap();
        on_send.push(match h["o"].as_str().unwrap() {
            "good" => bb.batches[sec_idx(sec)].clone(),
            // a players list whose FOLLOW-UP datagram is not a players datagram (another section's kind, an unknown kind) is a
            // malformed players section too (D8: the fault-free run fails on it with a non-timeout error)
            "bad" if sec == "players" && bb.batches[2].len() >= 2 && rng.gen_bool(0.5) => {
                vec![bb.batches[2][0].clone(), if rng.gen_bool(0.5) { vec![0x80, 0, 0, 0, 1] } else { vec![0x80, 0, 0, 0, 9, 1, 2] }]
            }
            "bad" => vec![vec![0x80, 0, 0, 0, 9, 1, 2]], // unknown reply kind
            _ => vec![],
        });
    }
    let script = ScriptJ::udp(on_send);
    let cfg = &b["cfg"];
    let g = unreal2::GatheringSettings {
        players: toggle(cfg["gp"].as_str().unwrap()),
        mutators_and_rules: toggle(cfg["gr"].as_str().unwrap()),
    };
    let r = cfg["r"].as_u64().unwrap() as usize;
    // every other case goes through the definition-driven entry point of an Unreal 2 row of the definitions table, the toggles
    // travelling as the caller's extra request settings
    let row: Option<&'static str> = if rng.gen_bool(0.5) {
        let mut ids: Vec<&'static str> = gamedig::GAMES
            .entries()
            .filter(|(_, g)| matches!(g.protocol, gamedig::protocols::types::Protocol::Unreal2))
            .map(|(id, _)| *id)
            .collect();
        ids.sort();
        ids.choose(rng).copied()
    } else {
        None
    };
    let rec = match row {
        Some(id) => {
            let game = gamedig::GAMES.get(id).unwrap();
            let x = gamedig::protocols::types::ExtraRequestSettings::default().set_gather_players(g.players).set_gather_rules(g.mutators_and_rules);
            let ip = addr(7777).ip();
            run_call_json(&script, DEFAULT_MAX_OPS, move || {
                match gamedig::query_with_timeout_and_extra_settings(game, &ip, Some(7777), timeouts(r), Some(x)) {
                    Ok(resp) => Ok(crate::valve::strip_enum_wrappers(&serde_json::to_value(resp.as_original()).unwrap()).clone()),
                    Err(e) => Err(format!("{:?}", e.kind)),
                }
            })
        }
        None => run_call(&script, DEFAULT_MAX_OPS, || unreal2::query(&addr(7777), &g, timeouts(r))),
    };
    rep.evaluations += 1;
    let case = json!({"behaviour": b, "script": script, "row": row});
    let mut fail = |prop: &'static str, sig: String, detail: Value| {
        if only.is_empty() || only.contains(&prop) {
            rep.violation(prop, &sig, json!({"kind":"unreal2-behaviour","case":case,"detail":detail,
                                            "outcome":rec.outcome.to_json().to_string().chars().take(400).collect::<String>()}));
        }
    };
    if let Outcome::Panic { msg } = &rec.outcome {
        fail("C01", format!("unreal2: panic {}", crate::valve::first_line(msg)), json!({}));
        return;
    }
    // requests on the wire
    let want_sends: Vec<Vec<u8>> = b["sent"].as_array().unwrap().iter().map(|s| vec![0x79, 0, 0, 0, sec_idx(s.as_str().unwrap()) as u8]).collect();
    let got_sends: Vec<Vec<u8>> = sends(&rec).into_iter().map(|(_, d)| d).collect();
    if got_sends != want_sends {
        let skipped = got_sends.iter().any(|d| (d[4] == 1 && cfg["gr"] == "Skip") || (d[4] == 2 && cfg["gp"] == "Skip"));
        fail(if skipped { "C11" } else { "C10" },
             format!("unreal2: requests on the wire differ from the model ({})", if skipped { "a skipped section was requested" } else { "attempt count / order" }),
             json!({"want": want_sends.iter().map(|d| hex(d)).collect::<Vec<_>>(), "got": got_sends.iter().map(|d| hex(d)).collect::<Vec<_>>()}));
        return;
    }
    let res = &b["result"];
    let prop: &'static str = if cfg["gp"] == "Enforce" && cfg["gr"] == "Enforce" { "C10" } else { "C11" };
    match (res["state"].as_str().unwrap(), &rec.outcome) {
        ("ok", Outcome::Ok(v)) => {
            let mut want = bb.expected.clone();
            if b["got"]["rules"] != "present" {
                want["mutators_and_rules"] = json!({"mutators": [], "rules": {}});
                want["server_info"]["password"] = json!(false);
            }
            if b["got"]["players"] != "present" {
                want["players"] = json!({"players": [], "bots": []});
            }
            let mut got = v.clone();
            normalise_unordered(&mut got, &bb.unordered);
            normalise_unordered(&mut want, &bb.unordered);
            if let Some(d) = diff("", &want, &got) {
                fail("C11", format!("unreal2: response differs at {} (section presence / isolation)", diff_class(&d)), json!({"diff": d}));
            }
        }
        ("ok", Outcome::Err(k)) => fail(prop, format!("unreal2: fails with {k} where the model returns a response"), json!({})),
        ("err", Outcome::Ok(_)) => fail(prop, format!("unreal2: succeeds where the model fails with {} at {}", res["err"].as_str().unwrap(), res["at"].as_str().unwrap()), json!({})),
        ("err", Outcome::Err(k)) => {
            let tc = k == "PacketReceive" || k == "PacketSend";
            if (res["err"] == "timeout") != tc {
                fail(prop, format!("unreal2: error {k} where the model fails with class {}", res["err"].as_str().unwrap()), json!({}));
            }
        }
        _ => {}
    }
}


// ---- implementation -> spec: random recorded Unreal 2 queries for Trace_Unreal2.tla ---------------------------

pub fn trace_unreal2(layouts: &LayoutSet, seed: u64, runs: usize, dump: Option<usize>, out: &mut Vec<Value>, rep: &mut Report) {
    use gamedig::verif_hook as hook;
    let mut rng = StdRng::seed_from_u64(seed);
    let toggles = ["Skip", "Try", "Enforce"];
    let cands: Vec<&Value> = layouts.all.iter().filter(|l| l["layout"]["entry"] == "unreal2" && l["shape"].get("datagrams").is_some()).collect();
    for ix in 0 .. runs {
        let r = [0u64, 0, 1, 1, 2, 3, 5][rng.gen_range(0 .. 7)];
        let (gp, gr) = (toggles[rng.gen_range(0 .. 3)], toggles[rng.gen_range(0 .. 3)]);
        let cfg = json!({"r": r, "gp": gp, "gr": gr});
        let bb = proto::build_fitting(&mut rng, &cands);
        // follow the specification's control flow to script a reaction per request
        let mut plan: Vec<(&str, &str)> = Vec::new();
        let mut on_send: Vec<Vec<Vec<u8>>> = Vec::new();
        'q: for (si, sec) in ["info", "rules", "players"].iter().enumerate() {
            let tog = match *sec { "info" => "Enforce", "rules" => gr, _ => gp };
            if tog == "Skip" {
                continue;
            }
            let mut attempt = 1;
            loop {
                let o = match rng.gen_range(0 .. 100) { 0 ..= 59 => "good", 60 ..= 84 => "silent", _ => "bad" };
                plan.push((sec, o));
                on_send.push(match o {
                    "good" => bb.batches[si].clone(),
                    "bad" => vec![vec![0x80, 0, 0, 0, 9, 1, 2]],
                    _ => vec![],
                });
                match o {
                    "good" => break,
                    "bad" => { if tog == "Enforce" { break 'q } else { break } }
                    _ => {
                        if attempt <= r { attempt += 1 } else if tog == "Enforce" { break 'q } else { break }
                    }
                }
            }
        }
        let script = ScriptJ::udp(on_send);
        let g = unreal2::GatheringSettings { players: toggle(gp), mutators_and_rules: toggle(gr) };
        let rec = run_call(&script, DEFAULT_MAX_OPS, || unreal2::query(&addr(7777), &g, timeouts(r as usize)));
        rep.evaluations += 1;
        rep.distinct.insert(hash_of(&(cfg.to_string(), plan.iter().map(|p| p.1).collect::<Vec<_>>())));
        let start = out.len();
        out.push(json!({"ev":"Call","ix":ix,"cfg":cfg}));
        if dump == Some(ix) {
            rep.extra.insert("dumped_run".into(), json!({"kind":"unreal2-trace","cfg":cfg,"script":script,"plan":plan.iter().map(|p| json!([p.0,p.1])).collect::<Vec<_>>()}));
        }
        let mut n = 0usize;
        for e in &rec.events {
            if let hook::Event::Send { data, .. } = e {
                let sec = match data.get(4) { Some(0) => "info", Some(1) => "rules", Some(2) => "players", _ => "unknown" };
                // the outcome the scripted server produces for this request (beyond the plan: silence)
                let o = plan.get(n).map(|p| p.1).unwrap_or("silent");
                out.push(json!({"ev":"Attempt","sec":sec,"o":o}));
                n += 1;
            }
        }
        match &rec.outcome {
            Outcome::Ok(v) => {
                // a section that was not gathered comes back empty
                let rules = v["mutators_and_rules"]["rules"].as_object().map_or(false, |m| !m.is_empty())
                    || v["mutators_and_rules"]["mutators"].as_array().map_or(false, |m| !m.is_empty());
                let players = v["players"]["players"].as_array().map_or(false, |m| !m.is_empty()) || v["players"]["bots"].as_array().map_or(false, |m| !m.is_empty());
                // (an answered section can be legitimately empty: presence is then what the plan says)
                let answered = |s: &str| plan.iter().any(|p| p.0 == s && p.1 == "good");
                let exp_rules_empty = bb.expected["mutators_and_rules"]["rules"].as_object().map_or(true, |m| m.is_empty())
                    && bb.expected["mutators_and_rules"]["mutators"].as_array().map_or(true, |m| m.is_empty());
                let exp_players_empty = bb.expected["players"]["players"].as_array().map_or(true, |m| m.is_empty())
                    && bb.expected["players"]["bots"].as_array().map_or(true, |m| m.is_empty());
                let rules_present = if exp_rules_empty { answered("rules") } else { rules };
                let players_present = if exp_players_empty { answered("players") } else { players };
                out.push(json!({"ev":"Return","state":"ok","class":"","rules":rules_present,"players":players_present}));
            }
            Outcome::Err(k) => {
                let class = if k == "PacketReceive" || k == "PacketSend" { "timeout" } else { "malformed" };
                out.push(json!({"ev":"Return","state":"err","class":class,"rules":false,"players":false}));
            }
            Outcome::Panic { msg } => {
                rep.violation("C01", &format!("unreal2: panic {}", crate::valve::first_line(msg)), json!({"kind":"unreal2-trace","cfg":cfg,"script":script}));
                out.truncate(start);
            }
            Outcome::Hang => {
                rep.violation("C01", "unreal2: does not return", json!({"kind":"unreal2-trace","cfg":cfg,"script":script}));
                out.truncate(start);
            }
        }
    }
}
