//! Replay of Exchange.tla behaviours: retry / request conformance for the single-unit protocols (C09, C10).
use crate::layout::*;
use crate::proto;
use crate::template::*;
use crate::transport::*;
use crate::util::*;
use crate::valve::{addr, timeouts};
use gamedig::games::minecraft;
use gamedig::verif_hook as hook;
use rand::prelude::*;
use serde_json::{json, Value};

fn malformed(p: &str, which_recv: usize) -> Vec<u8> {
    // (several shapes of "malformed" where the format has more than one way to be wrong: D8 only asks that the fault-free
    // run reports a non-timeout error on it)
    thread_local! { static ALT: std::cell::Cell<u32> = const { std::cell::Cell::new(0) }; }
    let alt = ALT.with(|a| { a.set(a.get().wrapping_add(1)); a.get() });
    match p {
        // the connectionless prefix is right, the command is not the status reply
        "quake1" | "quake2" | "quake3" if alt % 2 == 0 => b"\xff\xff\xff\xffdisconnect\n".to_vec(),
        // the pong id is right, the magic is not
        "bedrock" if alt % 2 == 0 => {
            let mut d = vec![0x1c];
            d.extend(9_833_440_827_789_222_417u64.to_le_bytes());
            d.extend([0u8; 8]);
            d.extend([0x55u8; 16]);
            d.extend([0, 4, b'M', b'C', b'P', b'E']);
            d
        }
        "gs1" => b"\\hostname\\x\\queryid\\abc.1\\final\\".to_vec(), // query id is not a number
        "gs3" | "jc2m" => {
            if which_recv == 0 {
                vec![0x07, 0, 0, 0, 1, b'1', 0] // not a handshake reply
            } else {
                vec![0x00, 0, 0, 0, 9, b's', 0] // foreign session id
            }
        }
        "legacy16" | "legacy14" | "legacyb18" => vec![0xfe, 0x00, 0x01],
        "java" => vec![],       // the stream ends at once
        "mindustry" => vec![5], // a length without its string
        _ => vec![0x01, 0x02, 0x03],
    }
}

pub struct Ctx {
    pub layouts: LayoutSet,
    pub templates: Templates,
}

pub fn replay(ctx: &Ctx, lines: &[Value], seed: u64, reps: usize, only: &[&'static str], rep: &mut Report) {
    let mut rng = StdRng::seed_from_u64(seed);
    for b in lines {
        for _ in 0 .. reps {
            one(ctx, &mut rng, b, only, rep);
        }
        rep.distinct.insert(hash_of(&b.to_string()));
        rep.sample(&json!({"proto": b["proto"], "cfg": b["cfg"], "hist": b["hist"], "result": b["result"]}));
    }
}

fn one(ctx: &Ctx, rng: &mut StdRng, b: &Value, only: &[&'static str], rep: &mut Report) {
    let p = b["proto"].as_str().unwrap();
    let r = b["cfg"]["r"].as_u64().unwrap() as usize;
    let tcp = matches!(p, "java" | "legacy16" | "legacy14" | "legacyb18");
    let reopen = p == "mindustry";
    let sent = b["sent"].as_array().unwrap();
    let hist: Vec<&str> = b["hist"].as_array().unwrap().iter().map(|x| x.as_str().unwrap()).collect();
    // which sends are answered (followed by a recv step)
    let answered = |tpl: &str| !matches!(tpl, "java.handshake" | "java.status");
    // build the script: reactions in the order of the sends; one connection per attempt for mindustry
    let mut conns: Vec<Vec<ReactionJ>> = vec![Vec::new()];
    let mut hi = 0usize;
    let mut cur_attempt = 1u64;
    let mut last_good: Option<proto::Built> = None;
    let mut built: Option<proto::Built> = None;
    let mut chal_of_attempt: std::collections::HashMap<u64, i32> = Default::default();
    // challenge-loop protocols (FFOW): the bytes issued in (attempt, round)
    let mut round_bytes: std::collections::HashMap<(u64, u64), [u8; 4]> = Default::default();
    let mut round_in_attempt = 0u64;
    let mut recv_in_attempt = 0usize;
    let mut send_in_attempt = 0usize;
    for s in sent {
        let a = s["attempt"].as_u64().unwrap();
        if a != cur_attempt {
            cur_attempt = a;
            recv_in_attempt = 0;
            send_in_attempt = 0;
            round_in_attempt = 0;
            built = None;
            if reopen {
                conns.push(Vec::new());
            }
        }
        let tpl = s["tpl"].as_str().unwrap();
        if built.is_none() {
            // a fresh well-formed reply set for this attempt (its own challenge)
            let entry = p;
            let cands: Vec<&Value> = ctx.layouts.all.iter().filter(|l| l["layout"]["entry"] == entry).collect();
            let bb = proto::build_fitting(rng, &cands);
            if let Some(c) = bb.values.get("__chal").and_then(|c| c.as_i64()) {
                chal_of_attempt.insert(a, c as i32);
            }
            built = Some(bb);
        }
        let bb = built.as_ref().unwrap();
        let mut reaction = ReactionJ::default();
        if answered(tpl) {
            let o = hist.get(hi).copied().unwrap_or("silent");
            hi += 1;
            match o {
                "good" => {
                    // the batch the reference server sends in reply to this send of the unit (Java: the stream was
                    // scripted on the status request; it is delivered when the client reads, after the ping)
                    let idx = if p == "java" { 1 } else if p == "ffow" { 0 } else { send_in_attempt };
                    reaction.batch = bb.batches.get(idx).cloned().unwrap_or_default().iter().map(|d| hex(d)).collect();
                    reaction.close = tcp;
                    let is_last_recv = recv_in_attempt + 1 == if matches!(p, "gs3" | "jc2m") { 2 } else { 1 };
                    if is_last_recv || p == "ffow" {
                        last_good = Some(bb.clone());
                    }
                }
                "chal" => {
                    round_in_attempt += 1;
                    let c = crate::valve::strat_challenge(rng, None);
                    round_bytes.insert((a, round_in_attempt), c);
                    reaction.batch = vec![hex(&crate::valve::challenge_packet(c))];
                }
                "bad" => {
                    let m = malformed(p, recv_in_attempt);
                    reaction.batch = if m.is_empty() && tcp { vec![] } else { vec![hex(&m)] };
                    reaction.close = tcp;
                }
                _ => {}
            }
            recv_in_attempt += 1;
        }
        send_in_attempt += 1;
        conns.last_mut().unwrap().push(reaction);
    }
    let script = ScriptJ {
        conns: conns.into_iter().map(|on_send| ConnJ { refuse: false, on_send }).collect(),
    };
    // run
    let port = 27015u16;
    let host = match rng.gen_range(0 .. 5) {
        0 => String::new(),
        1 => "mc.example.org".to_string(),
        2 => random_string(rng, 1, 60),
        // lengths around the 7-bit groups of the VarInt length prefixes (host name length, handshake body length)
        3 => "h".repeat([53usize, 54, 63, 64, 117, 118, 127, 128, 255][rng.gen_range(0 .. 9)]),
        _ => "gamedig".to_string(),
    };
    // protocol versions: the documented special value, common versions, and both sides of every 7-bit group boundary
    const PVS: [i32; 22] = [-1, 0, 47, 765, i32::MAX, i32::MIN, 63, 64, 127, 128, 8191, 8192, 16383, 16384, (1 << 21) - 1, 1 << 21,
                            (1 << 28) - 1, 1 << 28, -2, -128, -129, 1 << 30];
    let pv: i32 = if rng.gen_bool(0.8) { PVS[rng.gen_range(0 .. PVS.len())] } else { rng.gen() };
    // Java: the request settings reach the handshake either directly (protocol level) or as the caller's extra request settings
    // of the definition-driven entry point, where each of the two may be left unset (documented defaults: "gamedig", -1)
    let mut via_row: Option<&'static str> = None;
    let via_extras = p == "java" && rng.gen_bool(0.5);
    let (set_host, set_pv) = (rng.gen_bool(0.6), rng.gen_bool(0.6));
    let (host, pv) = if via_extras { (if set_host { host } else { "gamedig".to_string() }, if set_pv { pv } else { -1 }) } else { (host, pv) };
    let rec = if via_extras {
        let mut x = gamedig::protocols::types::ExtraRequestSettings::default();
        if set_host {
            x = x.set_hostname(host.clone());
        }
        if set_pv {
            x = x.set_protocol_version(pv);
        }
        let ip = addr(port).ip();
        let game = gamedig::GAMES.get("minecraftjava").unwrap();
        run_call_json(&script, DEFAULT_MAX_OPS, move || {
            match gamedig::query_with_timeout_and_extra_settings(game, &ip, Some(port), timeouts(r), Some(x)) {
                Ok(r) => Ok(crate::valve::strip_enum_wrappers(&serde_json::to_value(r.as_original()).unwrap()).clone()),
                Err(e) => Err(format!("{:?}", e.kind)),
            }
        })
    } else if p == "java" {
        let (h2, a) = (host.clone(), addr(port));
        run_call(&script, DEFAULT_MAX_OPS, move || {
            minecraft::protocol::query_java(&a, timeouts(r), Some(minecraft::RequestSettings { hostname: h2, protocol_version: pv }))
        })
    } else {
        // every third case goes through the definition-driven entry point of a table row that speaks the protocol (the retry
        // contract is the caller's, whichever entry point carries the timeout settings)
        match proto::row_of(p).filter(|_| rng.gen_range(0 .. 3) == 0) {
            Some(id) => {
                via_row = Some(id);
                proto::call_generic(id, &script, port, r)
            }
            None => proto::call(p, &script, port, r, None),
        }
    };
    rep.evaluations += 1;
    let case = json!({"behaviour": b, "script": script, "java": {"host": host, "proto": pv, "via_extras": via_extras, "set": [set_host, set_pv]}, "table_row": via_row});
    let mut fail = |prop: &'static str, sig: String, detail: Value| {
        let (prop, sig) = if prop == "C09" && !only.is_empty() && !only.contains(&"C09") {
            (only[0], format!("a conforming server would not have answered: {sig}"))
        } else {
            (prop, sig)
        };
        if only.is_empty() || only.contains(&prop) {
            rep.violation(prop, &sig, json!({"kind":"exchange-behaviour","case":case,"detail":detail,"outcome":rec.outcome.to_json().to_string().chars().take(400).collect::<String>()}));
        }
    };
    match &rec.outcome {
        Outcome::Panic { msg } => {
            fail("C01", format!("{p}: panic {}", crate::valve::first_line(msg)), json!({}));
            return;
        }
        Outcome::Hang => {
            fail("C01", format!("{p}: does not return"), json!({}));
            return;
        }
        _ => {}
    }
    // C09 / C10: the requests
    let got: Vec<(usize, Vec<u8>)> = sends(&rec);
    if got.len() != sent.len() {
        fail("C10", format!("{p}: {} requests sent, the model prescribes {} (attempt count / retry rule)", got.len(), sent.len()),
             json!({"got": got.iter().map(|g| hex(&g.1)).collect::<Vec<_>>()}));
    }
    for (i, (_, data)) in got.iter().enumerate().take(sent.len()) {
        let tpl = sent[i]["tpl"].as_str().unwrap();
        let items = ctx.templates.get(tpl)["items"].as_array().unwrap();
        match match_items(items, data) {
            None => {
                fail("C09", format!("{p}: request {tpl} is not the protocol's request"), json!({"send": i, "got": hex(data)}));
                break;
            }
            Some(slots) => {
                let a = sent[i]["attempt"].as_u64().unwrap();
                let bad: Option<String> = match tpl {
                    "gs3.data" | "jc2m.data" => {
                        let want = chal_of_attempt.get(&a).copied().unwrap_or(0);
                        let wantv = if want == 0 { Value::Null } else { json!(want) };
                        (slots["chal"] != wantv).then(|| format!("challenge {} echoed as {}", want, slots["chal"]))
                    }
                    "ffow.infochal" => {
                        let want = round_bytes.get(&(a, sent[i]["round"].as_u64().unwrap())).map(|c| hex(c));
                        (Some(slots["chal"].as_str().unwrap_or("").to_string()) != want)
                            .then(|| format!("challenge {:?} echoed as {}", want, slots["chal"]))
                    }
                    "java.handshake" => {
                        if slots["host"] != json!(host) {
                            Some("host name field differs".into())
                        } else if slots["proto"] != json!(pv) {
                            Some("protocol version field differs".into())
                        } else if slots["port"] != json!(port) {
                            Some(format!("port field is {} instead of {port}", slots["port"]))
                        } else {
                            None
                        }
                    }
                    _ => None,
                };
                if let Some(what) = bad {
                    fail("C09", format!("{p}: request {tpl}: {}", what.split(' ').take(3).collect::<Vec<_>>().join(" ")), json!({"send": i, "got": hex(data), "what": what}));
                    break;
                }
                if let Some(sid) = slots.get("session") {
                    if !matches!(sid.as_str(), Some(s) if s.len() == 8) {
                        fail("C09", format!("{p}: request {tpl}: bad session id"), json!({}));
                    }
                }
            }
        }
    }
    for e in &rec.events {
        if let hook::Event::Open { addr: a, kind, .. } = e {
            if *a != addr(port) || (*kind == hook::Kind::Tcp) != tcp {
                fail("C09", format!("{p}: socket opened to a different destination or transport"), json!({"addr": a.to_string()}));
            }
        }
    }
    let nopens = rec.events.iter().filter(|e| matches!(e, hook::Event::Open { .. })).count() as u64;
    if nopens != b["opens"].as_u64().unwrap() {
        fail("C10", format!("{p}: {nopens} sockets opened, the model prescribes {}", b["opens"]), json!({}));
    }
    // result
    let res = &b["result"];
    match (res["state"].as_str().unwrap(), &rec.outcome) {
        ("ok", Outcome::Ok(v)) => {
            let bb = last_good.as_ref().expect("ok result implies a good reply");
            let mut got = v.clone();
            let mut want = bb.expected.clone();
            normalise_unordered(&mut got, &bb.unordered);
            normalise_unordered(&mut want, &bb.unordered);
            if let Some(d) = diff("", &want, &got) {
                fail("C10", format!("{p}: result differs from the fault-free result at {}", diff_class(&d)), json!({"diff": d}));
            }
        }
        ("ok", Outcome::Err(k)) => fail("C10", format!("{p}: failed with {k} where the model returns the response"), json!({})),
        ("err", Outcome::Ok(_)) => fail("C10", format!("{p}: succeeded where the model fails ({})", res["err"].as_str().unwrap()), json!({})),
        ("err", Outcome::Err(k)) => {
            let timeout_class = k == "PacketReceive" || k == "PacketSend";
            if (res["err"] == "timeout") != timeout_class {
                fail("C10", format!("{p}: error {k} where the model fails with class {}", res["err"].as_str().unwrap()), json!({}));
            }
        }
        _ => {}
    }
}


// ---- implementation -> spec: random recorded exchanges for Trace_Exchange.tla ---------------------------------

struct Planned {
    attempt: u64,
    react: &'static str, // "none" = not answered by itself
}

/// Random protocol, retry count and server reactions; the script is built by following the control flow of Exchange.tla;
/// what the client really did is recorded from the transport hook and projected onto the specification's alphabet.
pub fn trace_random(ctx: &Ctx, seed: u64, runs: usize, dump: Option<usize>, out: &mut Vec<Value>, rep: &mut Report) {
    let mut rng = StdRng::seed_from_u64(seed);
    let protos = ["quake1", "quake2", "quake3", "gs1", "gs2", "gs3", "jc2m", "java", "bedrock", "legacy16", "legacy14", "legacyb18",
                  "mindustry", "savage2", "ffow"];
    for ix in 0 .. runs {
        let p = protos[rng.gen_range(0 .. protos.len())];
        let r = [0usize, 0, 1, 1, 2, 3, 5][rng.gen_range(0 .. 7)];
        let tcp = matches!(p, "java" | "legacy16" | "legacy14" | "legacyb18");
        let steps: &[&str] = match p {
            "gs3" | "jc2m" => &["send", "recv", "send", "recv"],
            "java" => &["send", "send", "send", "recv"],
            _ => &["send", "recv"],
        };
        let max_attempts = if p == "savage2" { 1 } else { r as u64 + 1 };
        let cands: Vec<&Value> = ctx.layouts.all.iter().filter(|l| l["layout"]["entry"] == p).collect();
        let mut conns: Vec<Vec<ReactionJ>> = vec![Vec::new()];
        let mut planned: Vec<Planned> = Vec::new();
        let mut chal_of_attempt: std::collections::HashMap<u64, i32> = Default::default();
        let mut round_bytes: std::collections::HashMap<(u64, u64), [u8; 4]> = Default::default();
        let mut attempt = 1u64;
        'query: loop {
            let bb = proto::build_fitting(&mut rng, &cands);
            if let Some(c) = bb.values.get("__chal").and_then(|c| c.as_i64()) {
                chal_of_attempt.insert(attempt, c as i32);
            }
            let mut i = 0usize;
            let mut send_in_attempt = 0usize;
            let mut recv_in_attempt = 0usize;
            let mut rounds = 0u64;
            let mut timed_out = false;
            while i < steps.len() {
                // a send step
                let answered = i + 1 < steps.len() && steps[i + 1] == "recv";
                let mut reaction = ReactionJ::default();
                if !answered {
                    planned.push(Planned { attempt, react: "none" });
                    conns.last_mut().unwrap().push(reaction);
                    send_in_attempt += 1;
                    i += 1;
                    continue;
                }
                let o = match rng.gen_range(0 .. 100) {
                    0 ..= 54 => "good",
                    55 ..= 79 => "silent",
                    80 ..= 89 => "bad",
                    _ => if p == "ffow" && rounds < 4 { "chal" } else { "good" },
                };
                match o {
                    "good" => {
                        let idx = if p == "java" { 1 } else if p == "ffow" { 0 } else { send_in_attempt };
                        reaction.batch = bb.batches.get(idx).cloned().unwrap_or_default().iter().map(|d| hex(d)).collect();
                        reaction.close = tcp;
                    }
                    "bad" => {
                        let m = malformed(p, recv_in_attempt);
                        reaction.batch = if m.is_empty() && tcp { vec![] } else { vec![hex(&m)] };
                        reaction.close = tcp;
                    }
                    "chal" => {
                        rounds += 1;
                        let c = crate::valve::strat_challenge(&mut rng, None);
                        round_bytes.insert((attempt, rounds), c);
                        reaction.batch = vec![hex(&crate::valve::challenge_packet(c))];
                    }
                    _ => {}
                }
                planned.push(Planned { attempt, react: o });
                conns.last_mut().unwrap().push(reaction);
                send_in_attempt += 1;
                recv_in_attempt += 1;
                match o {
                    "good" => i += 2,
                    "chal" => {} // the same request again
                    "bad" => break 'query,
                    _ => {
                        timed_out = true;
                        break;
                    }
                }
            }
            if !timed_out || attempt >= max_attempts {
                break;
            }
            attempt += 1;
            if p == "mindustry" {
                conns.push(Vec::new());
            }
        }
        let script = ScriptJ {
            conns: conns.into_iter().map(|on_send| ConnJ { refuse: false, on_send }).collect(),
        };
        let rec = proto::call(p, &script, 27015, r, None);
        rep.evaluations += 1;
        rep.distinct.insert(hash_of(&(p, r, planned.iter().map(|x| x.react).collect::<Vec<_>>())));
        let start = out.len();
        out.push(json!({"ev":"Call","ix":ix,"p":p,"r":r}));
        if dump == Some(ix) {
            rep.extra.insert("dumped_run".into(), json!({"kind":"exchange-trace","proto":p,"r":r,"script":script,
                                                         "reactions":planned.iter().map(|x| x.react).collect::<Vec<_>>()}));
        }
        let family: Vec<&str> = match p {
            "gs3" => vec!["gs3.handshake", "gs3.data"],
            "jc2m" => vec!["gs3.handshake", "jc2m.data"],
            "java" => vec!["java.handshake", "java.status", "java.ping"],
            "ffow" => vec!["ffow.info", "ffow.infochal"],
            "gs1" => vec!["gs1.status"],
            "gs2" => vec!["gs2.query"],
            "quake1" => vec!["quake1.status"],
            "quake2" => vec!["quake2.status"],
            "quake3" => vec!["quake3.status"],
            "bedrock" => vec!["bedrock.ping"],
            "legacy16" => vec!["legacy16.ping"],
            "legacy14" => vec!["legacy14.ping"],
            "legacyb18" => vec!["legacyb18.ping"],
            "mindustry" => vec!["mindustry.ping"],
            _ => vec!["savage2.info"],
        };
        let mut send_no = 0usize;
        let mut pending: Vec<bool> = Vec::new();
        let mut last_react = "none";
        let mut opens = 0u64;
        let flush = |pending: &mut Vec<bool>, react: &str, out: &mut Vec<Value>| {
            let pat: Vec<bool> = pending.drain(..).collect();
            if pat.is_empty() {
                return;
            }
            let all_data = pat.iter().all(|x| *x);
            let ev = match (react, pat.as_slice()) {
                ("good", _) if all_data => json!({"ev":"Recv","out":"good"}),
                ("bad", [true]) => json!({"ev":"Recv","out":"bad"}),
                ("chal", [true]) => json!({"ev":"Recv","out":"chal"}),
                ("silent", [false]) => json!({"ev":"Recv","out":"timeout"}),
                (_, pt) => json!({"ev":"RecvUnexplained","react":react,"pattern":pt}),
            };
            out.push(ev);
        };
        for e in &rec.events {
            match e {
                hook::Event::Open { .. } => opens += 1,
                hook::Event::Send { data, .. } => {
                    flush(&mut pending, last_react, out);
                    let plan = planned.get(send_no).or(planned.last());
                    let a = plan.map(|x| x.attempt).unwrap_or(1);
                    let mut tpl = "unknown";
                    let mut chal = 0u64;
                    let mut round = 0u64;
                    for t in &family {
                        let items = ctx.templates.get(t)["items"].as_array().unwrap();
                        if let Some(slots) = match_items(items, data) {
                            tpl = t;
                            if matches!(*t, "gs3.data" | "jc2m.data") {
                                // (a challenge of 0 is sent as "no challenge": the handshake reply of this attempt issued it)
                                let want = chal_of_attempt.get(&a).copied().unwrap_or(0);
                                let wantv = if want == 0 { Value::Null } else { json!(want) };
                                chal = if slots["chal"] == wantv { a } else { 99 };
                            }
                            if *t == "ffow.infochal" {
                                // the challenge of the round just played in this attempt, nothing older
                                let got = slots["chal"].as_str().unwrap_or("").to_string();
                                let played = planned[.. send_no.min(planned.len())].iter().rev().take_while(|x| x.attempt == a && x.react == "chal").count() as u64;
                                round = match round_bytes.get(&(a, played)) {
                                    Some(c) if played > 0 && hex(c) == got => played,
                                    _ => 99,
                                };
                            }
                            break;
                        }
                    }
                    last_react = plan.map(|x| x.react).unwrap_or("silent");
                    if send_no >= planned.len() {
                        last_react = "silent"; // beyond the script: nothing answers
                    }
                    out.push(json!({"ev":"Send","tpl":tpl,"chal":chal,"round":round,"react":last_react}));
                    send_no += 1;
                }
                hook::Event::Recv { out: o, .. } => pending.push(matches!(o, hook::RecvOut::Data(_))),
            }
        }
        flush(&mut pending, last_react, out);
        let case = json!({"kind":"exchange-trace","proto":p,"r":r,"script":script});
        match &rec.outcome {
            Outcome::Ok(_) => out.push(json!({"ev":"Return","state":"ok","class":"","opens":opens})),
            Outcome::Err(k) => {
                let class = if k == "PacketReceive" || k == "PacketSend" { "timeout" } else { "malformed" };
                out.push(json!({"ev":"Return","state":"err","class":class,"opens":opens}));
            }
            Outcome::Panic { msg } => {
                rep.violation("C01", &format!("{p}: panic {}", crate::valve::first_line(msg)), case);
                out.truncate(start);
            }
            Outcome::Hang => {
                rep.violation("C01", &format!("{p}: does not return"), case);
                out.truncate(start);
            }
        }
    }
}
