//! Reference servers for the non-Valve protocols, built from spec/ProtoLayout.tla tables, and the table of
//! entry points. A `Built` reply is the list of reaction batches for the sends of ONE fault-free attempt.
use crate::layout::*;
use crate::transport::*;
use crate::util::*;
use crate::valve::{addr, timeouts};
use gamedig::games::{ffow, jc2m, mindustry, minecraft, savage2};
use gamedig::protocols::types::GatherToggle;
use gamedig::protocols::{gamespy, quake, unreal2};
use rand::prelude::*;
use serde_json::{json, Value};
use std::collections::HashMap;

#[derive(Debug, Clone)]
pub struct Built {
    /// reaction to the i-th send of one attempt (UDP: datagrams, TCP: stream chunks)
    pub batches: Vec<Vec<Vec<u8>>>,
    pub tcp: bool,
    pub expected: Value,
    pub unordered: Vec<Value>,
    pub values: HashMap<String, Value>,
    /// the fragments of the multi-datagram part (for C08), index into batches
    pub multi: Option<usize>,
    /// false: even the smallest concretisation of this shape exceeds the size of a datagram a real server sends (D17)
    pub fits: bool,
}

fn items_of(v: &Value) -> &[Value] { v.as_array().map(|a| a.as_slice()).unwrap_or(&[]) }

fn varint(v: i32) -> Vec<u8> {
    let mut u = v as u32;
    let mut out = Vec::new();
    loop {
        let b = (u & 0x7f) as u8;
        u >>= 7;
        if u == 0 {
            out.push(b);
            break;
        }
        out.push(b | 0x80);
    }
    out
}

/// Largest datagram a conforming server sends for this entry: protocols with a multi-datagram mechanism keep each
/// datagram within an MTU-sized packet; the others send one datagram whatever its size (the format's own limits apply:
/// Mindustry's 500-byte buffer, JC2M's single GameSpy 3 packet).
pub fn datagram_limit(entry: &str) -> usize {
    match entry {
        "gs1" => 1000,
        "unreal2" => 1000,
        "gs3" | "jc2m" => 2000,
        "mindustry" => 500,
        _ => 65507,
    }
}

/// Build a fault-free reply for layout `l` whose datagrams respect `datagram_limit`: more parts / datagrams where the
/// protocol has them, shorter strings otherwise. None: the shape cannot be sent within the limit (e.g. 64 long names in
/// one JC2M packet).
pub fn build(rng: &mut StdRng, l: &Value) -> Built {
    let entry = l["layout"]["entry"].as_str().unwrap().to_string();
    let limit = datagram_limit(&entry);
    let outer = STRCLASS.with(|s| s.borrow().clone());
    let mut l2 = l.clone();
    for attempt in 0 .. 12 {
        if outer.is_empty() {
            match attempt {
                0 | 1 => {}
                2 ..= 5 => set_strclass("plain"),
                _ => set_strclass("empty"),
            }
        }
        let b = build_raw(rng, &l2);
        set_strclass(&outer);
        let too_big = !b.tcp && b.batches.iter().flatten().any(|d| d.len() > limit);
        if !too_big {
            return b;
        }
        // more parts / datagrams where the protocol allows it
        match entry.as_str() {
            "gs1" => {
                let p = l2["layout"]["parts"].as_u64().unwrap_or(1);
                l2["layout"]["parts"] = json!(p * 2 + 1);
            }
            "unreal2" => {
                if l2["layout"].get("datagrams").is_some() {
                    let p = l2["layout"]["datagrams"].as_u64().unwrap_or(1);
                    l2["layout"]["datagrams"] = json!(p * 2 + 1);
                }
            }
            _ => {}
        }
    }
    let mut b = build_raw(rng, &l2);
    set_strclass(&outer);
    b.fits = b.tcp || !b.batches.iter().flatten().any(|d| d.len() > limit);
    b
}

/// A fault-free reply for one of `cands` that a server can send within the datagram sizes of D17: candidates are drawn until
/// one fits (callers that do not care which shape they get).
pub fn build_fitting(rng: &mut StdRng, cands: &[&Value]) -> Built {
    let mut last = None;
    for _ in 0 .. 60 {
        let l = cands[rng.gen_range(0 .. cands.len())];
        let b = build(rng, l);
        if b.fits {
            return b;
        }
        last = Some(b);
    }
    last.unwrap()
}

fn build_raw(rng: &mut StdRng, l: &Value) -> Built {
    let lay = &l["layout"];
    let entry = lay["entry"].as_str().unwrap();
    let fixed = HashMap::new();
    let unordered: Vec<Value> = lay["unordered"].as_array().cloned().unwrap_or_default();
    match entry {
        "quake1" | "quake2" | "quake3" | "gs2" | "bedrock" | "savage2" | "mindustry" | "ffow" => {
            let enc = encode(rng, items_of(&lay["items"]), &fixed);
            Built {
                batches: vec![vec![enc.bytes]],
                tcp: false,
                expected: expected(items_of(&lay["expect"]), &enc.values),
                unordered,
                values: enc.values,
                multi: None,
                fits: true,
            }
        }
        "gs1" => {
            // encode all groups with one value namespace, then deal them over the parts
            let groups = items_of(&lay["groups"]);
            let flat: Vec<Value> = groups.iter().flat_map(|g| items_of(g).to_vec()).collect();
            let enc = encode(rng, &flat, &fixed);
            // byte range of each group
            let mut bounds = Vec::new();
            let mut idx = 0;
            for g in groups {
                let n = items_of(g).len();
                let start = enc.offsets[idx];
                let end = if idx + n < enc.offsets.len() { enc.offsets[idx + n] } else { enc.bytes.len() };
                bounds.push((start, end));
                idx += n;
            }
            let parts = (lay["parts"].as_u64().unwrap() as usize).min(bounds.len().max(1));
            let qid: u32 = rng.gen_range(1 .. 100);
            let mut out = Vec::new();
            for p in 0 .. parts {
                let lo = p * bounds.len() / parts;
                let hi = (p + 1) * bounds.len() / parts;
                let mut d = Vec::new();
                for b in &bounds[lo .. hi] {
                    d.extend(&enc.bytes[b.0 .. b.1]);
                }
                d.extend(format!("\\queryid\\{}.{}", qid, p + 1).as_bytes());
                if p + 1 == parts {
                    d.extend(b"\\final\\");
                }
                out.push(d);
            }
            Built {
                batches: vec![out],
                tcp: false,
                expected: expected(items_of(&lay["expect"]), &enc.values),
                unordered,
                values: enc.values,
                multi: Some(0),
                fits: true,
            }
        }
        "gs3" => {
            let packets = items_of(&lay["packets"]);
            let flat: Vec<Value> = packets.iter().flat_map(|g| items_of(g).to_vec()).collect();
            let enc = encode(rng, &flat, &fixed);
            let mut out = Vec::new();
            let mut idx = 0;
            for g in packets {
                let n = items_of(g).len();
                let start = enc.offsets[idx];
                let end = if idx + n < enc.offsets.len() { enc.offsets[idx + n] } else { enc.bytes.len() };
                out.push(enc.bytes[start .. end].to_vec());
                idx += n;
            }
            let chal: i32 = gs3_challenge(rng);
            Built {
                batches: vec![vec![gs3_handshake_reply(chal)], out],
                tcp: false,
                expected: expected(items_of(&lay["expect"]), &enc.values),
                unordered,
                values: {
                    let mut v = enc.values;
                    v.insert("__chal".into(), json!(chal));
                    v
                },
                multi: Some(1),
                fits: true,
            }
        }
        "jc2m" => {
            let enc = encode(rng, items_of(&lay["items"]), &fixed);
            let chal: i32 = gs3_challenge(rng);
            Built {
                batches: vec![vec![gs3_handshake_reply(chal)], vec![enc.bytes]],
                tcp: false,
                expected: expected(items_of(&lay["expect"]), &enc.values),
                unordered,
                values: {
                    let mut v = enc.values;
                    v.insert("__chal".into(), json!(chal));
                    v
                },
                multi: None,
                fits: true,
            }
        }
        "unreal2" => {
            if lay["section"] == "info" {
                // string sweep: info only (rules / players sections answered with empty lists)
                let enc = encode(rng, items_of(&lay["items"]), &fixed);
                let mut exp = expected(items_of(&lay["expect"]), &enc.values);
                exp["server_info"]["password"] = json!(false);
                exp["mutators_and_rules"] = json!({"mutators": [], "rules": {}});
                exp["players"] = json!({"players": [], "bots": []});
                return Built {
                    batches: vec![vec![enc.bytes], vec![vec![0x80, 0, 0, 0, 1]], vec![vec![0x80, 0, 0, 0, 2]]],
                    tcp: false,
                    expected: exp,
                    unordered,
                    values: enc.values,
                    multi: None,
                    fits: true,
                };
            }
            let secs = &lay["sections"];
            let info_items = items_of(&secs["info"][0]);
            // one namespace for all sections
            let mut all: Vec<Value> = info_items.to_vec();
            let mut marks = vec![(0usize, info_items.len())];
            for s in ["rules", "players"] {
                for e in items_of(&secs[s]["entries"]) {
                    marks.push((all.len(), items_of(e).len()));
                    all.extend(items_of(e).to_vec());
                }
            }
            let enc = encode(rng, &all, &fixed);
            let range = |m: (usize, usize)| {
                let start = enc.offsets[m.0];
                let end = if m.0 + m.1 < enc.offsets.len() { enc.offsets[m.0 + m.1] } else { enc.bytes.len() };
                enc.bytes[start .. end].to_vec()
            };
            let info = range(marks[0]);
            let nrules = items_of(&secs["rules"]["entries"]).len();
            let k = lay["datagrams"].as_u64().unwrap() as usize;
            // the entries of a list are dealt over k datagrams at random boundaries (a server fills each datagram as far as its
            // strings allow; nothing in the format fixes where a list is cut); every datagram carries at least one entry
            let deal = |rng: &mut StdRng, head: u8, entries: &[(usize, usize)]| -> Vec<Vec<u8>> {
                let mut out = Vec::new();
                let k = k.min(entries.len().max(1));
                let mut cuts: Vec<usize> = if rng.gen_bool(0.5) {
                    (1 .. k).map(|d| d * entries.len() / k).collect()
                } else {
                    let mut c: Vec<usize> = (1 .. entries.len()).collect();
                    c.shuffle(rng);
                    c.truncate(k - 1);
                    c.sort();
                    c
                };
                cuts.insert(0, 0);
                cuts.push(entries.len());
                for d in 0 .. k {
                    let (lo, hi) = (cuts[d], cuts[d + 1]);
                    let mut b = vec![0x80, 0, 0, 0, head];
                    for m in &entries[lo .. hi] {
                        b.extend(range(*m));
                    }
                    out.push(b);
                }
                out
            };
            let rules = deal(rng, 1, &marks[1 .. 1 + nrules]);
            // (a server whose info count leaves the bots out sends its players reply in one datagram: `players_datagrams`)
            let players = if lay["players_datagrams"].as_u64() == Some(1) {
                let mut b = vec![0x80, 0, 0, 0, 2];
                for m in &marks[1 + nrules ..] {
                    b.extend(range(*m));
                }
                vec![b]
            } else {
                deal(rng, 2, &marks[1 + nrules ..])
            };
            Built {
                batches: vec![vec![info], rules, players],
                tcp: false,
                expected: expected(items_of(&lay["expect"]), &enc.values),
                unordered,
                values: enc.values,
                multi: Some(1),
                fits: true,
            }
        }
        "java" => {
            let enc = encode(rng, items_of(&lay["items"]), &fixed);
            let doc = json_subtree(&enc.values, "");
            let text = serde_json::to_string(&doc).unwrap();
            // the two VarInt length prefixes (string length, frame length) are items like any other for the hostile catalogue
            let strlen = crate::layout::visit_item(rng, &json!({"k":"f","ty":"varint","f":"__strlen"}), varint(text.len() as i32));
            let body = [vec![0x00], strlen, text.into_bytes()].concat();
            let framelen = crate::layout::visit_item(rng, &json!({"k":"f","ty":"varint","f":"__framelen"}), varint(body.len() as i32));
            let stream = [framelen, body].concat();
            Built {
                // handshake, status request, ping: the status comes after the request; the server closes after the ping
                batches: vec![vec![], vec![stream], vec![]],
                tcp: true,
                expected: expected(items_of(&lay["expect"]), &enc.values),
                unordered,
                values: enc.values,
                multi: None,
                fits: true,
            }
        }
        "legacy16" | "legacy14" | "legacyb18" => {
            let enc = encode(rng, items_of(&lay["items"]), &fixed);
            // (a mutated text may not be UTF-8: the invalid bytes become an unpaired surrogate unit)
            let text = String::from_utf8_lossy(&enc.bytes).to_string();
            let units: Vec<u16> = text.encode_utf16().map(|u| if u == 0xfffd { 0xd800 } else { u }).collect();
            let mut stream = vec![0xff];
            stream.extend((units.len() as u16).to_be_bytes());
            for u in units {
                stream.extend(u.to_be_bytes());
            }
            Built {
                batches: vec![vec![stream]],
                tcp: true,
                expected: expected(items_of(&lay["expect"]), &enc.values),
                unordered,
                values: enc.values,
                multi: None,
                fits: true,
            }
        }
        e => panic!("no builder for entry {e}"),
    }
}

pub fn gs3_challenge(rng: &mut StdRng) -> i32 {
    match rng.gen_range(0 .. 8) {
        0 => 0,
        1 => 1,
        2 => -1,
        3 => i32::MIN,
        4 => i32::MAX,
        _ => rng.gen(),
    }
}

pub fn gs3_handshake_reply(chal: i32) -> Vec<u8> {
    let mut d = vec![0x09, 0, 0, 0, 1];
    d.extend(chal.to_string().as_bytes());
    d.push(0);
    d
}

/// Turn the reaction batches of a `Built` into a script (one connection).
pub fn script_of(b: &Built) -> ScriptJ {
    ScriptJ {
        conns: vec![ConnJ {
            refuse: false,
            on_send: b
                .batches
                .iter()
                .enumerate()
                .map(|(i, batch)| {
                    ReactionJ {
                        fail: false,
                        batch: batch.iter().map(|d| hex(d)).collect(),
                        close: b.tcp && i + 1 == b.batches.len(),
                    }
                })
                .collect(),
        }],
    }
}

/// Call the protocol-level entry point named `entry` (retries as given, default gather settings unless stated).
pub fn call(entry: &str, script: &ScriptJ, port: u16, retries: usize, gather: Option<(&str, &str)>) -> CallRecord {
    let a = addr(port);
    let ip = a.ip();
    let t = timeouts(retries);
    let m = DEFAULT_MAX_OPS;
    match entry {
        "quake1" => run_call(script, m, || quake::one::query(&a, t)),
        "quake2" => run_call(script, m, || quake::two::query(&a, t)),
        "quake3" => run_call(script, m, || quake::three::query(&a, t)),
        "gs1" => run_call(script, m, || gamespy::one::query(&a, t)),
        "gs1vars" => run_call(script, m, || gamespy::one::query_vars(&a, t)),
        "gs2" => run_call(script, m, || gamespy::two::query(&a, t)),
        "gs3" => run_call(script, m, || gamespy::three::query(&a, t)),
        "gs3vars" => run_call(script, m, || gamespy::three::query_vars(&a, t)),
        "jc2m" => run_call(script, m, || jc2m::query_with_timeout(&ip, Some(port), t)),
        "unreal2" => {
            let g = match gather {
                None => unreal2::GatheringSettings {
                    players: GatherToggle::Enforce,
                    mutators_and_rules: GatherToggle::Enforce,
                },
                Some((p, r)) => unreal2::GatheringSettings {
                    players: crate::valve::toggle(p),
                    mutators_and_rules: crate::valve::toggle(r),
                },
            };
            run_call(script, m, || unreal2::query(&a, &g, t))
        }
        "java" => run_call(script, m, || minecraft::protocol::query_java(&a, t, None)),
        "bedrock" => run_call(script, m, || minecraft::protocol::query_bedrock(&a, t)),
        "legacy16" => run_call(script, m, || minecraft::protocol::query_legacy_specific(minecraft::LegacyGroup::V1_6, &a, t)),
        "legacy14" => run_call(script, m, || minecraft::protocol::query_legacy_specific(minecraft::LegacyGroup::V1_4, &a, t)),
        "legacyb18" => run_call(script, m, || minecraft::protocol::query_legacy_specific(minecraft::LegacyGroup::VB1_8, &a, t)),
        "ffow" => run_call(script, m, || ffow::query_with_timeout(&ip, Some(port), t)),
        "savage2" => run_call(script, m, || savage2::query_with_timeout(&ip, Some(port), t)),
        "mindustry" => run_call(script, m, || mindustry::query(&ip, Some(port), &t)),
        e => panic!("no entry point {e}"),
    }
}

/// A row of the definitions table that speaks this protocol (the same exchange through the definition-driven entry point).
pub fn row_of(entry: &str) -> Option<&'static str> {
    Some(match entry {
        "quake1" => "quake1",
        "quake2" => "quake2",
        "quake3" => "q3a",
        "gs1" => "unrealtournament",
        "gs2" => "hce",
        "gs3" => "crysiswars",
        "jc2m" => "jc2m",
        "java" => "minecraftjava",
        "bedrock" => "minecraftbedrock",
        "legacy16" => "minecraftlegacy16",
        "legacy14" => "minecraftlegacy14",
        "legacyb18" => "minecraftlegacyb18",
        "ffow" => "ffow",
        "savage2" => "savage2",
        "mindustry" => "mindustry",
        _ => return None,
    })
}

/// `call` through the definition-driven entry point of `row_of(entry)` (the caller's timeout settings, no extra settings).
pub fn call_generic(id: &str, script: &ScriptJ, port: u16, retries: usize) -> CallRecord {
    let game = gamedig::GAMES.get(id).expect("table row");
    let ip = addr(port).ip();
    run_call_json(script, DEFAULT_MAX_OPS, move || {
        match gamedig::query_with_timeout_and_extra_settings(game, &ip, Some(port), timeouts(retries), None) {
            Ok(r) => Ok(crate::valve::strip_enum_wrappers(&serde_json::to_value(r.as_original()).unwrap()).clone()),
            Err(e) => Err(format!("{:?}", e.kind)),
        }
    })
}

pub fn property_of(entry: &str) -> &'static str {
    match entry {
        "quake1" | "quake2" | "quake3" => "C05",
        "gs1" | "gs2" | "gs3" | "gs1vars" | "gs3vars" => "C04",
        "unreal2" => "C06",
        "java" | "bedrock" | "legacy16" | "legacy14" | "legacyb18" => "C03",
        _ => "C07",
    }
}

/// C03-C07 layout replay: every shape x `reps` random server states through the real entry point.
pub fn replay_layouts(layouts: &LayoutSet, protos: &[&str], seed: u64, reps: usize, rep: &mut Report) {
    let mut rng = StdRng::seed_from_u64(seed);
    for l in layouts.all.iter() {
        let p = l["proto"].as_str().unwrap();
        if !protos.contains(&p) {
            continue;
        }
        let entry = l["layout"]["entry"].as_str().unwrap().to_string();
        let prop = property_of(&entry);
        for n in 0 ..= reps {
            // boundary concretisation first: every string as short as its format allows (empty where it may be)
            if n == 0 {
                if p == "unreal2str" {
                    continue; // the string sweep fixes its lengths itself
                }
                set_strclass("empty");
            }
            let b = build(&mut rng, l);
            set_strclass("");
            if !b.fits {
                // not a reply a server can send (e.g. 64 players in one GameSpy 3 packet)
                let n = rep.extra.get("skipped_oversize").and_then(|v| v.as_u64()).unwrap_or(0);
                rep.extra.insert("skipped_oversize".into(), json!(n + 1));
                continue;
            }
            let script = script_of(&b);
            let rec = call(&entry, &script, 27015, 0, None);
            rep.evaluations += 1;
            let case = json!({"proto": p, "shape": l["shape"], "entry": entry});
            judge_value(prop, &entry, &case, &b, &script, &rec, rep);
            // raw-variables queries return exactly the key/value pairs sent
            if entry == "gs1" || entry == "gs3" {
                let ve = format!("{entry}vars");
                let rec = call(&ve, &script, 27015, 0, None);
                rep.evaluations += 1;
                let want = vars_expected(&entry, l, &b);
                let bb = Built {
                    expected: want,
                    ..b.clone()
                };
                judge_value(prop, &ve, &case, &bb, &script, &rec, rep);
            }
        }
        rep.distinct.insert(hash_of(&(p, l["shape"].to_string())));
        rep.sample(&json!({"proto": p, "shape": l["shape"]}));
    }
}

/// the raw key/value pairs a GameSpy 1 / 3 reply carries (literal keys and drawn values, in the layout)
fn vars_expected(entry: &str, l: &Value, b: &Built) -> Value {
    let lay = &l["layout"];
    let items: Vec<Value> = if entry == "gs1" {
        items_of(&lay["groups"]).iter().flat_map(|g| items_of(g).to_vec()).collect()
    } else {
        // only the variables section of the first packet: up to the first section marker (a lone 01 / 02 literal)
        let first = items_of(&items_of(&lay["packets"])[0]).to_vec();
        let mut out = Vec::new();
        for it in first.into_iter().skip(5) {
            if it["k"] == "lit" && (it["b"] == json!([1]) || it["b"] == json!([2])) {
                break;
            }
            out.push(it);
        }
        out
    };
    // reconstruct pairs: text/key item followed (possibly after separators) by a value item
    let mut map = serde_json::Map::new();
    let mut pending: Option<String> = None;
    for it in &items {
        let tok: Option<String> = match it["k"].as_str().unwrap() {
            "txt" => {
                let s = it["s"].as_str().unwrap().trim_matches('\\').to_string();
                if s.is_empty() { None } else { Some(s) }
            }
            "f" => Some(match &b.values[it["f"].as_str().unwrap()] {
                Value::String(s) => s.clone(),
                v => v.to_string(),
            }),
            _ => None,
        };
        if it["k"] == "f" && it["ty"] != "atext" {
            if let Some(k) = pending.take() {
                map.insert(k, json!(tok.unwrap()));
            }
            continue;
        }
        if let Some(t) = tok {
            if let Some(k) = pending.take() {
                // a literal value (e.g. numplayers)
                map.insert(k, json!(t));
            } else {
                pending = Some(t);
            }
        }
    }
    Value::Object(map)
}

pub fn judge_value(prop: &'static str, entry: &str, case: &Value, b: &Built, script: &ScriptJ, rec: &CallRecord, rep: &mut Report) {
    let viol: Option<(String, Value)> = match &rec.outcome {
        Outcome::Ok(v) => {
            let mut got = v.clone();
            let mut want = b.expected.clone();
            normalise_unordered(&mut got, &b.unordered);
            normalise_unordered(&mut want, &b.unordered);
            diff("", &want, &got).map(|d| (format!("{entry}: response differs at {}", diff_class(&d)), json!({"diff": d})))
        }
        Outcome::Err(k) => Some((format!("{entry}: well-formed reply rejected with {k}"), json!({"err": k}))),
        Outcome::Panic { msg } => Some((format!("{entry}: panic {}", crate::valve::first_line(msg)), json!({"panic": msg}))),
        Outcome::Hang => Some((format!("{entry}: does not return"), json!({}))),
    };
    if let Some((sig, detail)) = viol {
        rep.violation(
            prop,
            &sig,
            json!({"kind":"proto-layout","entry":entry,"case":case,"script":script,"expected":b.expected,
                   "unordered":b.unordered,"detail":detail,"outcome":rec.outcome.to_json()}),
        );
    }
}
