//! C08: replay of the delivery schedules enumerated by Reassembly.tla.
use crate::layout::*;
use crate::proto;
use crate::transport::*;
use crate::util::*;
use crate::valve;
use rand::prelude::*;
use serde_json::{json, Value};

fn reorder(frags: &[Vec<u8>], order: &[usize]) -> Vec<Vec<u8>> { order.iter().map(|i| frags[*i].clone()).collect() }

#[derive(Clone)]
struct Case {
    name: String,
    entry: String,
    /// reaction batches of the in-order exchange; `multi` is the index of the fragmented batch
    batches: Vec<Vec<Vec<u8>>>,
    multi: usize,
    expected: Value,
    unordered: Vec<Value>,
    valve: Option<Value>, // engine for valve cases
}

thread_local! { static BZ_POOL: std::cell::RefCell<std::collections::HashMap<usize, Vec<Case>>> = std::cell::RefCell::new(std::collections::HashMap::new()); }

fn cases_for(rng: &mut StdRng, vctx: &valve::Ctx, players: &LayoutSet, mode: &str, k: usize, comp: bool) -> Vec<Case> {
    let mut out = Vec::new();
    match mode {
        "all" => {
            // Source plain, GoldSrc, Source bzip2-compressed (size + CRC32 only in fragment 0, wherever it arrives)
            for (gold, bz) in [(false, false), (true, false), (false, true)] {
                if bz != comp {
                    continue; // the schedule says whether the reply is compressed (Reassembly.tla: comp)
                }
                if bz {
                    // compressing costs a python3 process: a pool of 12 compressed responses per fragment count is reused
                    let pooled = BZ_POOL.with(|p| p.borrow().get(&k).filter(|v| v.len() >= 12).map(|v| v[rng.gen_range(0 .. v.len())].clone()));
                    if let Some(c) = pooled {
                        out.push(c);
                        continue;
                    }
                }
                let engine = if gold { json!({"t":"goldsrc","force":false}) } else { json!({"t":"source_none"}) };
                let mut batches = Vec::new();
                let mut expected = json!({});
                let target = if rng.gen_bool(0.5) { "rules" } else { "players" };
                let mut multi = 0;
                let mut fits = true;
                for (i, sec) in ["info", "players", "rules"].iter().enumerate() {
                    // enough content to cut into k non-trivial pieces, little enough for k MTU-sized fragments
                    let filt = |s: &Value| s["n"].as_u64().map_or(true, |n| (2 ..= 8).contains(&n));
                    let small = |s: &Value| s["n"].as_u64().map_or(true, |n| n <= 8);
                    let (payload, exp, _) = valve::build_section(rng, vctx, sec, &engine, 440, Some(if *sec == target { &filt } else { &small }), None);
                    expected[*sec] = exp[*sec].clone();
                    if *sec == target {
                        multi = i;
                        fits &= payload.len() <= k * 1200 && (!bz || payload.len() >= 64);
                        batches.push(valve::split(rng, vctx, &payload, k, gold, true, bz));
                    } else {
                        fits &= payload.len() <= 1400;
                        batches.push(vec![payload]);
                    }
                }
                if !fits {
                    continue;
                }
                let case = Case {
                    name: format!("valve {} split ({target})", if gold { "goldsrc" } else if bz { "source bz2" } else { "source" }),
                    entry: "valve".into(),
                    batches,
                    multi,
                    expected,
                    unordered: vec![],
                    valve: Some(engine),
                };
                if bz {
                    BZ_POOL.with(|p| p.borrow_mut().entry(k).or_default().push(case.clone()));
                }
                out.push(case);
            }
        }
        "last" | "none" => {
            let protos: &[&str] = if mode == "last" { &["gs1", "gs3"] } else { &["unreal2"] };
            for p in protos {
                let cands: Vec<&Value> = players
                    .of(p, "reply")
                    .into_iter()
                    .filter(|l| {
                        let s = &l["shape"];
                        match *p {
                            "gs1" => s["parts"] == 1 && s["players"].as_u64().unwrap() + 6 >= k as u64,
                            "gs3" => s["packets"] == k as u64,
                            _ => s["datagrams"] == 1 && (s["rules"].as_u64().unwrap() + s["mutators"].as_u64().unwrap() >= k as u64
                                                         || s["players"].as_u64().unwrap() + s["bots"].as_u64().unwrap() >= k as u64),
                        }
                    })
                    .collect();
                if cands.is_empty() {
                    continue;
                }
                let l = cands[rng.gen_range(0 .. cands.len())];
                let mut l2 = (*l).clone();
                match *p {
                    "gs1" => l2["layout"]["parts"] = json!(k),
                    "unreal2" => l2["layout"]["datagrams"] = json!(k),
                    _ => {}
                }
                let b = proto::build(rng, &l2);
                let mut multi = b.multi.expect("multi-datagram builder");
                let lim = proto::datagram_limit(p);
                if b.batches.iter().flatten().any(|d| d.len() > lim) {
                    continue; // this response does not fit into k datagrams
                }
                if *p == "unreal2" {
                    // the fragmented section is the one with at least k entries
                    let s = &l["shape"];
                    multi = if s["rules"].as_u64().unwrap() + s["mutators"].as_u64().unwrap() >= k as u64 { 1 } else { 2 };
                }
                if b.batches[multi].len() != k {
                    continue; // (the builder needed more datagrams than k for this response)
                }
                out.push(Case {
                    name: format!("{p} x{k}"),
                    entry: p.to_string(),
                    batches: b.batches.clone(),
                    multi,
                    expected: b.expected.clone(),
                    unordered: b.unordered.clone(),
                    valve: None,
                });
            }
        }
        _ => {}
    }
    out
}

fn run_case(c: &Case, order: Option<&[usize]>) -> (ScriptJ, CallRecord) {
    let mut batches = c.batches.clone();
    if let Some(o) = order {
        batches[c.multi] = reorder(&c.batches[c.multi], o);
    }
    let script = ScriptJ::udp(batches);
    let rec = match &c.valve {
        Some(engine) => {
            let e = valve::engine_of(engine);
            let g = gamedig::protocols::valve::GatheringSettings {
                players: gamedig::protocols::types::GatherToggle::Enforce,
                rules: gamedig::protocols::types::GatherToggle::Enforce,
                check_app_id: false,
            };
            run_call(&script, DEFAULT_MAX_OPS, move || gamedig::protocols::valve::query(&valve::addr(27015), e, Some(g), valve::timeouts(0)))
        }
        None => proto::call(&c.entry, &script, 27015, 0, None),
    };
    (script, rec)
}

pub fn replay(vctx: &valve::Ctx, players: &LayoutSet, schedules: &[Value], seed: u64, reps: usize, rep: &mut Report) {
    let mut rng = StdRng::seed_from_u64(seed);
    let mut seen = std::collections::HashSet::new();
    for s in schedules {
        let k = s["k"].as_u64().unwrap() as usize;
        let mode = s["mode"].as_str().unwrap();
        let order: Vec<usize> = s["order"].as_array().unwrap().iter().map(|x| x.as_u64().unwrap() as usize).collect();
        let dup = s["dup"].as_bool().unwrap();
        let comp = s["comp"].as_bool().unwrap_or(false);
        if !seen.insert((k, mode.to_string(), comp, order.clone())) {
            continue; // the same schedule is emitted once per allowed outcome
        }
        for _ in 0 .. reps {
            for c in cases_for(&mut rng, vctx, players, mode, k, comp) {
                rep.evaluations += 1;
                // reference: the same real code with in-order delivery (must itself equal the spec's expectation)
                let (_, inorder) = run_case(&c, None);
                let (script, rec) = run_case(&c, Some(&order));
                let norm = |v: &Value| {
                    let mut v = v.clone();
                    normalise_unordered(&mut v, &c.unordered);
                    v
                };
                let mut want = norm(&c.expected);
                if c.valve.is_some() {
                    want = json!({"info": c.expected["info"], "players": c.expected["players"], "rules": c.expected["rules"]});
                }
                let verdict: Option<String> = match (&rec.outcome, dup) {
                    (Outcome::Ok(v), _) => {
                        let got = norm(v);
                        match diff("", &want, &got) {
                            Some(d) => Some(format!("{}: {} delivery returns a response that differs from the in-order one at {}",
                                                    c.name, if dup { "duplicated" } else { "permuted" }, diff_class(&d))),
                            None => {
                                match &inorder.outcome {
                                    Outcome::Ok(iv) if diff("", &norm(iv), &got).is_none() => None,
                                    _ => Some(format!("{}: in-order delivery of the same fragments does not give the expected response", c.name)),
                                }
                            }
                        }
                    }
                    (Outcome::Err(_), true) => None, // a duplicate may cause an error
                    (Outcome::Err(e), false) => Some(format!("{}: permuted delivery fails with {e} (in-order: {})", c.name, inorder.outcome.class())),
                    (Outcome::Panic { msg }, _) => Some(format!("{}: panic {}", c.name, valve::first_line(msg))),
                    (Outcome::Hang, _) => Some(format!("{}: does not return", c.name)),
                };
                if let Some(sig) = verdict {
                    rep.violation(
                        "C08",
                        &sig,
                        json!({"kind":"reassembly","schedule":s,"case":c.name,"script":script,"expected":want,
                               "outcome":rec.outcome.to_json(),"inorder":inorder.outcome.class()}),
                    );
                }
            }
        }
        rep.distinct.insert(hash_of(&(k, mode, comp, &order)));
        rep.sample(s);
    }
}

/// Implementation -> specification: random deliveries (more fragments, up to two duplicates, possibly one fragment that never
/// arrives) through the real clients, recorded for Trace_Reassembly.tla.
pub fn trace_random(vctx: &valve::Ctx, players: &LayoutSet, seed: u64, runs: usize, rep: &mut Report, out: &mut Vec<Value>) {
    use gamedig::verif_hook as hook;
    let mut rng = StdRng::seed_from_u64(seed ^ 0x7ea55);
    let mut ix = 0usize;
    while ix < runs {
        let (mode, comp) = match rng.gen_range(0 .. 10) {
            0 ..= 3 => ("all", false),
            4 | 5 => ("all", true),
            6 ..= 8 => ("last", false),
            _ => ("none", false),
        };
        let k = if mode == "all" { rng.gen_range(2 ..= 8) } else { rng.gen_range(2 ..= 5) };
        let cases = cases_for(&mut rng, vctx, players, mode, k, comp);
        if cases.is_empty() {
            continue;
        }
        let c = &cases[rng.gen_range(0 .. cases.len())];
        let k = c.batches[c.multi].len();
        // delivery sequence
        let mut order: Vec<usize> = (0 .. k).collect();
        order.shuffle(&mut rng);
        if mode != "none" {
            if rng.gen_bool(0.25) {
                let drop = rng.gen_range(0 .. order.len());
                order.remove(drop);
            }
            for _ in 0 .. [0usize, 0, 1, 1, 2][rng.gen_range(0 .. 5)] {
                let src = rng.gen_range(0 .. order.len());
                let at = rng.gen_range(src + 1 ..= order.len());
                let v = order[src];
                order.insert(at, v);
            }
        }
        let (_, inorder) = run_case(c, None);
        let (script, rec) = run_case(c, Some(&order));
        rep.evaluations += 1;
        rep.distinct.insert(hash_of(&(c.name.clone(), k, &order)));
        out.push(json!({"ev":"Call","ix":ix,"mode":mode,"k":k,"comp":comp,"case":c.name,"order":order}));
        // (two fragments can be byte-identical - a list datagram that repeats an entry: a consumed datagram is matched with a
        // fragment of the same bytes that was delivered but not yet accounted for, in delivery order)
        let mut pending: Vec<usize> = order.clone();
        for e in &rec.events {
            if let hook::Event::Recv { out: o, .. } = e {
                match o {
                    hook::RecvOut::Data(d) => {
                        let frags = &c.batches[c.multi];
                        if let Some(pos) = pending.iter().position(|i| &frags[*i] == d) {
                            let i = pending.remove(pos);
                            out.push(json!({"ev":"Deliver","i":i}));
                        } else if let Some(i) = frags.iter().position(|f| f == d) {
                            out.push(json!({"ev":"Deliver","i":i}));
                        }
                    }
                    hook::RecvOut::Timeout => out.push(json!({"ev":"Silence"})),
                }
            }
        }
        let norm = |v: &Value| {
            let mut v = v.clone();
            normalise_unordered(&mut v, &c.unordered);
            v
        };
        let res = match (&rec.outcome, &inorder.outcome) {
            (Outcome::Ok(v), Outcome::Ok(iv)) => if diff("", &norm(iv), &norm(v)).is_none() { "same" } else { "differs" },
            (Outcome::Ok(_), _) => "differs",
            (Outcome::Err(_), _) => "error",
            (Outcome::Panic { msg }, _) => {
                rep.violation("C08", &format!("{}: panic {}", c.name, valve::first_line(msg)), json!({"kind":"reassembly-trace","case":c.name,"order":order,"script":script}));
                out.truncate(out.iter().rposition(|e| e["ev"] == "Call").unwrap());
                ix += 1;
                continue;
            }
            (Outcome::Hang, _) => {
                rep.violation("C08", &format!("{}: does not return", c.name), json!({"kind":"reassembly-trace","case":c.name,"order":order,"script":script}));
                out.truncate(out.iter().rposition(|e| e["ev"] == "Call").unwrap());
                ix += 1;
                continue;
            }
        };
        out.push(json!({"ev":"Return","res":res}));
        if std::env::var("VH_DUMP_RUN").ok().and_then(|v| v.parse::<usize>().ok()) == Some(ix) {
            eprintln!("DUMP run {ix}: case {} order {:?}\n script {}\n outcome {}\n inorder {}", c.name, order, serde_json::to_string(&script).unwrap(),
                      rec.outcome.to_json(), inorder.outcome.to_json());
        }
        ix += 1;
    }
}
