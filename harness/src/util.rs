//! Shared plumbing: report accumulation, hashing, panic capture, random values.
use rand::prelude::*;
use serde_json::{json, Value};
use std::cell::RefCell;
use std::collections::hash_map::DefaultHasher;
use std::collections::{BTreeMap, HashSet};
use std::hash::{Hash, Hasher};

thread_local! {
    static LAST_PANIC: RefCell<Option<String>> = const { RefCell::new(None) };
}

pub fn install_panic_hook() {
    std::panic::set_hook(Box::new(|info| {
        let msg = if let Some(s) = info.payload().downcast_ref::<&str>() {
            (*s).to_string()
        } else if let Some(s) = info.payload().downcast_ref::<String>() {
            s.clone()
        } else {
            "<non-string panic>".to_string()
        };
        let loc = info
            .location()
            .map(|l| {
                let f = l.file();
                // file only: signatures must survive unrelated edits (no line numbers)
                match f.rfind("crates/") {
                    Some(i) => f[i ..].to_string(),
                    None => f.rsplit('/').take(3).collect::<Vec<_>>().into_iter().rev().collect::<Vec<_>>().join("/"),
                }
            })
            .unwrap_or_default();
        LAST_PANIC.with(|p| *p.borrow_mut() = Some(format!("{msg} @ {loc}")));
    }));
}

pub fn take_panic() -> String { LAST_PANIC.with(|p| p.borrow_mut().take()).unwrap_or_default() }

pub fn hash_of<T: Hash>(t: &T) -> u64 {
    let mut h = DefaultHasher::new();
    t.hash(&mut h);
    h.finish()
}

#[derive(Default)]
pub struct Report {
    pub evaluations: u64,
    pub distinct: HashSet<u64>,
    pub samples: Vec<Value>,
    pub sample_cap: usize,
    pub violations: Vec<Value>,
    pub violation_sigs: BTreeMap<String, u64>,
    pub drifts: Vec<Value>,
    pub drift_count: u64,
    pub tool_errors: Vec<String>,
    pub extra: BTreeMap<String, Value>,
}

impl Report {
    pub fn new() -> Self {
        Report {
            sample_cap: 5,
            ..Default::default()
        }
    }
    pub fn sample(&mut self, v: &Value) {
        // keep a few spread-out samples: the first, then every power of 4
        let n = self.evaluations;
        if self.samples.len() < self.sample_cap && (n <= 1 || (n & (n - 1)) == 0 && n.trailing_zeros() % 4 == 0) {
            self.samples.push(v.clone());
        }
    }
    /// record a violation; at most 3 full replays are kept per signature
    pub fn violation(&mut self, property: &str, sig: &str, replay: Value) {
        let c = self.violation_sigs.entry(sig.to_string()).or_insert(0);
        *c += 1;
        if *c <= 3 {
            self.violations
                .push(json!({"property": property, "sig": sig, "replay": replay}));
        }
    }
    pub fn drift(&mut self, v: Value) {
        self.drift_count += 1;
        if self.drifts.len() < 10 {
            self.drifts.push(v);
        }
    }
    pub fn tool_error(&mut self, s: &str) {
        if self.tool_errors.len() < 20 {
            self.tool_errors.push(s.to_string());
        }
    }
    pub fn to_json(&self) -> Value {
        json!({
            "evaluations": self.evaluations,
            "distinct": self.distinct.len(),
            "samples": self.samples,
            "violations": self.violations,
            "violation_sigs": self.violation_sigs,
            "drift_count": self.drift_count,
            "drifts": self.drifts,
            "tool_errors": self.tool_errors,
            "extra": self.extra,
        })
    }
}

pub fn read_ndjson(path: &str) -> Vec<Value> {
    let s = std::fs::read_to_string(path).unwrap_or_else(|e| panic!("cannot read {path}: {e}"));
    s.lines()
        .filter(|l| !l.trim().is_empty())
        .map(|l| serde_json::from_str(l).unwrap_or_else(|e| panic!("bad json line in {path}: {e}: {l}")))
        .collect()
}

pub fn write_ndjson(path: &str, lines: &[Value]) {
    use std::io::Write;
    let mut f = std::io::BufWriter::new(std::fs::File::create(path).expect("create trace file"));
    for l in lines {
        writeln!(f, "{}", l).unwrap();
    }
}

// ---- random values ---------------------------------------------------------------------

const SPECIAL_CHARS: &[char] = &[
    ' ', '<', '>', '&', '"', '\'', ';', ':', ',', '.', '_', '-', '/', '=', '[', ']', '{', '}', '§', 'é', 'ß', 'Ж', '日',
    '本', '😀', '\u{7f}', '\u{a0}', '\u{ff}', '\u{100}', '\u{ffff}',
];

/// arbitrary Unicode string without NUL, `min..=max` chars
pub fn random_string(rng: &mut StdRng, min: usize, max: usize) -> String {
    let empty = STRCLASS.with(|s| s.borrow().as_str() == "empty");
    let n = if empty { min } else { match rng.gen_range(0 .. 10) {
        0 => min,
        1 => max,
        2 ..= 5 => rng.gen_range(min ..= max.min(min + 12)),
        _ => rng.gen_range(min ..= max),
    } };
    (0 .. n).map(|_| random_char(rng)).collect()
}

thread_local! {
    /// string class override (C19): "" = the usual mix; "plain" | "markup" | "control" | "nonascii" | "empty"
    pub static STRCLASS: RefCell<String> = const { RefCell::new(String::new()) };
    /// cap 64-bit draws below 2^63 (BSON has no unsigned 64-bit integer)
    pub static CAP_U63: std::cell::Cell<bool> = const { std::cell::Cell::new(false) };
}

pub fn set_strclass(c: &str) { STRCLASS.with(|s| *s.borrow_mut() = c.to_string()); }

pub fn random_char(rng: &mut StdRng) -> char {
    let class = STRCLASS.with(|s| s.borrow().clone());
    match class.as_str() {
        "plain" | "empty" => return rng.gen_range(b'a' ..= b'z') as char,
        "markup" => {
            return if rng.gen_bool(0.5) { ['<', '>', '&', '"', '\'', '/', '=', ']', '!', '-', ';', '#'][rng.gen_range(0 .. 12)] } else { rng.gen_range(b'a' ..= b'z') as char }
        }
        "control" => {
            // (U+0000 is filtered out again by every format that cannot carry it)
            return if rng.gen_bool(0.4) { char::from_u32(rng.gen_range(0u32 ..= 0x1f)).unwrap() } else if rng.gen_bool(0.2) { ['\u{7f}', '\u{85}', '\u{9f}'][rng.gen_range(0 .. 3)] } else { rng.gen_range(b'a' ..= b'z') as char }
        }
        "nonascii" => {
            // (ª µ º ² ¼: letters / numbers for Unicode, not name characters for XML)
            return if rng.gen_bool(0.6) { ['é', 'ß', 'Ж', '日', '本', '😀', '\u{a0}', '\u{ff}', '\u{100}', '\u{fffd}', '\u{2028}', '\u{10ffff}', 'ª', 'µ', 'º', '²', '¼', '\u{b7}'][rng.gen_range(0 .. 18)] } else { rng.gen_range(b'a' ..= b'z') as char }
        }
        _ => {}
    }
    match rng.gen_range(0 .. 10) {
        0 ..= 5 => rng.gen_range(b'a' ..= b'z') as char,
        6 => rng.gen_range(b'0' ..= b'9') as char,
        7 => rng.gen_range(b'A' ..= b'Z') as char,
        _ => SPECIAL_CHARS[rng.gen_range(0 .. SPECIAL_CHARS.len())],
    }
}

/// string over chars accepted by `ok`
pub fn random_string_where(rng: &mut StdRng, min: usize, max: usize, ok: impl Fn(char) -> bool) -> String {
    let empty = STRCLASS.with(|s| s.borrow().as_str() == "empty");
    let n = if empty { min } else { match rng.gen_range(0 .. 10) {
        0 => min,
        1 => max,
        2 ..= 5 => rng.gen_range(min ..= max.min(min + 12)),
        _ => rng.gen_range(min ..= max),
    } };
    // "near-names": a letter, then characters that Unicode calls letters / numbers and XML does not accept in names
    let nonascii = STRCLASS.with(|s| s.borrow().as_str() == "nonascii");
    if nonascii && min <= 3 && max >= 3 && rng.gen_bool(0.2) {
        let bad = ['ª', 'µ', 'º', '²', '¼'];
        let cand: String = [rng.gen_range(b'a' ..= b'z') as char, bad[rng.gen_range(0 .. bad.len())], rng.gen_range(b'a' ..= b'z') as char].iter().collect();
        if cand.chars().all(&ok) {
            return cand;
        }
    }
    // names that ARE names for XML and carry a 2-, 3- or 4-byte character at every early byte offset (0 to 3 letters before it),
    // with or without the reserved prefix "xml" in any case
    if nonascii && rng.gen_bool(0.25) {
        let wide = ['é', 'ÿ', 'Ж', '日', '\u{fffd}', '😀'];
        let lead = rng.gen_range(0 ..= 3usize);
        let mut cand: String = match rng.gen_range(0 .. 6) {
            0 => ["xml", "XML", "Xml", "xmL"][rng.gen_range(0 .. 4)].to_string(),
            1 => "xm".to_string(),
            _ => (0 .. lead).map(|_| rng.gen_range(b'a' ..= b'z') as char).collect(),
        };
        cand.push(wide[rng.gen_range(0 .. wide.len())]);
        for _ in 0 .. rng.gen_range(0 ..= 2usize) {
            cand.push(if rng.gen_bool(0.5) { wide[rng.gen_range(0 .. wide.len())] } else { rng.gen_range(b'a' ..= b'z') as char });
        }
        let n = cand.chars().count();
        if n >= min && n <= max && cand.chars().all(&ok) {
            return cand;
        }
    }
    let mut s = String::new();
    let mut tries = 0;
    while s.chars().count() < n {
        tries += 1;
        if tries > 10_000 {
            // the class has too few characters the format allows: fall back to letters
            s.push(rng.gen_range(b'a' ..= b'z') as char);
            continue;
        }
        let c = random_char(rng);
        if ok(c) {
            s.push(c);
        }
    }
    s
}

pub fn boundary_u64(rng: &mut StdRng, max: u64) -> u64 {
    match rng.gen_range(0 .. 8) {
        0 => 0,
        1 => max,
        2 => 1.min(max),
        3 => max / 2,
        4 => (max / 2).saturating_add(1).min(max),
        _ => {
            if max == u64::MAX {
                rng.gen()
            } else {
                rng.gen_range(0 ..= max)
            }
        }
    }
}


/// canonical text of a JSON value: object keys sorted (serde_json keeps insertion order in this build)
pub fn canonical(v: &Value) -> String {
    match v {
        Value::Object(m) => {
            let mut keys: Vec<&String> = m.keys().collect();
            keys.sort();
            let parts: Vec<String> = keys.iter().map(|k| format!("{}:{}", serde_json::to_string(k).unwrap(), canonical(&m[*k]))).collect();
            format!("{{{}}}", parts.join(","))
        }
        Value::Array(a) => format!("[{}]", a.iter().map(canonical).collect::<Vec<_>>().join(",")),
        other => other.to_string(),
    }
}
