//! C15: the common view against CommonView.tla's table.
use crate::entries::*;
use crate::fuzz;
use crate::layout::diff;
use crate::transport::*;
use crate::util::*;
use rand::prelude::*;
use serde_json::{json, Value};

fn lookup<'a>(v: &'a Value, path: &[Value]) -> &'a Value {
    let mut cur = v;
    for seg in path {
        cur = match seg.as_str() {
            Some(k) => &cur[k],
            None => &cur[seg.as_u64().unwrap() as usize],
        };
    }
    cur
}

/// expected value of an accessor according to a table cell; None = the cell allows anything ("free")
fn cell(spec: &Value, specific: &Value) -> Option<Value> {
    let a = spec.as_array().unwrap();
    match a[0].as_str().unwrap() {
        "none" => Some(Value::Null),
        "free" => None,
        "path" => Some(lookup(specific, &a[1 ..]).clone()),
        "lower" => {
            let v = lookup(specific, &a[1 ..]);
            Some(json!(v.as_str().unwrap_or("").to_lowercase()))
        }
        "clamp0" => {
            let v = lookup(specific, &a[1 ..]).as_i64().unwrap_or(0);
            Some(json!(v.max(0)))
        }
        k => panic!("table cell {k}"),
    }
}

/// Check one view (original/common/accessors) against a table row.
pub fn check_view(ty: &str, row: &Value, view: &Value, case: &Value, rep: &mut Report) {
    let wrap = row["wrap"].as_array().unwrap();
    let specific = lookup(&view["original"], wrap);
    let mut fail = |sig: String, detail: Value| {
        rep.violation("C15", &sig, json!({"kind":"common-view","ty":ty,"case":case,"detail":detail,
                                          "view": view.to_string().chars().take(1500).collect::<String>()}));
    };
    if specific.is_null() {
        fail(format!("{ty}: as_original is not the {wrap:?} variant"), json!({"original": view["original"].to_string().chars().take(200).collect::<String>()}));
        return;
    }
    for acc in ["name", "description", "game_mode", "game_version", "map", "players_maximum", "players_online", "players_bots", "has_password"] {
        let Some(want) = cell(&row[acc], specific) else { continue };
        for (src, got) in [("accessor", &view["accessors"][acc]), ("as_json", &view["common"][acc])] {
            if let Some(d) = diff("", &want, got) {
                fail(format!("{ty}: common {acc} ({src}) differs from the protocol-specific field"), json!({"diff": d}));
                return;
            }
        }
    }
    // players
    let pl = &row["players"];
    match cell(&pl["list"], specific) {
        Some(Value::Null) => {
            if !view["accessors"]["players"].is_null() || !view["common"]["players"].is_null() {
                fail(format!("{ty}: common players present although the response has no player list"), json!({}));
            }
        }
        Some(Value::Array(list)) => {
            let acc = view["accessors"]["players"].as_array();
            let com = view["common"]["players"].as_array();
            let (Some(acc), Some(com)) = (acc, com) else {
                fail(format!("{ty}: common players missing"), json!({}));
                return;
            };
            if acc.len() != list.len() || com.len() != list.len() {
                fail(format!("{ty}: common players has a different length"), json!({"want": list.len(), "accessor": acc.len(), "as_json": com.len()}));
                return;
            }
            for (i, p) in list.iter().enumerate() {
                let wn = cell(&pl["name"], p).unwrap_or(Value::Null);
                let ws = cell(&pl["score"], p).unwrap_or(Value::Null);
                for (src, gn, gs) in [("accessor", &acc[i]["name"], &acc[i]["score"]), ("as_json", &com[i]["name"], &com[i]["score"]),
                                      ("player.as_json", &acc[i]["as_json"]["name"], &acc[i]["as_json"]["score"])] {
                    if diff("", &wn, gn).is_some() {
                        fail(format!("{ty}: common player name ({src}) differs"), json!({"i": i, "want": wn, "got": gn}));
                        return;
                    }
                    if diff("", &ws, gs).is_some() {
                        fail(format!("{ty}: common player score ({src}) differs"), json!({"i": i, "want": ws, "got": gs}));
                        return;
                    }
                }
                // the original player is retrievable unchanged
                let po = &acc[i]["as_original"];
                let inner = first_leaf_object(po);
                if diff("", p, inner).is_some() {
                    fail(format!("{ty}: player as_original differs from the protocol-specific player"), json!({"i": i}));
                    return;
                }
            }
        }
        Some(other) => {
            if !other.is_null() {
                fail(format!("{ty}: player list path is not a list"), json!({}));
            } else if !view["accessors"]["players"].is_null() {
                // Option<Vec> absent (e.g. valve players not gathered, java sample absent)
                fail(format!("{ty}: common players present although the response has none"), json!({}));
            }
        }
        None => {}
    }
}

/// GenericPlayer serialises as nested single-key variant objects ({"Gamespy":{"One":{..}}}); strip the variants
fn first_leaf_object(v: &Value) -> &Value {
    let mut cur = v;
    loop {
        match cur.as_object() {
            Some(m) if m.len() == 1 => {
                let (k, inner) = m.iter().next().unwrap();
                // a variant name starts with an upper-case letter, a field name does not
                if k.chars().next().map_or(false, |c| c.is_uppercase()) && inner.is_object() {
                    cur = inner;
                    continue;
                }
                return cur;
            }
            _ => return cur,
        }
    }
}

pub const REPRESENTATIVES: &[(&str, &str)] = &[
    ("csgo", "valve"), ("counterstrike", "valve"), ("theship", "theship"), ("unrealtournament", "gs1"), ("hce", "gs2"),
    ("crysiswars", "gs3"), ("quake1", "quake1"), ("quake2", "quake23"), ("q3a", "quake23"), ("killingfloor", "unreal2"),
    ("minecraftjava", "java"), ("minecraftlegacy16", "java"), ("minecraftlegacy14", "java"), ("minecraftlegacyb18", "java"),
    ("minecraftbedrock", "bedrock"), ("minecraft", "java"), ("ffow", "ffow"), ("jc2m", "jc2m"), ("savage2", "savage2"),
    ("mindustry", "mindustry"),
];

pub fn replay(fctx: &fuzz::Ctx, table: &[Value], seed: u64, reps: usize, rep: &mut Report) {
    let mut rng = StdRng::seed_from_u64(seed);
    let row_of = |ty: &str| table.iter().find(|t| t["ty"] == ty).map(|t| t["row"].clone()).unwrap_or_else(|| panic!("no row {ty}"));
    for (id, ty) in REPRESENTATIVES {
        let row = row_of(ty);
        let name = format!("generic:{id}");
        for n in 0 .. reps {
            let mut base = fuzz::base_for(&mut rng, fctx, &name);
            if *id == "minecraft" && n % 2 == 1 {
                // auto-detect answered by Bedrock: the Java connection is refused
                base.conns[0].1.clear();
            }
            base.cfg = json!({"port": 27015, "retries": 0, "extra": {"gather_players": "Try", "gather_rules": "Try", "check_app_id": false}});
            let script = {
                let mut s = base.script();
                if *id == "minecraft" && n % 2 == 1 {
                    s.conns[0].refuse = true;
                }
                s
            };
            let rec = call_entry(&name, &base.cfg, &script);
            rep.evaluations += 1;
            let case = json!({"entry": name, "script": script});
            match &rec.outcome {
                Outcome::Ok(view) => {
                    rep.distinct.insert(hash_of(&view["original"].to_string()));
                    check_view(ty, &row, view, &case, rep);
                    // Valve: the same decoded response with each optional list absent / empty / as decoded, crossed with the player
                    // and bot counts at their ends (values generated directly: "absent" and "empty" are different things, whatever the counts)
                    if *ty == "valve" && n < 6 {
                        let orig = crate::valve::strip_enum_wrappers(&view["original"]).clone();
                        for players in ["absent", "empty", "kept"] {
                            for rules in ["absent", "kept"] {
                                for online in [0u64, 1, 255] {
                                    let mut v = orig.clone();
                                    match players {
                                        "absent" => v["players"] = Value::Null,
                                        "empty" => v["players"] = json!([]),
                                        _ => {}
                                    }
                                    if rules == "absent" {
                                        v["rules"] = Value::Null;
                                    }
                                    v["info"]["players_online"] = json!(online);
                                    v["info"]["players_bots"] = json!([0u64, 255][n % 2]);
                                    let Ok(resp) = serde_json::from_value::<gamedig::protocols::valve::Response>(v) else { continue };
                                    let view2 = view_json(&resp);
                                    rep.evaluations += 1;
                                    rep.distinct.insert(hash_of(&view2["original"].to_string()));
                                    check_view(ty, &row, &view2, &json!({"entry": "valve (generated)", "players": players, "rules": rules, "players_online": online}), rep);
                                }
                            }
                        }
                    }
                    if n == 0 {
                        rep.sample(&json!({"ty": ty, "id": id, "common": view["common"]}));
                    }
                }
                Outcome::Err(_) => {} // (decoding is C02-C07's subject)
                Outcome::Panic { msg } => rep.violation("C15", &format!("{ty}: panic {}", crate::valve::first_line(msg)), json!({"kind":"common-view","case":case})),
                Outcome::Hang => {}
            }
        }
    }
    // Eco: values generated directly (the type is HTTP-only)
    let row = row_of("eco");
    for _ in 0 .. reps {
        let names: Vec<String> = (0 .. rng.gen_range(0 ..= 4)).map(|_| random_string(&mut rng, 0, 12)).collect();
        let v = json!({
            "external": rng.gen_bool(0.5), "port": rng.gen::<u32>(), "query_port": rng.gen::<u32>(), "is_lan": rng.gen_bool(0.5),
            "description": random_string(&mut rng, 0, 30), "description_detailed": random_string(&mut rng, 0, 30),
            "description_economy": random_string(&mut rng, 0, 10), "category": random_string(&mut rng, 0, 10),
            "players_online": boundary_u64(&mut rng, u32::MAX as u64), "players_maximum": boundary_u64(&mut rng, u32::MAX as u64),
            "players": names.iter().map(|n| json!({"name": n})).collect::<Vec<_>>(),
            "admin_online": rng.gen_bool(0.5), "time_since_start": 1.5, "time_left": 2.5, "animals": 1, "plants": 2, "laws": 3,
            "world_size": "1", "game_version": random_string(&mut rng, 0, 10), "skill_specialization_setting": "", "language": "en",
            "has_password": rng.gen_bool(0.5), "has_meteor": false, "distribution_station_items": "", "playtimes": "", "discord_address": "",
            "is_paused": false, "active_and_online_players": 0, "peak_active_players": 0, "max_active_players": 0,
            "shelf_life_multiplier": 1.0, "exhaustion_after_hours": 0.0, "is_limiting_hours": false, "server_achievements_dict": {},
            "relay_address": "", "access": "", "connect": "",
        });
        let resp: gamedig::games::eco::Response = serde_json::from_value(v).expect("eco response from json");
        let view = view_json(&resp);
        rep.evaluations += 1;
        rep.distinct.insert(hash_of(&view["original"].to_string()));
        check_view("eco", &row, &view, &json!({"entry": "eco (generated)"}), rep);
    }
}
