//! C17: packet reader and wire codecs against Buffer.tla / VarInt.tla.
use crate::util::*;
use byteorder::{BigEndian, ByteOrder, LittleEndian};
use gamedig::verif_hook::reexport::minecraft as mc;
use gamedig::verif_hook::reexport::*;
use rand::prelude::*;
use serde_json::{json, Value};
use std::panic::{catch_unwind, AssertUnwindSafe};

#[derive(Debug, Clone, PartialEq)]
pub struct Obs {
    pub ok: bool,
    pub cur: i64,
    pub val: Value,
    pub panic: Option<String>,
}

fn msb<T: AsRef<[u8]>>(be: T) -> Value { json!(be.as_ref().iter().map(|b| *b as u64).collect::<Vec<_>>()) }

fn apply<B: ByteOrder + SwitchEndian>(buf: &mut Buffer<B>, o: &Value) -> (bool, Value) {
    let op = o["op"].as_str().unwrap();
    match op {
        "u8" => buf.read::<u8>().map(|v| msb(v.to_be_bytes())).map_or((false, json!([])), |v| (true, v)),
        "u16" => buf.read::<u16>().map(|v| msb(v.to_be_bytes())).map_or((false, json!([])), |v| (true, v)),
        "u32" => buf.read::<u32>().map(|v| msb(v.to_be_bytes())).map_or((false, json!([])), |v| (true, v)),
        "u64" => buf.read::<u64>().map(|v| msb(v.to_be_bytes())).map_or((false, json!([])), |v| (true, v)),
        "move" => {
            let k = o["k"].as_i64().unwrap() as isize;
            (buf.move_cursor(k).is_ok(), json!([]))
        }
        "cstr" => {
            let dl = o["dl"].as_u64().unwrap() as u8;
            buf.read_string::<Utf8Decoder>(Some([dl]))
                .map_or((false, json!([])), |s| (true, msb(s.as_bytes())))
        }
        "lpstr" => {
            buf.read_string::<Utf8LengthPrefixedDecoder>(None)
                .map_or((false, json!([])), |s| (true, msb(s.as_bytes())))
        }
        "u2str" => {
            // value: the code points of the decoded (stripped) text
            buf.read_string::<Unreal2StringDecoder>(None)
                .map_or((false, json!([])), |s| (true, json!(s.chars().map(|c| c as u64).collect::<Vec<_>>())))
        }
        "utf16" => {
            let r = if o["o"] == "LE" {
                buf.read_string::<Utf16Decoder<LittleEndian>>(None)
            } else {
                buf.read_string::<Utf16Decoder<BigEndian>>(None)
            };
            r.map_or((false, json!([])), |s| {
                (
                    true,
                    json!(s
                        .encode_utf16()
                        .map(|u| vec![(u >> 8) as u64, (u & 0xff) as u64])
                        .collect::<Vec<_>>()),
                )
            })
        }
        "chunk" => {
            let n = o["n"].as_u64().unwrap() as usize;
            match buf.switch_endian_chunk(n) {
                Err(_) => (false, json!([])),
                Ok(sub) => {
                    // the chunk must be exactly the n bytes at the old cursor, positioned at 0
                    if sub.current_position() != 0 || sub.data_length() != n {
                        (true, json!(["bad chunk geometry", sub.current_position(), sub.data_length()]))
                    } else {
                        (true, msb(sub.remaining_bytes()))
                    }
                }
            }
        }
        "remaining" => (true, json!([buf.remaining_length() as u64])),
        _ => panic!("unknown op {op}"),
    }
}

pub fn observe(data: &[u8], cursor: usize, ord: &str, o: &Value) -> Obs {
    let r = catch_unwind(AssertUnwindSafe(|| {
        if ord == "LE" {
            let mut b = Buffer::<LittleEndian>::new(data);
            b.move_cursor(cursor as isize).expect("model cursor is in bounds");
            let (ok, val) = apply(&mut b, o);
            (ok, b.current_position() as i64, val)
        } else {
            let mut b = Buffer::<BigEndian>::new(data);
            b.move_cursor(cursor as isize).expect("model cursor is in bounds");
            let (ok, val) = apply(&mut b, o);
            (ok, b.current_position() as i64, val)
        }
    }));
    match r {
        Ok((ok, cur, val)) => {
            Obs {
                ok,
                cur,
                val,
                panic: None,
            }
        }
        Err(_) => {
            Obs {
                ok: false,
                cur: -1,
                val: json!([]),
                panic: Some(take_panic()),
            }
        }
    }
}

fn bytes_of(v: &Value) -> Vec<u8> {
    v.as_array()
        .map(|a| a.iter().map(|x| x.as_u64().unwrap() as u8).collect())
        .unwrap_or_default()
}

/// Replay TLC transitions of Buffer.tla. Each line: {d, c, ord, o, rs:[{ok,cur,val}..]}.
pub fn replay_buffer(lines: &[Value], rep: &mut Report) {
    for t in lines {
        let data = bytes_of(&t["d"]);
        let c = t["c"].as_u64().unwrap() as usize;
        let ord = t["ord"].as_str().unwrap();
        let o = &t["o"];
        let obs = observe(&data, c, ord, o);
        rep.evaluations += 1;
        rep.distinct.insert(hash_of(&(data.clone(), c, ord.to_string(), o.to_string())));
        let allowed = t["rs"].as_array().unwrap();
        let fixed = matches!(o["op"].as_str().unwrap(), "u8" | "u16" | "u32" | "u64");
        let mut matched = false;
        let mut drift = false;
        for r in allowed {
            let rok = r["ok"].as_bool().unwrap();
            let rcur = r["cur"].as_i64().unwrap();
            if obs.panic.is_some() {
                break;
            }
            let val_eq = if o["op"] == "u2str" {
                // 65533 in the model = a Latin-1 byte above 7F (code page mapping not modelled): any one character
                match (r["val"].as_array(), obs.val.as_array()) {
                    (Some(a), Some(b)) => a.len() == b.len() && a.iter().zip(b).all(|(x, y)| x == y || x.as_u64() == Some(65533)),
                    _ => false,
                }
            } else {
                r["val"] == obs.val
            };
            if rok && obs.ok && rcur == obs.cur && val_eq {
                matched = true;
            }
            if !rok && !obs.ok {
                if rcur == obs.cur {
                    matched = true;
                } else if !fixed && obs.cur >= 0 && obs.cur <= data.len() as i64 {
                    // failed string/move op that moved inside the packet: not stated by the property
                    matched = true;
                    drift = true;
                }
            }
        }
        if drift {
            rep.drift(json!({"what":"failed non-fixed op moved the cursor inside the packet","case":t,"observed_cur":obs.cur}));
        }
        if !matched {
            let sig = if let Some(p) = &obs.panic {
                format!("buffer op={} panic", o["op"].as_str().unwrap())
            } else if obs.cur < 0 || obs.cur > data.len() as i64 {
                format!("buffer op={} cursor-out-of-bounds", o["op"].as_str().unwrap())
            } else {
                format!("buffer op={} result-mismatch", o["op"].as_str().unwrap())
            };
            rep.violation(
                "C17",
                &sig,
                json!({"kind":"buffer-transition","case":t,
                       "observed":{"ok":obs.ok,"cur":obs.cur,"val":obs.val,"panic":obs.panic}}),
            );
        }
        rep.sample(t);
    }
}

// ---- VarInt ------------------------------------------------------------------------------

fn groups_of(v: i32) -> Vec<u64> {
    let u = v as u32;
    (0 .. 5).map(|i| ((u >> (7 * i)) & 0x7f) as u64).collect()
}
fn value_of_groups(gs: &Value) -> i32 {
    let mut u: u32 = 0;
    for (i, g) in gs.as_array().unwrap().iter().enumerate() {
        u |= (g.as_u64().unwrap() as u32) << (7 * i);
    }
    u as i32
}

/// the spec's `Enc` as a native function (oracle of the 2^32 sweep; cross-checked against TLC cases)
pub fn ref_enc(v: i32) -> Vec<u8> {
    let gs = groups_of(v);
    let n = (0 .. 5).rev().find(|i| gs[*i] != 0).map_or(1, |i| i + 1);
    (0 .. n)
        .map(|i| if i + 1 < n { gs[i] as u8 | 0x80 } else { gs[i] as u8 })
        .collect()
}

pub fn replay_varint(lines: &[Value], rep: &mut Report) {
    for t in lines {
        rep.evaluations += 1;
        rep.distinct.insert(hash_of(&t["input"].to_string()) ^ hash_of(&t["mode"].to_string()));
        let mode = t["mode"].as_str().unwrap();
        let r = &t["out"]["r"];
        let viol = match mode {
            "enc" => {
                let v = value_of_groups(&t["input"]);
                let want = bytes_of(r);
                let got = catch_unwind(|| mc::as_varint(v));
                // also cross-check the harness's native reference encoder against TLC
                if ref_enc(v) != want {
                    rep.tool_error(&format!("ref_enc disagrees with VarInt.tla on {v}"));
                }
                match got {
                    Ok(g) if g == want => None,
                    Ok(g) => Some(("varint enc mismatch".to_string(), json!({"got": g}))),
                    Err(_) => Some(("varint enc panic".to_string(), json!({"panic": take_panic()}))),
                }
            }
            "dec" => {
                let inp = bytes_of(&t["input"]);
                let got = catch_unwind(|| {
                    let mut b = Buffer::<LittleEndian>::new(&inp);
                    let r = mc::get_varint(&mut b);
                    (r.ok(), b.current_position())
                });
                match got {
                    Err(_) => Some(("varint dec panic".to_string(), json!({"panic": take_panic()}))),
                    Ok((res, pos)) => {
                        let wok = r["ok"].as_bool().unwrap();
                        match (wok, res) {
                            (false, None) => None,
                            (true, Some(v)) => {
                                if json!(groups_of(v)) == r["val"] && pos as u64 == r["used"].as_u64().unwrap() {
                                    None
                                } else {
                                    Some(("varint dec value mismatch".to_string(), json!({"got": v, "pos": pos})))
                                }
                            }
                            (false, Some(v)) => {
                                Some((
                                    format!("varint dec accepted {} input", r["why"].as_str().unwrap_or("bad")),
                                    json!({"got": v}),
                                ))
                            }
                            (true, None) => Some(("varint dec rejected valid input".to_string(), json!({}))),
                        }
                    }
                }
            }
            "str" => {
                let inp = bytes_of(&t["input"]);
                let got = catch_unwind(|| {
                    let mut b = Buffer::<LittleEndian>::new(&inp);
                    let r = mc::get_string(&mut b);
                    (r.ok(), b.current_position())
                });
                match got {
                    Err(_) => Some(("mcstring dec panic".to_string(), json!({"panic": take_panic()}))),
                    Ok((res, pos)) => {
                        let wok = r["ok"].as_bool().unwrap();
                        match (wok, res) {
                            (false, None) => None,
                            (true, Some(s)) => {
                                let want = bytes_of(&r["val"]);
                                // payload bytes >= 0x80 are not valid UTF-8 alone: then an error is right too
                                if s.as_bytes() == want.as_slice() && pos as u64 == r["used"].as_u64().unwrap() {
                                    None
                                } else {
                                    Some(("mcstring dec value mismatch".to_string(), json!({"got": s})))
                                }
                            }
                            (true, None) => {
                                let want = bytes_of(&r["val"]);
                                if std::str::from_utf8(&want).is_err() {
                                    None
                                } else {
                                    Some(("mcstring dec rejected valid input".to_string(), json!({})))
                                }
                            }
                            (false, Some(s)) => Some(("mcstring dec accepted bad input".to_string(), json!({"got": s}))),
                        }
                    }
                }
            }
            _ => None,
        };
        if let Some((sig, extra)) = viol {
            rep.violation("C17", &sig, json!({"kind":"varint-case","case":t,"observed":extra}));
        }
        rep.sample(t);
    }
}

/// Native round trip over a slice of the 2^32 values: get(as(v)) == v, as(v) == spec Enc(v).
pub fn sweep_varint(lo: u64, hi: u64, rep: &mut Report) {
    let r = catch_unwind(|| {
        let mut bad: Option<(i32, String)> = None;
        let mut v = lo;
        while v < hi {
            let x = v as u32 as i32;
            let e = mc::as_varint(x);
            if e != ref_enc(x) {
                bad = Some((x, format!("as_varint({x}) = {:?}, spec Enc = {:?}", e, ref_enc(x))));
                break;
            }
            let mut b = Buffer::<LittleEndian>::new(&e);
            match mc::get_varint(&mut b) {
                Ok(y) if y == x && b.remaining_length() == 0 => {}
                other => {
                    bad = Some((x, format!("get_varint(as_varint({x})) = {:?}", other.map_err(|e| e.kind))));
                    break;
                }
            }
            v += 1;
        }
        bad
    });
    rep.evaluations += hi - lo;
    match r {
        Ok(None) => {}
        Ok(Some((x, what))) => {
            rep.violation("C17", "varint round trip", json!({"kind":"varint-sweep","value":x,"what":what}))
        }
        Err(_) => rep.violation("C17", "varint round trip panic", json!({"kind":"varint-sweep","panic":take_panic()})),
    }
}

/// String round trip on random strings: get_string(as_string(s)) == s.
pub fn random_strings(seed: u64, n: usize, rep: &mut Report) {
    let mut rng = StdRng::seed_from_u64(seed);
    for _ in 0 .. n {
        let s = random_string(&mut rng, 0, 300);
        let r = catch_unwind(|| {
            let e = mc::as_string(&s).ok()?;
            let mut b = Buffer::<LittleEndian>::new(&e);
            let d = mc::get_string(&mut b).ok()?;
            Some((d, b.remaining_length(), e))
        });
        rep.evaluations += 1;
        rep.distinct.insert(hash_of(&s));
        match r {
            Ok(Some((d, 0, e))) if d == s && e[..] == [ref_enc(s.len() as i32), s.as_bytes().to_vec()].concat()[..] => {}
            Ok(other) => {
                rep.violation("C17", "mcstring round trip", json!({"kind":"mcstring","s":s,"got":format!("{:?}",other)}))
            }
            Err(_) => rep.violation("C17", "mcstring round trip panic", json!({"kind":"mcstring","s":s,"panic":take_panic()})),
        }
    }
}

/// Random longer packets and operation sequences, recorded as a trace for Trace_Buffer.tla.
pub fn trace_buffer(seed: u64, runs: usize, out: &mut Vec<Value>, rep: &mut Report) {
    let mut rng = StdRng::seed_from_u64(seed);
    let pool: [u8; 12] = [0, 0, 0, 1, 10, 65, 66, 0x7f, 0x80, 0xc3, 0xe2, 0xff];
    for _ in 0 .. runs {
        let len = rng.gen_range(0 ..= 24);
        let data: Vec<u8> = (0 .. len)
            .map(|_| if rng.gen_bool(0.7) { pool[rng.gen_range(0 .. pool.len())] } else { rng.gen() })
            .collect();
        let ord = if rng.gen_bool(0.5) { "LE" } else { "BE" };
        let start = out.len();
        out.push(json!({"ev":"New","d":data.iter().map(|b| *b as u64).collect::<Vec<_>>(),"ord":ord}));
        let mut cursor = 0usize;
        rep.evaluations += 1;
        rep.distinct.insert(hash_of(&data));
        let depth = rng.gen_range(1 ..= 10);
        for _ in 0 .. depth {
            let o = match rng.gen_range(0 .. 11) {
                0 => json!({"op":"u8"}),
                1 => json!({"op":"u16"}),
                2 => json!({"op":"u32"}),
                3 => json!({"op":"u64"}),
                4 => json!({"op":"move","k":rng.gen_range(-4i64 ..= 6)}),
                5 | 6 => { let dl = [0u64,10,65][rng.gen_range(0..3)]; json!({"op":"cstr","dl":dl}) }
                7 => json!({"op":"lpstr"}),
                8 => json!({"op":"utf16","o": if rng.gen_bool(0.5) {"LE"} else {"BE"}}),
                9 => json!({"op":"chunk","n":rng.gen_range(0u64 ..= 5)}),
                _ => json!({"op":"remaining"}),
            };
            let obs = observe(&data, cursor, ord, &o);
            if let Some(p) = obs.panic {
                // a panic is a violation by itself; the run is reported here and left out of the trace so
                // that the rest of the file is still validated
                rep.violation(
                    "C17",
                    &format!("buffer op={} panic", o["op"].as_str().unwrap()),
                    json!({"kind":"buffer-transition","case":{"d":data.iter().map(|b| *b as u64).collect::<Vec<_>>(),
                           "c":cursor,"ord":ord,"o":o,"rs":[]},"observed":{"panic":p}}),
                );
                out.truncate(start);
                break;
            }
            out.push(json!({"ev":"Op","o":o,"ok":obs.ok,"cur":obs.cur,"val":obs.val}));
            if obs.cur < 0 || obs.cur as usize > data.len() {
                break; // the validator rejects this line; the reader is no longer in a model state
            }
            cursor = obs.cur as usize;
        }
    }
}

/// utils: u8_lower_upper and error_by_expected_size, exhaustively / on a grid
pub fn utils_grid(rep: &mut Report) {
    for n in 0u16 ..= 255 {
        let (lo, hi) = u8_lower_upper(n as u8);
        rep.evaluations += 1;
        if lo != (n as u8) % 16 || hi != (n as u8) / 16 {
            rep.violation("C17", "u8_lower_upper", json!({"kind":"utils","n":n,"got":[lo,hi]}));
        }
    }
    for e in 0usize .. 40 {
        for s in 0usize .. 40 {
            rep.evaluations += 1;
            let r = error_by_expected_size(e, s);
            if r.is_ok() != (e == s) {
                rep.violation("C17", "error_by_expected_size", json!({"kind":"utils","expected":e,"size":s}));
            }
        }
    }
}
