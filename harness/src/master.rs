//! C16: replay of MasterServer.tla behaviours (filters and paging).
use crate::transport::*;
use crate::util::*;
use crate::valve::addr;
use gamedig::valve_master_server::{Filter, Region, SearchFilters, ValveMasterServer};
use rand::prelude::*;
use serde_json::{json, Value};
use std::collections::{BTreeSet, HashMap};

fn region_of(name: &str) -> Region {
    match name {
        "UsEast" => Region::UsEast,
        "UsWest" => Region::UsWest,
        "AmericaSouth" => Region::AmericaSouth,
        "Europe" => Region::Europe,
        "Asia" => Region::Asia,
        "Australia" => Region::Australia,
        "MiddleEast" => Region::MiddleEast,
        "Africa" => Region::Africa,
        _ => Region::Others,
    }
}

fn filter_of(kind: &str, text: &str) -> Filter {
    let b = text == "1";
    match kind {
        "IsSecured" => Filter::IsSecured(b),
        "RunsMap" => Filter::RunsMap(text.to_string()),
        "CanHavePassword" => Filter::CanHavePassword(b),
        "CanBeEmpty" => Filter::CanBeEmpty(b),
        "IsEmpty" => Filter::IsEmpty(b),
        "CanBeFull" => Filter::CanBeFull(b),
        "RunsAppID" => Filter::RunsAppID(text.parse().unwrap()),
        "NotAppID" => Filter::NotAppID(text.parse().unwrap()),
        "HasTags" => Filter::HasTags(text.split(',').map(|s| s.to_string()).collect()),
        "MatchName" => Filter::MatchName(text.to_string()),
        "MatchVersion" => Filter::MatchVersion(text.to_string()),
        "RestrictUniqueIP" => Filter::RestrictUniqueIP(b),
        "OnAddress" => Filter::OnAddress(text.to_string()),
        "Whitelisted" => Filter::Whitelisted(b),
        "SpectatorProxy" => Filter::SpectatorProxy(b),
        "IsDedicated" => Filter::IsDedicated(b),
        "RunsLinux" => Filter::RunsLinux(b),
        "HasGameDir" => Filter::HasGameDir(text.to_string()),
        k => panic!("filter kind {k}"),
    }
}

/// wire text of a filter value, by the spec's value type (the text the request must carry)
fn value_text(rng: &mut StdRng, ty: &str, v: u64) -> String {
    match ty {
        "bool" => if v == 1 { "1".into() } else { "0".into() },
        "u32" => {
            match rng.gen_range(0 .. 4) {
                0 => "0".to_string(),
                1 => u32::MAX.to_string(),
                _ => rng.gen::<u32>().to_string(),
            }
        }
        "tags" => {
            let n = rng.gen_range(1 ..= 3);
            (0 .. n)
                .map(|_| random_string_where(rng, 1, 8, |c| c != '\\' && c != ',' && c != '\0'))
                .collect::<Vec<_>>()
                .join(",")
        }
        _ => random_string_where(rng, 0, 16, |c| c != '\\' && c != '\0'),
    }
}

/// Reference grammar of the filter string: \key\value pairs; \nand\N and \nor\N own the N pairs that follow.
pub fn parse_filter(s: &[u8]) -> Result<HashMap<String, BTreeSet<(String, String)>>, String> {
    let text = String::from_utf8(s.to_vec()).map_err(|e| e.to_string())?;
    let mut groups: HashMap<String, BTreeSet<(String, String)>> = HashMap::new();
    for g in ["plain", "nand", "nor"] {
        groups.insert(g.to_string(), BTreeSet::new());
    }
    if text.is_empty() {
        return Ok(groups);
    }
    let toks: Vec<&str> = text.split('\\').collect();
    if !toks[0].is_empty() {
        return Err(format!("filter string does not start with a backslash: {text:?}"));
    }
    if (toks.len() - 1) % 2 != 0 {
        return Err(format!("odd number of key/value tokens: {text:?}"));
    }
    let pairs: Vec<(&str, &str)> = toks[1 ..].chunks(2).map(|c| (c[0], c[1])).collect();
    let mut i = 0;
    while i < pairs.len() {
        let (k, v) = pairs[i];
        if k == "nand" || k == "nor" {
            let n: usize = v.parse().map_err(|_| format!("group count is not a number: {v:?}"))?;
            if i + n > pairs.len() - 1 {
                return Err(format!("group {k} announces {n} filters but fewer follow"));
            }
            for j in 1 ..= n {
                let (gk, gv) = pairs[i + j];
                groups.get_mut(k).unwrap().insert((gk.to_string(), gv.to_string()));
            }
            i += n + 1;
        } else {
            groups.get_mut("plain").unwrap().insert((k.to_string(), v.to_string()));
            i += 1;
        }
    }
    Ok(groups)
}

fn terminator_page(addrs: &[([u8; 4], u16)], last: bool) -> Vec<u8> {
    let mut d = vec![0xff, 0xff, 0xff, 0xff, 0x66, 0x0a];
    for (ip, port) in addrs {
        d.extend(ip);
        d.extend(port.to_be_bytes());
    }
    if last {
        d.extend([0, 0, 0, 0, 0, 0]);
    }
    d
}

pub fn replay(lines: &[Value], seed: u64, reps: usize, rep: &mut Report) {
    let mut rng = StdRng::seed_from_u64(seed);
    for b in lines {
        for _ in 0 .. reps {
            rep.evaluations += 1;
            if b["mode"] == "filters" {
                filters_case(&mut rng, b, rep);
            } else {
                paging_case(&mut rng, b, rep);
            }
        }
        rep.distinct.insert(hash_of(&b.to_string()));
        rep.sample(b);
    }
}

fn filters_case(rng: &mut StdRng, b: &Value, rep: &mut Report) {
    // concrete wire text per (kind, abstract value)
    let mut texts: HashMap<(String, u64), String> = HashMap::new();
    let mut ty_of: HashMap<String, String> = HashMap::new();
    for g in ["plain", "nand", "nor"] {
        for e in b["denotes"][g].as_array().unwrap() {
            ty_of.insert(e["k"].as_str().unwrap().to_string(), e["ty"].as_str().unwrap().to_string());
        }
    }
    // types of kinds that were overwritten everywhere are not in `denotes`; bool is a safe default only for bool kinds,
    // so look the kind up from a second pass over the inserts using the final table where present
    let kind_ty = |k: &str| -> String {
        ty_of.get(k).cloned().unwrap_or_else(|| {
            match k {
                "RunsMap" | "MatchName" | "MatchVersion" | "OnAddress" | "HasGameDir" => "str".into(),
                "RunsAppID" | "NotAppID" => "u32".into(),
                "HasTags" => "tags".into(),
                _ => "bool".into(),
            }
        })
    };
    let mut f = SearchFilters::new();
    for ins in b["inserts"].as_array().unwrap() {
        let k = ins["k"].as_str().unwrap().to_string();
        let v = ins["v"].as_u64().unwrap();
        let ty = kind_ty(&k);
        let text = loop {
            let t = texts.entry((k.clone(), v)).or_insert_with(|| value_text(rng, &ty, v)).clone();
            // distinct abstract values must be distinct texts
            let clash = texts.iter().any(|((kk, vv), tt)| *kk == k && *vv != v && *tt == t);
            if !clash {
                break t;
            }
            texts.remove(&(k.clone(), v));
        };
        let filter = filter_of(&k, &text);
        f = match ins["g"].as_str().unwrap() {
            "plain" => f.insert(filter),
            "nand" => f.insert_nand(filter),
            _ => f.insert_nor(filter),
        };
    }
    let regions: Vec<(&String, &Value)> = b["regions"].as_object().unwrap().iter().collect();
    let (rname, rbyte) = regions[rng.gen_range(0 .. regions.len())];
    let seed_ip = format!("{}.{}.{}.{}", rng.gen::<u8>(), rng.gen::<u8>(), rng.gen::<u8>(), rng.gen::<u8>());
    let seed_port: u16 = rng.gen();
    // The service object may have been used before: a complete query with OTHER filters that succeeded, failed on its second
    // page, met a malformed first page or timed out. The request under check is the one sent after that, with ITS filters.
    let prelude = ["none", "none", "succeeds", "fails_page2", "malformed_first", "times_out"][rng.gen_range(0 .. 6)];
    let one_addr = |a: u8| ([10u8, 1, 2, a], 27015u16);
    let prelude_batches: Vec<Vec<Vec<u8>>> = match prelude {
        "succeeds" => vec![vec![terminator_page(&[one_addr(1)], true)]],
        "fails_page2" => vec![vec![terminator_page(&[one_addr(1), one_addr(2)], false)], vec![vec![0xff, 0xff, 0xff]]],
        "malformed_first" => vec![vec![vec![1, 2, 3]]],
        "times_out" => vec![vec![]],
        _ => vec![],
    };
    let prelude_sends = prelude_batches.len();
    let mut batches = prelude_batches;
    batches.push(vec![terminator_page(&[], true)]);
    let script = ScriptJ::udp(batches);
    let region = region_of(rname);
    let opt = if b["inserts"].as_array().unwrap().is_empty() && rng.gen_bool(0.5) { None } else { Some(f) };
    let sip = seed_ip.clone();
    let rec = run_call(&script, DEFAULT_MAX_OPS, move || {
        let mut ms = ValveMasterServer::new(&addr(27011))?;
        if prelude != "none" {
            let other = SearchFilters::new()
                .insert(Filter::RunsMap("zz_prelude_map".to_string()))
                .insert_nand(Filter::IsSecured(true))
                .insert_nor(Filter::MatchName("zz_prelude_name".to_string()));
            let _ = ms.query(Region::Europe, Some(other));
        }
        ms.query_specific(region, &opt, &sip, seed_port).map(|v| v.len())
    });
    let sent: Vec<(usize, Vec<u8>)> = {
        let all = sends(&rec);
        if all.len() == prelude_sends + 1 { all[prelude_sends ..].to_vec() } else if prelude == "none" { all } else { Vec::new() }
    };
    let case = json!({"behaviour": b, "region": rname, "seed": format!("{seed_ip}:{seed_port}"), "service_object_used_before": prelude,
                      "texts": texts.iter().map(|((k, v), t)| json!([k, v, t])).collect::<Vec<_>>()});
    let mut fail = |sig: String, detail: Value| {
        rep.violation("C16", &sig, json!({"kind":"master-filters","case":case,"detail":detail,"sent":sent.iter().map(|s| hex(&s.1)).collect::<Vec<_>>(),
                                          "outcome":rec.outcome.to_json()}));
    };
    if let Outcome::Panic { msg } = &rec.outcome {
        fail(format!("master query_specific panic {}", crate::valve::first_line(msg)), json!({}));
        return;
    }
    if sent.len() != 1 {
        fail(format!("master query_specific sent {} requests for one page", sent.len()), json!({}));
        return;
    }
    let d = &sent[0].1;
    if d.len() < 3 || d[0] != 0x31 {
        fail("master request does not start with 31".into(), json!({}));
        return;
    }
    if d[1] as u64 != rbyte.as_u64().unwrap() {
        fail("master request: wrong region byte".into(), json!({"want": rbyte, "got": d[1]}));
        return;
    }
    let rest = &d[2 ..];
    let p0 = rest.iter().position(|x| *x == 0);
    let Some(p0) = p0 else {
        fail("master request: seed address not terminated".into(), json!({}));
        return;
    };
    if rest[.. p0] != *format!("{seed_ip}:{seed_port}").as_bytes() {
        fail("master request: wrong seed address".into(), json!({"got": String::from_utf8_lossy(&rest[.. p0])}));
        return;
    }
    let frest = &rest[p0 + 1 ..];
    if frest.last() != Some(&0) || frest[.. frest.len() - 1].contains(&0) {
        fail("master request: filter string is not one NUL-terminated string ending the packet".into(), json!({}));
        return;
    }
    match parse_filter(&frest[.. frest.len() - 1]) {
        Err(e) => fail("master request: filter string does not conform to the grammar".into(), json!({"error": e})),
        Ok(groups) => {
            for g in ["plain", "nand", "nor"] {
                let want: BTreeSet<(String, String)> = b["denotes"][g]
                    .as_array()
                    .unwrap()
                    .iter()
                    // an empty tag list denotes no filter at all
                    .map(|e| {
                        (
                            e["key"].as_str().unwrap().to_string(),
                            texts[&(e["k"].as_str().unwrap().to_string(), e["v"].as_u64().unwrap())].clone(),
                        )
                    })
                    .collect();
                if groups[g] != want {
                    fail(
                        format!("master request: group {g} does not denote the filters inserted into it"),
                        json!({"want": want, "got": groups[g], "filter": String::from_utf8_lossy(frest)}),
                    );
                    return;
                }
            }
        }
    }
}

fn paging_case(rng: &mut StdRng, b: &Value, rep: &mut Report) {
    let lens: Vec<usize> = b["pages"].as_array().unwrap().iter().map(|x| x.as_u64().unwrap() as usize).collect();
    let mut all: Vec<([u8; 4], u16)> = Vec::new();
    let mut batches = Vec::new();
    let mut lasts: Vec<String> = vec!["0.0.0.0:0".to_string()];
    // half of the cases draw from a tiny pool of hosts, so that consecutive pages end on the same host with different
    // ports, or on 0.0.0.0 with a non-zero port / a real host with port 0 (none of which is the terminator)
    let pool = rng.gen_bool(0.5);
    for (i, n) in lens.iter().enumerate() {
        let mut page = Vec::new();
        for e in 0 .. *n {
            // a follow-up page may begin with the address it was seeded with (the master repeats the seed): every listed address
            // counts, also a repeated one
            if e == 0 && i > 0 && *n > 1 && rng.gen_bool(0.25) {
                if let Some(prev) = all.last().copied() {
                    page.push(prev);
                    all.push(prev);
                    continue;
                }
            }
            // any address but the terminator; a page never ENDS with the address it was seeded with
            let a = loop {
                let ip: [u8; 4] = if pool { [[10, 0, 0, 9], [10, 0, 0, 9], [0, 0, 0, 0], [192, 168, 1, 1]][rng.gen_range(0 .. 4)] } else { [rng.gen(), rng.gen(), rng.gen(), rng.gen()] };
                let port: u16 = if pool { [0u16, 1, 27015, 27016, 65535][rng.gen_range(0 .. 5)] } else { rng.gen() };
                // (a page that ends with the very address it was seeded with would be the server echoing the seed: not a page sequence)
                let seed_text = format!("{}.{}.{}.{}:{}", ip[0], ip[1], ip[2], ip[3], port);
                if (ip != [0, 0, 0, 0] || port != 0) && (e + 1 < *n || lasts.last() != Some(&seed_text)) {
                    break (ip, port);
                }
            };
            page.push(a);
            all.push(a);
        }
        if let Some((ip, port)) = page.last() {
            lasts.push(format!("{}.{}.{}.{}:{}", ip[0], ip[1], ip[2], ip[3], port));
        }
        batches.push(vec![terminator_page(&page, i + 1 == lens.len())]);
    }
    let script = ScriptJ::udp(batches);
    let rec = run_call(&script, DEFAULT_MAX_OPS, move || {
        let mut ms = ValveMasterServer::new(&addr(27011))?;
        ms.query(Region::Others, None)
            .map(|v| v.iter().map(|(ip, p)| format!("{ip}:{p}")).collect::<Vec<_>>())
    });
    let sent = sends(&rec);
    let want: Vec<String> = all.iter().map(|(ip, p)| format!("{}.{}.{}.{}:{}", ip[0], ip[1], ip[2], ip[3], p)).collect();
    let case = json!({"behaviour": b});
    let mut fail = |sig: String, detail: Value| {
        rep.violation("C16", &sig, json!({"kind":"master-paging","case":case,"script":script,"detail":detail,"outcome":rec.outcome.to_json().to_string().chars().take(500).collect::<String>()}));
    };
    match &rec.outcome {
        Outcome::Ok(v) => {
            let got: Vec<String> = v.as_array().unwrap().iter().map(|x| x.as_str().unwrap().to_string()).collect();
            if got != want {
                fail("master query: returned addresses differ from the pages served".into(),
                     json!({"want_len": want.len(), "got_len": got.len(), "got_tail": got.iter().rev().take(2).collect::<Vec<_>>()}));
                return;
            }
        }
        o => {
            fail(format!("master query: {} on well-formed pages", o.class()), json!({}));
            return;
        }
    }
    if sent.len() != lens.len() {
        fail(format!("master query: {} requests for {} pages", sent.len(), lens.len()), json!({}));
        return;
    }
    for (i, (_, d)) in sent.iter().enumerate() {
        let seed_end = d[2 ..].iter().position(|x| *x == 0).map(|p| p + 2).unwrap_or(d.len());
        let seed = String::from_utf8_lossy(&d[2 .. seed_end]).to_string();
        if seed != lasts[i] {
            fail("master query: follow-up request is not seeded with the last address of the previous page".into(),
                 json!({"request": i, "want": lasts[i], "got": seed}));
            return;
        }
    }
}


// ---- implementation -> spec: recorded random page sequences for Trace_MasterServer.tla -------------------------

pub fn trace_paging(seed: u64, runs: usize, out: &mut Vec<Value>, rep: &mut Report) {
    use gamedig::verif_hook as hook;
    let mut rng = StdRng::seed_from_u64(seed);
    for ix in 0 .. runs {
        let k = rng.gen_range(1 ..= 8usize);
        let lens: Vec<usize> = (0 .. k)
            .map(|i| {
                let n = [0usize, 1, 1, 2, 3, 7, 40, 230][rng.gen_range(0 .. 8)];
                if i + 1 < k { n.max(1) } else { n }
            })
            .collect();
        let mut all: Vec<([u8; 4], u16)> = Vec::new();
        let mut batches = Vec::new();
        let mut lasts: Vec<String> = vec!["0.0.0.0:0".to_string()];
        let pool = rng.gen_bool(0.6);
        for (i, n) in lens.iter().enumerate() {
            let mut page = Vec::new();
            for _ in 0 .. *n {
                let a = loop {
                    let ip: [u8; 4] = if pool { [[10, 0, 0, 9], [10, 0, 0, 9], [0, 0, 0, 0], [192, 168, 1, 1]][rng.gen_range(0 .. 4)] } else { [rng.gen(), rng.gen(), rng.gen(), rng.gen()] };
                    let port: u16 = if pool { [0u16, 1, 27015, 27016, 65535][rng.gen_range(0 .. 5)] } else { rng.gen() };
                    let text = format!("{}.{}.{}.{}:{}", ip[0], ip[1], ip[2], ip[3], port);
                    // not the terminator; a page does not end with the address it was seeded with; the seeds of a query are
                    // distinct (so that the seed of a request identifies the page it follows)
                    if (ip != [0, 0, 0, 0] || port != 0) && all.last() != Some(&(ip, port)) && !lasts.contains(&text) {
                        break (ip, port);
                    }
                };
                page.push(a);
                all.push(a);
            }
            if let Some((ip, port)) = page.last() {
                lasts.push(format!("{}.{}.{}.{}:{}", ip[0], ip[1], ip[2], ip[3], port));
            }
            batches.push(vec![terminator_page(&page, i + 1 == lens.len())]);
        }
        let script = ScriptJ::udp(batches);
        let rec = run_call(&script, DEFAULT_MAX_OPS, move || {
            let mut ms = ValveMasterServer::new(&addr(27011))?;
            ms.query(Region::Europe, None).map(|v| v.len())
        });
        rep.evaluations += 1;
        rep.distinct.insert(hash_of(&(lens.clone(), pool)));
        let start = out.len();
        out.push(json!({"ev":"Call","ix":ix,"pages":lens}));
        for e in &rec.events {
            match e {
                hook::Event::Send { data, .. } => {
                    let seed_end = data.get(2 ..).and_then(|d| d.iter().position(|x| *x == 0)).map(|p| p + 2).unwrap_or(data.len());
                    let seed = String::from_utf8_lossy(data.get(2 .. seed_end).unwrap_or(&[])).to_string();
                    let idx = lasts.iter().position(|l| *l == seed).map(|i| i as u64).unwrap_or(99);
                    out.push(json!({"ev":"Request","seed":idx}));
                }
                hook::Event::Recv { out: hook::RecvOut::Data(_), .. } => out.push(json!({"ev":"Page"})),
                hook::Event::Recv { .. } => out.push(json!({"ev":"Timeout"})),
                _ => {}
            }
        }
        match &rec.outcome {
            Outcome::Ok(v) => out.push(json!({"ev":"Return","ok":true,"count":v})),
            Outcome::Err(_) => out.push(json!({"ev":"Return","ok":false,"count":0})),
            Outcome::Panic { msg } => {
                rep.violation("C16", &format!("master query panic {}", crate::valve::first_line(msg)), json!({"kind":"master-trace","pages":lens,"script":script}));
                out.truncate(start);
            }
            Outcome::Hang => {
                rep.violation("C16", "master query does not return", json!({"kind":"master-trace","pages":lens,"script":script}));
                out.truncate(start);
            }
        }
    }
}
