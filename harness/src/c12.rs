//! C12: timeouts and byte fidelity on real loopback sockets (no scripted transport), cases from Net.tla.
use crate::fuzz;
use crate::proto;
use crate::transport::*;
use crate::util::*;
use gamedig::games::{mindustry, minecraft, savage2};
use gamedig::protocols::types::{GatherToggle, TimeoutSettings};
use gamedig::protocols::{gamespy, quake, unreal2, valve as vp};
use gamedig::verif_hook::reexport::{Socket, TcpSocket, UdpSocket};
use rand::prelude::*;
use serde_json::{json, Value};
use std::io::{Read, Write};
use std::net::{IpAddr, SocketAddr, TcpListener};
use std::sync::atomic::{AtomicBool, Ordering};
use std::sync::{Arc, Mutex};
use std::time::{Duration, Instant};

// connect, read and write timeouts are all different (a swap must show): connect 200 ms, read 150 ms, write: none
// (block indefinitely; a loopback write never blocks). The bound uses the largest finite one.
const T_MS: u64 = 200;
const READ_MS: u64 = 150;
const SLACK_MS: u64 = 2000;

fn loopback(ipv: u64) -> IpAddr { if ipv == 6 { "::1".parse().unwrap() } else { "127.0.0.1".parse().unwrap() } }

fn settings(r: usize, tc: &str) -> Option<TimeoutSettings> {
    if tc == "default" {
        return None; // the documented defaults apply
    }
    let write = if tc == "rw" { Some(Duration::from_millis(T_MS + 50)) } else { None };
    Some(TimeoutSettings::new(Some(Duration::from_millis(READ_MS)), write, Some(Duration::from_millis(T_MS)), r).unwrap())
}

fn call_real(p: &str, a: &SocketAddr, r: usize, tc: &str) -> Result<Value, String> {
    let t = settings(r, tc);
    let ip = a.ip();
    let port = Some(a.port());
    fn j<T: serde::Serialize>(r: gamedig::GDResult<T>) -> Result<Value, String> {
        r.map(|v| serde_json::to_value(v).unwrap()).map_err(|e| format!("{:?}", e.kind))
    }
    match p {
        "valve" => {
            let g = vp::GatheringSettings {
                players: GatherToggle::Try,
                rules: GatherToggle::Try,
                check_app_id: false,
            };
            j(vp::query(a, vp::Engine::Source(None), Some(g), t))
        }
        "quake2" => j(quake::two::query(a, t)),
        "gs1" => j(gamespy::one::query(a, t)),
        "gs2" => j(gamespy::two::query(a, t)),
        "gs3" => j(gamespy::three::query(a, t)),
        "unreal2" => {
            let g = unreal2::GatheringSettings {
                players: GatherToggle::Try,
                mutators_and_rules: GatherToggle::Try,
            };
            j(unreal2::query(a, &g, t))
        }
        "bedrock" => j(minecraft::protocol::query_bedrock(a, t)),
        "mindustry" => j(mindustry::query(&ip, port, &t)),
        "savage2" => j(savage2::query_with_timeout(&ip, port, t)),
        "java" => j(minecraft::protocol::query_java(a, t, None)),
        "legacy14" => j(minecraft::protocol::query_legacy_specific(minecraft::LegacyGroup::V1_4, a, t)),
        "eco" => j(gamedig::games::eco::query_with_timeout(&ip, port, &t)),
        x => panic!("c12 proto {x}"),
    }
}

fn entry_of(p: &str) -> String {
    match p {
        "valve" => "valve::query".to_string(),
        x => format!("proto:{x}"),
    }
}

/// one case on real sockets; returns (elapsed ms, outcome, requests seen by the server)
fn run_real(c: &Value, batches: &[Vec<Vec<u8>>]) -> Result<(u64, Result<Value, String>, Vec<Vec<u8>>), String> {
    let p = c["p"].as_str().unwrap().to_string();
    let ip = loopback(c["ipv"].as_u64().unwrap());
    let answered = c["answered"].as_u64().unwrap() as usize;
    let mode = c["mode"].as_str().unwrap().to_string();
    let r = c["r"].as_u64().unwrap() as usize;
    let tc = c["tc"].as_str().unwrap_or("r").to_string();
    let stop = Arc::new(AtomicBool::new(false));
    let seen: Arc<Mutex<Vec<Vec<u8>>>> = Arc::new(Mutex::new(Vec::new()));
    let chalsilent = mode == "chalsilent";
    let (addr, server): (SocketAddr, Option<std::thread::JoinHandle<()>>) = if mode == "silent" || chalsilent {
        let s = std::net::UdpSocket::bind(SocketAddr::new(ip, 0)).map_err(|e| format!("bind udp {ip}: {e}"))?;
        let addr = s.local_addr().unwrap();
        s.set_read_timeout(Some(Duration::from_millis(20))).unwrap();
        let (stop2, seen2) = (stop.clone(), seen.clone());
        let batches = batches.to_vec();
        let h = std::thread::spawn(move || {
            let mut buf = vec![0u8; 70000];
            let mut n = 0usize;
            while !stop2.load(Ordering::Relaxed) {
                if let Ok((len, from)) = s.recv_from(&mut buf) {
                    seen2.lock().unwrap().push(buf[.. len].to_vec());
                    // answer the first `answered` request units (a unit = one scripted reaction)
                    if n < answered {
                        if let Some(b) = batches.get(n) {
                            for d in b {
                                let _ = s.send_to(d, from);
                            }
                        }
                    } else if chalsilent {
                        // a request that does not end with the challenge issued gets that challenge; the challenged request: silence
                        const CHAL: [u8; 4] = [0x5a, 0x11, 0xc3, 0x7e];
                        if len < 4 || buf[len - 4 .. len] != CHAL {
                            let _ = s.send_to(&[&[0xff, 0xff, 0xff, 0xff, 0x41][..], &CHAL[..]].concat(), from);
                        }
                    }
                    n += 1;
                }
            }
        });
        (addr, Some(h))
    } else {
        let l = TcpListener::bind(SocketAddr::new(ip, 0)).map_err(|e| format!("bind tcp {ip}: {e}"))?;
        let addr = l.local_addr().unwrap();
        if mode == "refuse" {
            drop(l);
            (addr, None)
        } else if mode == "blackhole" {
            // nobody accepts: once the accept queue is full the kernel drops further SYNs and a connect never completes
            let mut fillers = Vec::new();
            let mut full = false;
            let mut misses = 0;
            for _ in 0 .. 5000 {
                match std::net::TcpStream::connect_timeout(&addr, Duration::from_millis(150)) {
                    Ok(s) => {
                        fillers.push(s);
                        misses = 0;
                    }
                    Err(_) => {
                        // (a loaded machine can miss one deadline: the queue counts as full after three misses in a row)
                        misses += 1;
                        if misses >= 3 {
                            full = true;
                            break;
                        }
                    }
                }
            }
            if !full {
                return Err("could not fill the accept queue of the blackhole listener".into());
            }
            let stop2 = stop.clone();
            let h = std::thread::spawn(move || {
                while !stop2.load(Ordering::Relaxed) {
                    std::thread::sleep(Duration::from_millis(5));
                }
                drop(fillers);
                drop(l);
            });
            (addr, Some(h))
        } else {
            l.set_nonblocking(true).unwrap();
            let (stop2, seen2) = (stop.clone(), seen.clone());
            let close = mode == "close";
            // "partial": the first half of the bytes a valid reply consists of, then silence on the open connection
            let half: Vec<u8> = if mode == "partial" {
                let all: Vec<u8> = batches.iter().flatten().flatten().copied().collect();
                all[.. (all.len() / 2).max(1).min(all.len())].to_vec()
            } else {
                Vec::new()
            };
            let h = std::thread::spawn(move || {
                let mut held = Vec::new();
                while !stop2.load(Ordering::Relaxed) {
                    if let Ok((mut st, _)) = l.accept() {
                        if close {
                            drop(st);
                        } else {
                            let _ = st.set_read_timeout(Some(Duration::from_millis(10)));
                            let mut b = [0u8; 512];
                            if let Ok(n) = st.read(&mut b) {
                                seen2.lock().unwrap().push(b[.. n].to_vec());
                            }
                            if !half.is_empty() {
                                let _ = st.write_all(&half);
                                let _ = st.flush();
                            }
                            held.push(st); // keep it open and silent
                        }
                    }
                    std::thread::sleep(Duration::from_millis(2));
                }
            });
            (addr, Some(h))
        }
    };
    let bound_ms = c["__b"].as_u64().unwrap() * c["__stepms"].as_u64().unwrap_or(T_MS) + SLACK_MS;
    let (tx, rx) = std::sync::mpsc::channel();
    let p2 = p.clone();
    std::thread::spawn(move || {
        let t0 = Instant::now();
        let res = std::panic::catch_unwind(|| call_real(&p2, &addr, r, &tc));
        let _ = tx.send((t0.elapsed().as_millis() as u64, res));
    });
    let got = rx.recv_timeout(Duration::from_millis(bound_ms + 5000));
    stop.store(true, Ordering::Relaxed);
    if let Some(h) = server {
        let _ = h.join();
    }
    let reqs = seen.lock().unwrap().clone();
    match got {
        Err(_) => Ok((bound_ms + 5000, Err("BLOCKS".into()), reqs)),
        Ok((ms, Ok(res))) => Ok((ms, res, reqs)),
        Ok((ms, Err(_))) => Ok((ms, Err(format!("PANIC {}", take_panic())), reqs)),
    }
}

pub fn replay(fctx: &fuzz::Ctx, cases: &[Value], seed: u64, rep: &mut Report) {
    let mut rng = StdRng::seed_from_u64(seed);
    // the cases are independent: run them on a few threads (each has its own sockets)
    let mut prepared = Vec::new();
    for line in cases {
        let mut c = line["c"].clone();
        c["__b"] = line["b"].clone();
        c["__class"] = line["class"].clone();
        c["__stepms"] = line["stepms"].clone();
        c["__maxreqs"] = line["maxreqs"].clone();
        let p = c["p"].as_str().unwrap().to_string();
        // plain single-datagram replies only (no challenge / split), so that `answered` counts request units
        let batches: Vec<Vec<Vec<u8>>> = if p == "eco" {
            Vec::new() // never answered (answered = 0): the server refuses, stalls or closes
        } else if p == "valve" {
            let engine = json!({"t":"source_none"});
            ["info", "players", "rules"]
                .iter()
                .map(|s| vec![crate::valve::build_section(&mut rng, &fctx.v, s, &engine, 440, None, None).0])
                .collect()
        } else {
            fuzz::base_for(&mut rng, fctx, &entry_of(&p)).conns[0].1.clone()
        };
        prepared.push((c, batches));
    }
    let results: Vec<(Value, Vec<Vec<Vec<u8>>>, Result<(u64, Result<Value, String>, Vec<Vec<u8>>), String>)> = {
        let chunks: Vec<Vec<(Value, Vec<Vec<Vec<u8>>>)>> = prepared.chunks((prepared.len() + 7) / 8).map(|c| c.to_vec()).collect();
        let handles: Vec<_> = chunks
            .into_iter()
            .map(|chunk| {
                std::thread::spawn(move || {
                    chunk
                        .into_iter()
                        .map(|(c, b)| {
                            let r = run_real(&c, &b);
                            (c, b, r)
                        })
                        .collect::<Vec<_>>()
                })
            })
            .collect();
        handles.into_iter().flat_map(|h| h.join().expect("c12 worker")).collect()
    };
    for (c, batches, res) in results {
        rep.evaluations += 1;
        rep.distinct.insert(hash_of(&c.to_string()));
        let p = c["p"].as_str().unwrap();
        let class = c["__class"].as_str().unwrap();
        let bound_ms = c["__b"].as_u64().unwrap() * c["__stepms"].as_u64().unwrap_or(T_MS) + SLACK_MS;
        let (ms, outcome, reqs) = match res {
            Ok(x) => x,
            Err(e) => {
                rep.tool_error(&format!("c12 server setup failed: {e}"));
                continue;
            }
        };
        rep.sample(&json!({"case": c, "elapsed_ms": ms, "bound_ms": bound_ms, "outcome": outcome.as_ref().map(|_| "ok").unwrap_or_else(|e| e.as_str())}));
        let case = json!({"case": c, "elapsed_ms": ms, "bound_ms": bound_ms});
        let fam = format!("{p}/{}/ipv{}/timeouts:{}", c["mode"].as_str().unwrap(), c["ipv"], c["tc"].as_str().unwrap_or("r"));
        match &outcome {
            Err(e) if e == "BLOCKS" => {
                rep.violation("C12", &format!("{fam}: the query blocks (no return within the bound + 5 s)"), json!({"kind":"real-socket","case":case}));
                continue;
            }
            Err(e) if e.starts_with("PANIC") => {
                rep.violation("C12", &format!("{fam}: panic on a real socket: {}", crate::valve::first_line(e)), json!({"kind":"real-socket","case":case}));
                continue;
            }
            _ => {}
        }
        if ms > bound_ms {
            rep.violation("C12", &format!("{fam}: returned after {} x timeout + slack", c["__b"]), json!({"kind":"real-socket","case":case}));
        }
        let maxreqs = c["__maxreqs"].as_u64().unwrap_or(0) as usize;
        if maxreqs > 0 && reqs.len() > maxreqs {
            rep.violation("C12", &format!("{fam}: the server saw more requests than the attempts allow (attempts are multiplied)"),
                          json!({"kind":"real-socket","case":case,"seen":reqs.len(),"allowed":maxreqs,"requests":reqs.iter().map(|r| hex(r)).collect::<Vec<_>>()}));
        }
        let ok = match (class, &outcome) {
            ("timeout", Err(k)) => k == "PacketReceive" || k == "PacketSend",
            ("connect", Err(k)) => k == "SocketConnect",
            // an error of the transport, not a rejection of the caller's input before anything was tried
            ("anyerror", Err(k)) => k != "InvalidInput",
            ("ok-or-timeout", Ok(_)) => true,
            ("ok-or-timeout", Err(k)) => k == "PacketReceive" || k == "PacketSend",
            _ => false,
        };
        if !ok {
            rep.violation(
                "C12",
                &format!("{fam}: outcome {} does not match the fault class {class}", outcome.as_ref().map(|_| "Ok".to_string()).unwrap_or_else(|e| e.clone())),
                json!({"kind":"real-socket","case":case}),
            );
        }
        // the scripted transport must tell the same story (validates the hook): same requests, same outcome class
        if c["mode"] == "silent" {
            let answered = c["answered"].as_u64().unwrap() as usize;
            let mut b2: Vec<Vec<Vec<u8>>> = batches.iter().take(answered).cloned().collect();
            b2.push(vec![]);
            let script = ScriptJ::udp(b2);
            let cfg = json!({"retries": c["r"], "port": 27015, "engine": {"t":"source_none"}, "gp":"Try","gr":"Try","check":false});
            let rec = crate::entries::call_entry(&entry_of(p), &cfg, &script);
            let sreqs: Vec<Vec<u8>> = sends(&rec).into_iter().map(|(_, d)| d).collect();
            let same_class = match (&rec.outcome, &outcome) {
                (Outcome::Ok(_), Ok(_)) => true,
                (Outcome::Err(a), Err(b)) => a == b,
                _ => false,
            };
            if sreqs != reqs || !same_class {
                rep.violation(
                    "C12",
                    &format!("{fam}: the scripted transport and the real sockets disagree (requests or outcome)"),
                    json!({"kind":"real-vs-scripted","case":case,"real_requests":reqs.iter().map(|r| hex(r)).collect::<Vec<_>>(),
                           "scripted_requests":sreqs.iter().map(|r| hex(r)).collect::<Vec<_>>(),"scripted_outcome":rec.outcome.class(),
                           "real_outcome": outcome.as_ref().map(|_| "ok".to_string()).unwrap_or_else(|e| e.clone())}),
                );
            }
        }
    }
    fidelity(rep);
}

/// bytes handed to the transport reach the peer unmodified; received datagrams come back unmodified up to the requested size
fn fidelity(rep: &mut Report) {
    let sizes = [0usize, 1, 13, 1024, 1400, 6144, 65507];
    let wants: [Option<usize>; 4] = [None, Some(16), Some(1400), Some(65535)];
    for ipv in [4u64, 6] {
        let ip = loopback(ipv);
        // UDP echo server: replies with a payload of the size named in the request's first 4 bytes
        let s = match std::net::UdpSocket::bind(SocketAddr::new(ip, 0)) {
            Ok(s) => s,
            Err(e) => {
                rep.tool_error(&format!("fidelity: cannot bind {ip}: {e}"));
                continue;
            }
        };
        let addr = s.local_addr().unwrap();
        s.set_read_timeout(Some(Duration::from_millis(20))).unwrap();
        let stop = Arc::new(AtomicBool::new(false));
        let seen: Arc<Mutex<Vec<Vec<u8>>>> = Arc::new(Mutex::new(Vec::new()));
        let (stop2, seen2) = (stop.clone(), seen.clone());
        let h = std::thread::spawn(move || {
            let mut buf = vec![0u8; 70000];
            while !stop2.load(Ordering::Relaxed) {
                if let Ok((len, from)) = s.recv_from(&mut buf) {
                    seen2.lock().unwrap().push(buf[.. len].to_vec());
                    if len >= 4 {
                        let n = u32::from_le_bytes([buf[0], buf[1], buf[2], buf[3]]) as usize;
                        let reply: Vec<u8> = (0 .. n).map(|i| (i * 7 + 3) as u8).collect();
                        let _ = s.send_to(&reply, from);
                    }
                }
            }
        });
        for n in sizes {
            for want in wants {
                rep.evaluations += 1;
                rep.distinct.insert(hash_of(&("udp", ipv, n, want)));
                let mut msg = (n as u32).to_le_bytes().to_vec();
                msg.extend((0 .. (n % 97)).map(|i| i as u8)); // requests of different lengths too
                let r = std::panic::catch_unwind(|| -> Result<Vec<u8>, String> {
                    let mut sock = UdpSocket::new(&addr, &settings(0, "r")).map_err(|e| format!("{:?}", e.kind))?;
                    sock.send(&msg).map_err(|e| format!("send {:?}", e.kind))?;
                    sock.receive(want).map_err(|e| format!("receive {:?}", e.kind))
                });
                let full: Vec<u8> = (0 .. n).map(|i| (i * 7 + 3) as u8).collect();
                let lim = want.unwrap_or(1024).min(n);
                let case = json!({"transport":"udp","ipv":ipv,"payload":n,"requested":want});
                match r {
                    Ok(Ok(got)) => {
                        if got != full[.. lim] {
                            rep.violation("C12", &format!("udp/ipv{ipv}: received datagram is not the payload up to the requested size"),
                                          json!({"kind":"fidelity","case":case,"got_len":got.len(),"want_len":lim}));
                        }
                    }
                    Ok(Err(e)) => rep.violation("C12", &format!("udp/ipv{ipv}: {e} against an answering loopback peer"), json!({"kind":"fidelity","case":case})),
                    Err(_) => rep.violation("C12", &format!("udp/ipv{ipv}: panic {}", crate::valve::first_line(&take_panic())), json!({"kind":"fidelity","case":case})),
                }
                // what the server saw is what was sent
                std::thread::sleep(Duration::from_millis(2));
                let last = seen.lock().unwrap().last().cloned();
                if last.as_deref() != Some(&msg[..]) && last.is_some() {
                    rep.violation("C12", &format!("udp/ipv{ipv}: the peer did not receive the bytes that were sent"), json!({"kind":"fidelity","case":case}));
                }
            }
        }
        // several exchanges on ONE socket with requested sizes that go down and up again, with and without a receive that
        // times out in between: what a receive delivers depends on its own request only (nothing carried over from earlier ones)
        let seqs: [&[Option<usize>]; 5] = [
            &[Some(16), Some(2048), Some(16), Some(2048)],
            &[Some(65535), Some(16), Some(1400), Some(6144)],
            &[None, Some(13), None, Some(1400)],
            &[Some(2048), Some(1), Some(65535)],
            &[Some(1400), Some(0), Some(1400)],
        ];
        for (si, seq) in seqs.iter().enumerate() {
            for silence_at in [None, Some(1usize), Some(2)] {
                rep.evaluations += 1;
                rep.distinct.insert(hash_of(&("udp-seq", ipv, si, silence_at)));
                let n = 3000usize;
                let full: Vec<u8> = (0 .. n).map(|i| (i * 7 + 3) as u8).collect();
                let r = std::panic::catch_unwind(|| -> Result<Vec<(Option<usize>, Vec<u8>)>, String> {
                    let mut sock = UdpSocket::new(&addr, &settings(0, "r")).map_err(|e| format!("{:?}", e.kind))?;
                    let mut got = Vec::new();
                    for (i, want) in seq.iter().enumerate() {
                        if silence_at == Some(i) {
                            // a request the peer does not answer (shorter than its 4-byte size field): the receive times out
                            sock.send(&[1, 2]).map_err(|e| format!("send {:?}", e.kind))?;
                            if sock.receive(*want).is_ok() {
                                return Err("a receive returned data although the peer sent nothing".into());
                            }
                        }
                        sock.send(&(n as u32).to_le_bytes()).map_err(|e| format!("send {:?}", e.kind))?;
                        got.push((*want, sock.receive(*want).map_err(|e| format!("receive {:?}", e.kind))?));
                    }
                    Ok(got)
                });
                let case = json!({"transport":"udp","ipv":ipv,"payload":n,"requested_sequence":seq,"silence_before":silence_at});
                match r {
                    Ok(Ok(got)) => {
                        for (want, d) in got {
                            let lim = want.unwrap_or(1024).min(n);
                            if d != full[.. lim] {
                                rep.violation("C12", &format!("udp/ipv{ipv}: a later receive on the same socket is not the payload up to ITS requested size"),
                                              json!({"kind":"fidelity","case":case,"got_len":d.len(),"want_len":lim}));
                                break;
                            }
                        }
                    }
                    Ok(Err(e)) => rep.violation("C12", &format!("udp/ipv{ipv}: {e} against an answering loopback peer (several exchanges on one socket)"), json!({"kind":"fidelity","case":case})),
                    Err(_) => rep.violation("C12", &format!("udp/ipv{ipv}: panic {}", crate::valve::first_line(&take_panic())), json!({"kind":"fidelity","case":case})),
                }
            }
        }
        stop.store(true, Ordering::Relaxed);
        let _ = h.join();
        // HTTP (Eco): the request goes to the caller's ADDRESS also when a host name is given as request setting (the name is
        // for the Host header, it is not looked up): a name that does not resolve at all, and one that resolves elsewhere
        for host in ["gamedig-no-such-host.invalid", "localhost"] {
            if host == "localhost" && ipv == 4 {
                continue; // (on an IPv4 loopback `localhost` usually is the same address: nothing to tell apart)
            }
            rep.evaluations += 1;
            rep.distinct.insert(hash_of(&("http-host", ipv, host)));
            let hl = TcpListener::bind(SocketAddr::new(ip, 0)).unwrap();
            let haddr = hl.local_addr().unwrap();
            hl.set_nonblocking(true).unwrap();
            let got: Arc<Mutex<Vec<u8>>> = Arc::new(Mutex::new(Vec::new()));
            let got2 = got.clone();
            let srv = std::thread::spawn(move || {
                let t0 = Instant::now();
                while t0.elapsed() < Duration::from_millis(2500) {
                    if let Ok((mut st, _)) = hl.accept() {
                        let _ = st.set_nonblocking(false);
                        let _ = st.set_read_timeout(Some(Duration::from_millis(300)));
                        let mut b = [0u8; 1024];
                        if let Ok(n) = st.read(&mut b) {
                            got2.lock().unwrap().extend(&b[.. n]);
                        }
                        let _ = st.write_all(b"HTTP/1.1 200 OK\r\nContent-Type: application/json\r\nContent-Length: 2\r\nConnection: close\r\n\r\n{}");
                        return;
                    }
                    std::thread::sleep(Duration::from_millis(5));
                }
            });
            let x: gamedig::games::eco::EcoRequestSettings = gamedig::protocols::types::ExtraRequestSettings::default().set_hostname(host.to_string()).into();
            let r = std::panic::catch_unwind(|| gamedig::games::eco::query_with_timeout_and_extra_settings(&haddr.ip(), Some(haddr.port()), &settings(0, "rw"), Some(x)).map(|_| ()).map_err(|e| format!("{:?}", e.kind)));
            let _ = srv.join();
            let seen = got.lock().unwrap().clone();
            let case = json!({"transport":"http","ipv":ipv,"hostname_setting":host,"outcome": match &r { Ok(Ok(())) => "ok".to_string(), Ok(Err(e)) => e.clone(), Err(_) => "panic".into() }});
            if r.is_err() {
                rep.violation("C12", &format!("http/ipv{ipv}: panic {}", crate::valve::first_line(&take_panic())), json!({"kind":"fidelity","case":case}));
            } else if !seen.starts_with(b"GET ") {
                rep.violation("C12", &format!("http/ipv{ipv}: with a host name as request setting the request does not reach the caller's address"),
                              json!({"kind":"fidelity","case":case}));
            }
        }
        // TCP: bytes out, bytes back until the peer closes
        let l = TcpListener::bind(SocketAddr::new(ip, 0)).unwrap();
        let taddr = l.local_addr().unwrap();
        for n in [0usize, 1, 1024, 70000] {
            rep.evaluations += 1;
            rep.distinct.insert(hash_of(&("tcp", ipv, n)));
            let payload: Vec<u8> = (0 .. n).map(|i| (i * 13 + 1) as u8).collect();
            let p2 = payload.clone();
            let l2 = l.try_clone().unwrap();
            let srv = std::thread::spawn(move || -> Vec<u8> {
                let (mut st, _) = l2.accept().unwrap();
                let mut b = [0u8; 64];
                let k = st.read(&mut b).unwrap_or(0);
                let _ = st.write_all(&p2);
                b[.. k].to_vec()
            });
            let r = std::panic::catch_unwind(|| -> Result<Vec<u8>, String> {
                let mut sock = TcpSocket::new(&taddr, &settings(0, "r")).map_err(|e| format!("{:?}", e.kind))?;
                sock.send(b"hello peer").map_err(|e| format!("send {:?}", e.kind))?;
                sock.receive(None).map_err(|e| format!("receive {:?}", e.kind))
            });
            let saw = srv.join().unwrap_or_default();
            let case = json!({"transport":"tcp","ipv":ipv,"payload":n});
            match r {
                Ok(Ok(got)) if got == payload && saw == b"hello peer" => {}
                other => rep.violation("C12", &format!("tcp/ipv{ipv}: stream bytes were not delivered unmodified"),
                                       json!({"kind":"fidelity","case":case,"result":format!("{:?}", other.map(|r| r.map(|v| v.len())))})),
            }
        }
    }
    let _ = proto::gs3_handshake_reply; // (keeps the import used)
}
