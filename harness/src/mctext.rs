//! Replay of McText.tla: every short Bedrock status tail / legacy kick string through the real Minecraft queries (C03; C01
//! for the strings outside the format).
use crate::transport::*;
use crate::util::*;
use crate::valve::{addr, first_line, timeouts};
use gamedig::games::minecraft;
use serde_json::{json, Value};

fn text_of(v: &Value) -> String { v.as_array().map(|a| a.iter().map(|c| c.as_str().unwrap_or("")).collect()).unwrap_or_default() }

fn bedrock_packet(status: &str) -> Vec<u8> {
    let mut d = vec![0x1c];
    d.extend(9_833_440_827_789_222_417u64.to_le_bytes());
    d.extend([1, 2, 3, 4, 5, 6, 7, 8]);
    d.extend(18_374_403_896_610_127_616u64.to_le_bytes());
    d.extend(8_671_175_388_723_805_693u64.to_le_bytes());
    d.extend((status.len() as u16).to_be_bytes());
    d.extend(status.as_bytes());
    d
}

fn legacy_packet(s: &str) -> Vec<u8> {
    let units: Vec<u16> = s.encode_utf16().collect();
    let mut d = vec![0xff];
    d.extend((units.len() as u16).to_be_bytes());
    for u in units {
        d.extend(u.to_be_bytes());
    }
    d
}

pub fn replay(lines: &[Value], rep: &mut Report) {
    let a = addr(25565);
    for c in lines {
        let kind = c["kind"].as_str().unwrap();
        // "$" in the model is the section sign
        let text = text_of(&c["text"]).replace('$', "\u{a7}");
        let indomain = c["indomain"].as_bool().unwrap();
        rep.distinct.insert(hash_of(&(kind, text.clone())));
        let variants: &[&str] = if kind == "bedrock" { &["bedrock"] } else { &["legacy14", "legacyb18"] };
        for var in variants {
            let (script, rec) = match *var {
                "bedrock" => {
                    let s = ScriptJ::udp(vec![vec![bedrock_packet(&format!("MCPE;m;1;v;3;20{text}"))]]);
                    let r = run_call(&s, DEFAULT_MAX_OPS, || minecraft::protocol::query_bedrock(&a, timeouts(0)));
                    (s, r)
                }
                v => {
                    let s = ScriptJ {
                        conns: vec![ConnJ { refuse: false, on_send: vec![ReactionJ { fail: false, batch: vec![hex(&legacy_packet(&text))], close: true }] }],
                    };
                    let g = if v == "legacy14" { minecraft::LegacyGroup::V1_4 } else { minecraft::LegacyGroup::VB1_8 };
                    let r = run_call(&s, DEFAULT_MAX_OPS, || minecraft::protocol::query_legacy_specific(g, &a, timeouts(0)));
                    (s, r)
                }
            };
            rep.evaluations += 1;
            let case = json!({"kind":"mctext","case":c,"variant":var,"script":script});
            match &rec.outcome {
                Outcome::Panic { msg } => {
                    rep.violation("C01", &format!("minecraft {kind} text: panic {}", first_line(msg)), case);
                    continue;
                }
                Outcome::Hang => {
                    rep.violation("C01", &format!("minecraft {kind} text: does not return"), case);
                    continue;
                }
                _ => {}
            }
            if !indomain {
                continue;
            }
            let Outcome::Ok(v) = &rec.outcome else {
                rep.violation("C03", &format!("minecraft {kind} text inside the format is rejected with {}", rec.outcome.to_json()["err"].as_str().unwrap_or("?")), case);
                continue;
            };
            let e = &c["expected"][0];
            let ok = if kind == "bedrock" {
                let opt = |has: &Value, val: &Value, got: &Value| if has == true { *got == json!(text_of(val)) } else { got.is_null() };
                v["edition"] == "MCPE" && v["name"] == "m" && v["players_online"] == 3 && v["players_maximum"] == 20
                    && opt(&e["hasid"], &e["id"], &v["id"])
                    && opt(&e["hasmap"], &e["map"], &v["map"])
                    && (if e["hasmode"] == true { v["game_mode"] == json!(text_of(&e["mode"])) } else { v["game_mode"].is_null() })
            } else {
                v["description"] == json!(text_of(&e["motd"]).replace('$', "\u{a7}")) && v["players_online"] == e["online"] && v["players_maximum"] == e["max"]
            };
            if !ok {
                rep.violation("C03", &format!("minecraft {kind} text: the status differs from the string sent"), json!({"kind":"mctext","case":c,"variant":var,"got":v}));
            }
        }
        rep.sample(&json!({"kind": kind, "text": text, "indomain": indomain}));
    }
}
