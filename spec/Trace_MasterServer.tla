------------------------ MODULE Trace_MasterServer ------------------------
(***************************************************************************)
(* Trace validation of recorded master-server queries against the paging   *)
(* half of MasterServer.tla (C16): random page sequences (1-8 pages of     *)
(* 0-230 addresses, hosts drawn from a small pool so that pages end on the *)
(* same host with different ports) served to the real                      *)
(* ValveMasterServer::query; the harness logs                              *)
(*  {"ev":"Call","pages":[n1,..,nk]}      what the server will serve       *)
(*  {"ev":"Request","seed":i}   seed = last address of page i (0: the      *)
(*                              initial 0.0.0.0:0; 99: anything else)      *)
(*  {"ev":"Page"}               a reply datagram was consumed              *)
(*  {"ev":"Return","ok":b,"count":n}                                       *)
(***************************************************************************)
EXTENDS MasterServer, IOUtils, TLCExt

Rec == ndJsonDeserialize(IOEnv.TRACE)
VARIABLES l, idle
tvars == <<vars, l, idle>>
Ev(e) == l <= Len(Rec) /\ Rec[l].ev = e

TraceInit == /\ l = 1 /\ idle = TRUE
             /\ filters = Empty /\ inserts = <<>> /\ served = 0 /\ seeds = <<>> /\ collected = <<>> /\ finished = TRUE
             /\ pages = <<>>

TCall == /\ Ev("Call") /\ idle
         /\ pages' = Rec[l].pages /\ served' = 0 /\ seeds' = <<>> /\ collected' = <<>> /\ finished' = FALSE
         /\ idle' = FALSE /\ l' = l + 1
         /\ UNCHANGED <<filters, inserts>>

TRequest == /\ Ev("Request") /\ ~idle
            /\ SendPage
            /\ seeds'[Len(seeds')] = Rec[l].seed
            /\ UNCHANGED idle /\ l' = l + 1

TPage == /\ Ev("Page") /\ ~idle /\ RecvPage /\ UNCHANGED idle /\ l' = l + 1

RECURSIVE Sum(_)
Sum(s) == IF s = <<>> THEN 0 ELSE s[1] + Sum(Tail(s))
TReturn == /\ Ev("Return") /\ ~idle /\ finished
           /\ Rec[l].ok /\ Rec[l].count = Sum(collected)
           /\ idle' = TRUE /\ l' = l + 1
           /\ UNCHANGED vars

TraceNext == TCall \/ TRequest \/ TPage \/ TReturn
TraceSpec == TraceInit /\ [][TraceNext]_tvars

TSeedChains == SeedChains
TNoRequestAfterTerminator == finished => Len(seeds) <= Len(pages)

TraceAccepted ==
  LET d == TLCGet("stats").diameter
  IN  IF d - 1 = Len(Rec) THEN PrintT(<<"TRACE_ACCEPTED", Len(Rec)>>)
      ELSE PrintT(<<"TRACE_REJECTED at", d, Rec[d]>>)
=============================================================================
