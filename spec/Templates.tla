----------------------------- MODULE Templates -----------------------------
(***************************************************************************)
(* Request templates of every protocol (C09): the only byte strings the    *)
(* client may emit.  A template is a sequence of literal items and slots;  *)
(* the conformance harness matches every recorded send against the         *)
(* templates of the protocol in use and extracts the slot values (session  *)
(* id, challenge, host name, port, protocol version).                      *)
(*                                                                         *)
(* Sources: Valve wiki "Server queries" / "Master Server Query Protocol",  *)
(* wiki.vg "Server List Ping", node-gamedig protocol files named in        *)
(* PROTOCOLS.md (see DESIGN.md Appendix C for confidence tags).            *)
(***************************************************************************)
EXTENDS LayoutLib, TLC, Json

CONSTANT Emit
VARIABLES name, done
vars == <<name, done>>

Slot(f, ty) == [k |-> "slot", f |-> f, ty |-> ty]
FF4 == <<255, 255, 255, 255>>
Magic == <<0, 255, 255, 0, 254, 254, 254, 254, 253, 253, 253, 253, 18, 52, 86, 120>>

Template(n) ==
  CASE n = "valve.info"      -> <<Lit(FF4 \o <<84>>), Txt("Source Engine Query"), Lit(<<0>>), Slot("chal", "optbytes4")>>
    [] n = "valve.players"   -> <<Lit(FF4 \o <<85>>), Slot("chal", "bytes4")>>      \* FFFFFFFF asks for a challenge
    [] n = "valve.rules"     -> <<Lit(FF4 \o <<86>>), Slot("chal", "bytes4")>>
    [] n = "ffow.info"       -> <<Lit(FF4 \o <<70>>), Txt("LSQ")>>
    [] n = "ffow.infochal"   -> <<Lit(FF4 \o <<70>>), Slot("chal", "bytes4")>>
    [] n = "gs1.status"      -> <<Txt("\\status\\xserverquery")>>
    [] n = "gs2.query"       -> <<Lit(<<254, 253, 0>>), Slot("session", "bytes4"), Lit(<<255, 255, 255>>)>>
    [] n = "gs3.handshake"   -> <<Lit(<<254, 253, 9>>), Slot("session", "bytes4")>>
    [] n = "gs3.data"        -> <<Lit(<<254, 253, 0>>), Slot("session", "bytes4"), Slot("chal", "opti32be"), Lit(<<255, 255, 255, 1>>)>>
    [] n = "jc2m.data"       -> <<Lit(<<254, 253, 0>>), Slot("session", "bytes4"), Slot("chal", "opti32be"), Lit(<<255, 255, 255, 2>>)>>
    [] n = "quake1.status"   -> <<Lit(FF4), Txt("status"), Lit(<<0>>)>>
    [] n = "quake2.status"   -> <<Lit(FF4), Txt("status"), Lit(<<0>>)>>
    [] n = "quake3.status"   -> <<Lit(FF4), Txt("getstatus"), Lit(<<0>>)>>
    [] n = "unreal2.info"    -> <<Lit(<<121, 0, 0, 0, 0>>)>>
    [] n = "unreal2.rules"   -> <<Lit(<<121, 0, 0, 0, 1>>)>>
    [] n = "unreal2.players" -> <<Lit(<<121, 0, 0, 0, 2>>)>>
    \* Java: every packet is prefixed by its VarInt length ("framed")
    [] n = "java.handshake"  -> <<Slot("len", "framelen"), Lit(<<0>>), Slot("proto", "varint"), Slot("host", "mcstr"),
                                  Slot("port", "u16be"), Lit(<<1>>)>>
    [] n = "java.status"     -> <<Lit(<<1, 0>>)>>
    \* the documented ping carries an 8-byte payload; the library's payload-less ping is a named deviation (DESIGN App. C)
    [] n = "java.ping"       -> <<Lit(<<1, 1>>)>>
    [] n = "bedrock.ping"    -> <<Lit(<<1>>), Slot("time", "bytes8"), Lit(Magic), Slot("guid", "bytes8")>>
    [] n = "legacy16.ping"   -> <<Lit(<<254, 1, 250>>), Slot("plugin", "rest")>>
    [] n = "legacy14.ping"   -> <<Lit(<<254, 1>>)>>
    [] n = "legacyb18.ping"  -> <<Lit(<<254>>)>>
    [] n = "mindustry.ping"  -> <<Lit(<<254, 1>>)>>
    [] n = "savage2.info"    -> <<Lit(<<1>>)>>
    [] n = "master.query"    -> <<Lit(<<49>>), Slot("region", "u8"), Slot("seed", "cstr"), Slot("filter", "cstr")>>

Names == {"valve.info", "valve.players", "valve.rules", "ffow.info", "ffow.infochal", "gs1.status", "gs2.query",
          "gs3.handshake", "gs3.data", "jc2m.data", "quake1.status", "quake2.status", "quake3.status",
          "unreal2.info", "unreal2.rules", "unreal2.players", "java.handshake", "java.status", "java.ping",
          "bedrock.ping", "legacy16.ping", "legacy14.ping", "legacyb18.ping", "mindustry.ping", "savage2.info",
          "master.query"}

\* which templates a protocol family may emit
Family(p) ==
  CASE p = "valve" -> {"valve.info", "valve.players", "valve.rules"}
    [] p = "ffow" -> {"ffow.info", "ffow.infochal"}
    [] p = "gs1" -> {"gs1.status"} [] p = "gs2" -> {"gs2.query"}
    [] p = "gs3" -> {"gs3.handshake", "gs3.data"} [] p = "jc2m" -> {"gs3.handshake", "jc2m.data"}
    [] p = "quake1" -> {"quake1.status"} [] p = "quake2" -> {"quake2.status"} [] p = "quake3" -> {"quake3.status"}
    [] p = "unreal2" -> {"unreal2.info", "unreal2.rules", "unreal2.players"}
    [] p = "java" -> {"java.handshake", "java.status", "java.ping"}
    [] p = "bedrock" -> {"bedrock.ping"} [] p = "legacy16" -> {"legacy16.ping"}
    [] p = "legacy14" -> {"legacy14.ping"} [] p = "legacyb18" -> {"legacyb18.ping"}
    [] p = "mindustry" -> {"mindustry.ping"} [] p = "savage2" -> {"savage2.info"}
    [] p = "master" -> {"master.query"}
Families == {"valve", "ffow", "gs1", "gs2", "gs3", "jc2m", "quake1", "quake2", "quake3", "unreal2", "java", "bedrock",
             "legacy16", "legacy14", "legacyb18", "mindustry", "savage2", "master"}

Init == name \in Names /\ done = FALSE
Step == /\ ~done /\ done' = TRUE /\ UNCHANGED name
        /\ Emit => PrintT(<<"TEMPLATE", ToJson([name |-> name, items |-> Template(name),
                                               families |-> {p \in Families : name \in Family(p)}])>>)
Spec == Init /\ [][Step]_vars

\* every template starts with a literal (so that two templates of one family are distinguishable by prefix
\* or by length) and every family only names existing templates
StartsLiteral == Template(name)[1].k \in {"lit", "txt", "slot"}
FamiliesClosed == \A p \in Families : Family(p) \subseteq Names
EveryTemplateUsed == \E p \in Families : name \in Family(p)
=============================================================================
