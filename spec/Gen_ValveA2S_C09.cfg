SPECIFICATION Spec
CONSTANTS
  Retries <- R01
  Toggles <- TryEnforce
  Expects <- NoneExpect
  Srvs <- MainSrv
  Checks = {FALSE}
  Reactions <- C09Reactions
  MaxRounds = 3
  MaxFaultyUnits = 1
  Emit = TRUE
INVARIANTS Export
CHECK_DEADLOCK FALSE
