-------------------------- MODULE Trace_Exchange --------------------------
(***************************************************************************)
(* Trace validation of recorded exchanges of the single-unit protocols     *)
(* against Exchange.tla (C09, C10; bounded sends of C13).  The harness     *)
(* drives the real query functions with random retry counts (more than the *)
(* exhaustive configurations explore) and random server reactions, and     *)
(* logs one line per socket operation of the client:                       *)
(*  {"ev":"Call","p":proto,"r":retries}                                    *)
(*  {"ev":"Send","tpl":template,"chal":n,"round":n,"react":outcome|"none"} *)
(*        chal : attempt whose handshake reply issued the echoed challenge *)
(*               (0 = the request carries none, 99 = some other value)     *)
(*        round: challenge round whose value is echoed (FFOW), 0 / 99 alike*)
(*        react: what the scripted server does on this request ("none":    *)
(*               the request is not answered by itself - Java's first two) *)
(*  {"ev":"Recv","out":"good"|"bad"|"chal"|"timeout"}                      *)
(*  {"ev":"Return","state":"ok"|"err","class":c,"opens":n}                 *)
(* Every line must be a step of the specification.                         *)
(***************************************************************************)
EXTENDS Exchange, IOUtils, TLCExt

Rec == ndJsonDeserialize(IOEnv.TRACE)
VARIABLE l
tvars == <<vars, l>>
Ev(e) == l <= Len(Rec) /\ Rec[l].ev = e

Idle == [state |-> "idle", err |-> ""]
TraceInit == /\ l = 1
             /\ cfg = [p |-> "quake1", r |-> 0]
             /\ attempt = 1 /\ step = 1 /\ net = <<>> /\ sent = <<>> /\ chal = 0 /\ rounds = 0 /\ pend = 0 /\ opens = 1 /\ rcvd = 0
             /\ result = Idle /\ hist = <<>>

TCall == /\ Ev("Call") /\ result.state # "pending"
         /\ cfg' = [p |-> Rec[l].p, r |-> Rec[l].r]
         /\ attempt' = 1 /\ step' = 1 /\ net' = <<>> /\ sent' = <<>> /\ chal' = 0 /\ rounds' = 0 /\ pend' = 0 /\ opens' = 1 /\ rcvd' = 0
         /\ result' = Pending /\ hist' = <<>>
         /\ l' = l + 1

TSend == /\ Ev("Send")
         /\ Send
         /\ LET s == sent'[Len(sent')] IN
              /\ s.tpl = Rec[l].tpl /\ s.chal = Rec[l].chal /\ s.round = Rec[l].round
         /\ IF Rec[l].react = "none" THEN hist' = hist ELSE (Len(hist') = Len(hist) + 1 /\ hist'[Len(hist')] = Rec[l].react)
         /\ l' = l + 1

TRecv == /\ Ev("Recv")
         /\ CASE Rec[l].out = "good" -> RecvGood
              [] Rec[l].out = "bad" -> RecvBad
              [] Rec[l].out = "chal" -> RecvChal
              [] Rec[l].out = "timeout" -> RecvTimeout
         /\ l' = l + 1

TReturn == /\ Ev("Return") /\ result.state \in {"ok", "err"}
           /\ Rec[l].state = result.state
           /\ (result.state = "err" => Rec[l].class = result.err)
           /\ Rec[l].opens = opens
           /\ result' = Idle
           /\ UNCHANGED <<cfg, attempt, step, net, sent, chal, rounds, pend, opens, rcvd, hist>>
           /\ l' = l + 1

TraceNext == TCall \/ TSend \/ TRecv \/ TReturn
TraceSpec == TraceInit /\ [][TraceNext]_tvars

\* the specification's invariants at every step of the recorded executions
TAttemptsBounded == result.state = "pending" => attempt <= MaxAttempts
TSendsBounded == Len(sent) <= MaxAttempts * Len(Sends(cfg.p)) + rcvd
TChallengeFresh == ChallengeFresh
TOpensBounded == opens <= MaxAttempts

TraceAccepted ==
  LET d == TLCGet("stats").diameter
  IN  IF d - 1 = Len(Rec) THEN PrintT(<<"TRACE_ACCEPTED", Len(Rec)>>)
      ELSE PrintT(<<"TRACE_REJECTED at", d, Rec[d]>>)
=============================================================================
