SPECIFICATION Spec
CONSTANTS
  MaxInserts = 0
  Vals <- V1
  MaxPages = 1
  PageLens <- PL
  Emit = TRUE
  Mode = "bulk"
INVARIANTS LastWins Export
CHECK_DEADLOCK FALSE
