SPECIFICATION Spec
CONSTANTS
  Emit = TRUE
INVARIANTS CountsMapped PlayersConsistent
CHECK_DEADLOCK FALSE
