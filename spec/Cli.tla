-------------------------------- MODULE Cli --------------------------------
(***************************************************************************)
(* C19: the command-line tool prints one well-formed, faithful document or *)
(* a clean error.                                                          *)
(*                                                                         *)
(* Pipeline: parse arguments -> find game -> resolve host -> query ->      *)
(* print -> exit.  TLC enumerates the case matrix; the real binary is run  *)
(* for every case.                                                         *)
(*   good invocation: exit status 0 and exactly one document on stdout,    *)
(*     well-formed in the requested format, carrying the values the        *)
(*     library returned for the same server;                               *)
(*   bad invocation (unknown game, unresolvable host, unreachable server,  *)
(*     invalid flag value): non-zero exit status, a message on stderr,     *)
(*     never a panic.                                                      *)
(***************************************************************************)
EXTENDS Naturals, Integers, Sequences, FiniteSets, TLC, Json

CONSTANTS Emit
VARIABLES c, stage, exit
vars == <<c, stage, exit>>

Families == {"valve", "valvegold", "theship", "gs1", "gs2", "gs3", "quake1", "quake3", "unreal2", "java", "bedrock", "legacy16",
             "mcauto", "ffow", "jc2m", "savage2", "mindustry"}
Modes == {"generic", "protocol-specific"}
Formats == {"debug", "json", "json-pretty", "xml", "bson-hex", "bson-base64"}
StrClasses == {"plain", "markup", "control", "nonascii", "empty"}
\* flag values that denote no usable duration: zero, a positive value below the clock's resolution (it would round to zero),
\* a negative number, text
TimeoutErrors == {"zero_timeout", "tiny_read_timeout", "tiny_write_timeout", "tiny_connect_timeout", "negative_timeout", "text_timeout"}
\* texts that denote no representable duration whatever number syntax a flag accepts: not-a-number, the infinities, values above
\* the largest duration (2^64 s) in plain, exponent and long-digit spelling; given to each of the three timeout flags
UnrepresentableTexts == {"nan", "NaN", "inf", "-inf", "+inf", "infinity", "1e20", "1e400", "18446744073709551616",
                         "99999999999999999999999999", "-1e400"}
TimeoutFlags == {"--read-timeout", "--write-timeout", "--connect-timeout"}
Errors == {"unknown_game", "unresolvable_host", "unreachable_server", "bad_port", "bad_format", "bad_retries", "missing_ip"} \cup TimeoutErrors

\* size: "large" = a reply with more than a hundred players (documents of tens of kilobytes: output that is produced in
\* pieces must still be one well-formed document); served for the text protocol where such replies are one datagram
Sizes == {"small", "large"}
\* host: the server is named by an IP literal, or by a host name together with a request option (two optional features that
\* meet in the argument handling: the name becomes the request's host name, the option must survive that) - for the families
\* whose options change the response
NamedHostFams == {"valve", "valvegold", "theship", "unreal2"}
Good == {g \in [kind : {"good"}, fam : Families, mode : Modes, fmt : Formats, str : StrClasses, size : Sizes, host : {"literal", "name"}] :
           /\ (g.size = "large" => g.fam = "quake3")
           /\ (g.host = "name" => (g.fam \in NamedHostFams /\ g.str = "plain" /\ g.size = "small"))}
\* a reachable server whose reply the library rejects (cut short, bytes appended, another reply kind): the query stage fails
MalformedHows == {"truncated", "appended", "garbage"}
Bad == [kind : {"bad"}, err : Errors, fmt : {"json", "xml"}]
       \cup [kind : {"bad"}, err : {"malformed_reply"}, fmt : {"json"}, fam : Families, how : MalformedHows]
       \cup [kind : {"bad"}, err : {"unrepresentable_timeout"}, fmt : {"json"}, flag : TimeoutFlags, text : UnrepresentableTexts]

Init == c \in Good \cup Bad /\ stage = "args" /\ exit = 0

\* the stage at which a bad invocation stops
FailsAt(x) == CASE x.err \in {"bad_port", "bad_format", "bad_retries", "missing_ip", "unrepresentable_timeout"} \cup TimeoutErrors -> "args"
                [] x.err = "unknown_game" -> "find"
                [] x.err = "unresolvable_host" -> "resolve"
                [] x.err \in {"unreachable_server", "malformed_reply"} -> "query"
Order == <<"args", "find", "resolve", "query", "print", "done">>
NextStage(s) == CASE s = "args" -> "find" [] s = "find" -> "resolve" [] s = "resolve" -> "query" [] s = "query" -> "print" [] s = "print" -> "done"

Advance == /\ stage \notin {"done", "failed"}
           /\ IF c.kind = "bad" /\ FailsAt(c) = stage
              THEN stage' = "failed" /\ exit' = 1
              ELSE stage' = NextStage(stage) /\ exit' = exit
           /\ UNCHANGED c
           /\ (Emit /\ stage = "args") => PrintT(<<"CASE", ToJson(c)>>)
Spec == Init /\ [][Advance]_vars /\ WF_vars(Advance)

\* exit status 0 exactly for the invocations that reach the end; every bad one fails before printing
ExitRule == (stage = "done" => (c.kind = "good" /\ exit = 0)) /\ (stage = "failed" => (c.kind = "bad" /\ exit # 0))
NeverPrintsOnError == c.kind = "bad" => stage # "print"
Terminates == <>(stage \in {"done", "failed"})
=============================================================================
