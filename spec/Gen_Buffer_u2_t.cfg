SPECIFICATION Spec
CONSTANTS
  Alphabet <- U2AlphabetT
  Ops <- U2Ops
  MaxLen = 6
  Orders <- LEOnly
  MoveOffsets <- MCMoveOffsets
  ChunkSizes <- MCChunkSizes
  Delims <- MCDelims
  Emit = TRUE
INVARIANTS CursorInBounds
CHECK_DEADLOCK FALSE
