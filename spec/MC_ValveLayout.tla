-------------------------- MODULE MC_ValveLayout --------------------------
EXTENDS ValveLayout
MCPlayerCounts == {0, 1, 2, 5}
MCRuleCounts == {0, 1, 2, 7}
MCPlayerCountsT == {0, 1, 2, 5, 40, 255}
MCRuleCountsT == {0, 1, 2, 7, 60, 300}
=============================================================================
