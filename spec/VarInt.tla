------------------------------- MODULE VarInt -------------------------------
(***************************************************************************)
(* Reference model of the Minecraft VarInt and string codecs (C17).        *)
(*                                                                         *)
(* A 32-bit integer is represented by its five 7-bit groups                *)
(* <<g0, g1, g2, g3, g4>> (g0 least significant, g4 in 0..15), because     *)
(* TLC integers are 32-bit signed.  The sign bit is bit 3 of g4.           *)
(*                                                                         *)
(* Encoding: the minimal number of groups, least significant first, each   *)
(* byte carrying 7 bits and the continuation bit 0x80 on all but the last. *)
(* Decoding: at most five bytes; stops at the first byte without the       *)
(* continuation bit; an encoding is over-long (rejected) when its fifth    *)
(* byte has the continuation bit or any bit above bit 31 (byte > 0x0F);    *)
(* running out of bytes is an error; non-minimal encodings are accepted.   *)
(* Source: wiki.vg "Protocol", VarInt (D3 in DESIGN.md).                   *)
(***************************************************************************)
EXTENDS Naturals, Sequences, FiniteSets, TLC, Json

CONSTANTS ByteClasses,   \* bytes used to build decoder inputs
          GroupClasses,  \* 7-bit group values used to build encoder inputs
          TopClasses,    \* values of the top 4-bit group
          MaxInputLen,
          Emit

VARIABLES mode, input, out
vars == <<mode, input, out>>

Zero == <<0, 0, 0, 0, 0>>

\* number of significant groups (at least 1)
Sig(gs) == IF gs[5] # 0 THEN 5 ELSE IF gs[4] # 0 THEN 4 ELSE IF gs[3] # 0 THEN 3 ELSE IF gs[2] # 0 THEN 2 ELSE 1

Enc(gs) == LET n == Sig(gs) IN [i \in 1 .. n |-> IF i < n THEN gs[i] + 128 ELSE gs[i]]

\* Dec(bs) = [ok, val, used]
RECURSIVE DecFrom(_, _, _)
DecFrom(bs, i, acc) ==
  IF i > Len(bs) THEN [ok |-> FALSE, why |-> "underflow", val |-> Zero, used |-> 0]
  ELSE LET b == bs[i]
           cont == b >= 128
           payload == b % 128
       IN  IF i = 5 /\ b > 15 THEN [ok |-> FALSE, why |-> "overlong", val |-> Zero, used |-> 0]
           ELSE LET acc2 == [acc EXCEPT ![i] = payload]
                IN  IF ~cont THEN [ok |-> TRUE, why |-> "", val |-> acc2, used |-> i]
                    ELSE DecFrom(bs, i + 1, acc2)
Dec(bs) == DecFrom(bs, 1, Zero)

Negative(gs) == gs[5] >= 8
\* small lengths as naturals (only used when the value fits in two groups and is non-negative)
SmallNat(gs) == gs[1] + 128 * gs[2]
IsSmall(gs) == gs[3] = 0 /\ gs[4] = 0 /\ gs[5] = 0

\* string = VarInt byte length, then that many bytes (UTF-8 validity is checked at byte level in Buffer.tla;
\* here payload bytes are ASCII).  A negative or too large declared length is an error, never a crash.
DecStr(bs) ==
  LET h == Dec(bs)
  IN  IF ~h.ok THEN [ok |-> FALSE, val |-> <<>>, used |-> 0]
      ELSE IF Negative(h.val) \/ ~IsSmall(h.val) THEN [ok |-> FALSE, val |-> <<>>, used |-> 0]
      ELSE LET n == SmallNat(h.val)
           IN  IF Len(bs) - h.used < n THEN [ok |-> FALSE, val |-> <<>>, used |-> 0]
               ELSE [ok |-> TRUE, val |-> SubSeq(bs, h.used + 1, h.used + n), used |-> h.used + n]

-----------------------------------------------------------------------------
DecInputs == UNION {[1 .. n -> ByteClasses] : n \in 0 .. MaxInputLen}
EncInputs == {<<a, b, c, d, e>> : a \in GroupClasses, b \in GroupClasses, c \in GroupClasses,
                                  d \in GroupClasses, e \in TopClasses}

Init == /\ mode \in {"dec", "enc", "str"}
        /\ input \in (IF mode = "enc" THEN EncInputs ELSE DecInputs)
        /\ out = [t |-> "none"]

Step == /\ out.t = "none"
        /\ out' = CASE mode = "dec" -> [t |-> "dec", r |-> Dec(input)]
                    [] mode = "enc" -> [t |-> "enc", r |-> Enc(input)]
                    [] mode = "str" -> [t |-> "str", r |-> DecStr(input)]
        /\ Emit => PrintT(<<"CASE", ToJson([mode |-> mode, input |-> input, out |-> out'])>>)
        /\ UNCHANGED <<mode, input>>

Spec == Init /\ [][Step]_vars

-----------------------------------------------------------------------------
\* decoding inverts encoding and consumes exactly the encoding
RoundTrip == (out.t = "enc") => Dec(out.r) = [ok |-> TRUE, why |-> "", val |-> input, used |-> Len(out.r)]
\* an encoding never needs more than five bytes and is minimal
EncShape == (out.t = "enc") => /\ Len(out.r) \in 1 .. 5
                                /\ \A i \in 1 .. Len(out.r) : (out.r[i] >= 128) = (i < Len(out.r))
                                /\ (Len(out.r) > 1 => out.r[Len(out.r)] # 0)
\* every accepted input re-encodes to a value whose minimal encoding decodes to the same value;
\* over-long inputs are rejected
OverlongRejected ==
  (out.t = "dec" /\ Len(input) >= 5 /\ \A i \in 1 .. 4 : input[i] >= 128) => (out.r.ok = (input[5] <= 15))
AcceptedConsistent == (out.t = "dec" /\ out.r.ok) => Dec(Enc(out.r.val)).val = out.r.val
DecUsedInBounds == (out.t = "dec" /\ out.r.ok) => out.r.used \in 1 .. Len(input)
StrInBounds == (out.t = "str" /\ out.r.ok) => out.r.used <= Len(input) /\ Len(out.r.val) <= Len(input)

=============================================================================
