SPECIFICATION Spec
CONSTANTS
  Ks <- K6
  Modes <- AllModes
  AllowDup = TRUE
  Emit = TRUE
INVARIANTS Export
CHECK_DEADLOCK FALSE
