SPECIFICATION Spec
CONSTANTS
  Emit = TRUE
INVARIANTS Export
CHECK_DEADLOCK FALSE
