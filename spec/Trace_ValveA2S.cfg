SPECIFICATION TraceSpec
CONSTANTS
  Retries = {}
  Toggles = {}
  Expects = {}
  Srvs = {}
  Checks = {}
  Reactions = {"good", "silent", "bad", "chal", "frags", "fragsshort"}
  MaxRounds = 100
  MaxFaultyUnits = 100
  Emit = FALSE
INVARIANTS TAttemptsBounded TSendsBounded TSkipNeverRequested
CONSTRAINT Progress
POSTCONDITION TraceAccepted
CHECK_DEADLOCK FALSE
