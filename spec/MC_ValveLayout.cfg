SPECIFICATION Spec
CONSTANTS
  PlayerCounts <- MCPlayerCounts
  RuleCounts <- MCRuleCounts
  Emit = TRUE
INVARIANTS ExpectGrounded FieldsUnique EdfConsistent
CHECK_DEADLOCK FALSE
