------------------------------ MODULE GameMaps ------------------------------
(***************************************************************************)
(* C07 (second half): games whose response is *derived* from another       *)
(* reply: The Ship and Battalion 1944 from the Valve A2S response, Eco     *)
(* from the HTTP JSON document.  Each table says which field of the game's *)
(* response carries which value of the source.                             *)
(***************************************************************************)
EXTENDS Naturals, Sequences, FiniteSets, TLC, Json

CONSTANT Emit
VARIABLES which, done
vars == <<which, done>>

M(dst, src) == [dst |-> dst, src |-> src]

\* The Ship: needs the ship fields of the info reply, the players and the rules (a response without them is an error)
TheShip ==
  [fields |-> <<M(<<"protocol_version">>, <<"info", "protocol_version">>), M(<<"name">>, <<"info", "name">>), M(<<"map">>, <<"info", "map">>),
                M(<<"game_mode">>, <<"info", "game_mode">>), M(<<"game_version">>, <<"info", "game_version">>),
                M(<<"players_online">>, <<"info", "players_online">>), M(<<"players_maximum">>, <<"info", "players_maximum">>),
                M(<<"players_bots">>, <<"info", "players_bots">>), M(<<"server_type">>, <<"info", "server_type">>),
                M(<<"has_password">>, <<"info", "has_password">>), M(<<"vac_secured">>, <<"info", "vac_secured">>),
                M(<<"port">>, <<"info", "extra_data", "port">>), M(<<"steam_id">>, <<"info", "extra_data", "steam_id">>),
                M(<<"tv_port">>, <<"info", "extra_data", "tv_port">>), M(<<"tv_name">>, <<"info", "extra_data", "tv_name">>),
                M(<<"keywords">>, <<"info", "extra_data", "keywords">>), M(<<"rules">>, <<"rules">>),
                M(<<"mode">>, <<"info", "the_ship", "mode">>), M(<<"witnesses">>, <<"info", "the_ship", "witnesses">>),
                M(<<"duration">>, <<"info", "the_ship", "duration">>)>>,
   players |-> [list |-> <<"players">>, fields |-> <<"name", "score", "duration", "deaths", "money">>],
   requires |-> <<<<"info", "the_ship">>, <<"players">>, <<"rules">>>>]

\* Battalion 1944: rule overrides (rule key -> info field it replaces, how its text is read); the rule is then removed;
\* bat_map_s is removed without being used
Battalion ==
  [overrides |-> <<[rule |-> "bat_max_players_i", field |-> "players_maximum", as |-> "u8"],
                   [rule |-> "bat_player_count_s", field |-> "players_online", as |-> "u8"],
                   [rule |-> "bat_has_password_s", field |-> "has_password", as |-> "isY"],
                   [rule |-> "bat_name_s", field |-> "name", as |-> "text"],
                   [rule |-> "bat_gamemode_s", field |-> "game_mode", as |-> "text"]>>,
   dropped |-> <<"bat_map_s">>]

\* Eco: member of the Info object -> field of the response (the JSON names are the documented interface)
Eco ==
  [fields |-> <<M("external", "External"), M("port", "GamePort"), M("query_port", "WebPort"), M("is_lan", "IsLAN"),
                M("description", "Description"), M("description_detailed", "DetailedDescription"), M("description_economy", "EconomyDesc"),
                M("category", "Category"), M("players_online", "OnlinePlayers"), M("players_maximum", "TotalPlayers"),
                M("admin_online", "AdminOnline"), M("time_since_start", "TimeSinceStart"), M("time_left", "TimeLeft"),
                M("animals", "Animals"), M("plants", "Plants"), M("laws", "Laws"), M("world_size", "WorldSize"), M("game_version", "Version"),
                M("skill_specialization_setting", "SkillSpecializationSetting"), M("language", "Language"), M("has_password", "HasPassword"),
                M("has_meteor", "HasMeteor"), M("distribution_station_items", "DistributionStationItems"), M("playtimes", "Playtimes"),
                M("discord_address", "DiscordAddress"), M("is_paused", "IsPaused"), M("active_and_online_players", "ActiveAndOnlinePlayers"),
                M("peak_active_players", "PeakActivePlayers"), M("max_active_players", "MaxActivePlayers"),
                M("shelf_life_multiplier", "ShelfLifeMultiplier"), M("exhaustion_after_hours", "ExhaustionAfterHours"),
                M("is_limiting_hours", "IsLimitingHours"), M("server_achievements_dict", "ServerAchievementsDict"),
                M("relay_address", "RelayAddress"), M("access", "Access"), M("connect", "JoinUrl")>>,
   players |-> [from |-> "OnlinePlayersNames", field |-> "name"],
   types |-> [External |-> "bool", GamePort |-> "u32", WebPort |-> "u32", IsLAN |-> "bool", OnlinePlayers |-> "u32", TotalPlayers |-> "u32",
              AdminOnline |-> "bool", TimeSinceStart |-> "f64", TimeLeft |-> "f64", Animals |-> "u32", Plants |-> "u32", Laws |-> "u32",
              HasPassword |-> "bool", HasMeteor |-> "bool", IsPaused |-> "bool", ActiveAndOnlinePlayers |-> "u32", PeakActivePlayers |-> "u32",
              MaxActivePlayers |-> "u32", ShelfLifeMultiplier |-> "f64", ExhaustionAfterHours |-> "f64", IsLimitingHours |-> "bool",
              ServerAchievementsDict |-> "map"]]

Init == which \in {"theship", "battalion", "eco"} /\ done = FALSE
Step == /\ ~done /\ done' = TRUE /\ UNCHANGED which
        /\ Emit => PrintT(<<"MAP", ToJson([game |-> which,
                                            table |-> CASE which = "theship" -> TheShip [] which = "battalion" -> Battalion [] which = "eco" -> Eco])>>)
Spec == Init /\ [][Step]_vars

\* every destination field is written once
Dsts(t) == {t.fields[i].dst : i \in 1 .. Len(t.fields)}
Injective == /\ Cardinality(Dsts(TheShip)) = Len(TheShip.fields)
             /\ Cardinality(Dsts(Eco)) = Len(Eco.fields)
=============================================================================
