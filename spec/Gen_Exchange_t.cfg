SPECIFICATION Spec
CONSTANTS
  Protos <- AllProtos
  Retries <- R0123
  Outcomes <- AllOutcomes
  Emit = TRUE
INVARIANTS AttemptsBounded SendsBounded ChallengeFresh OnlyProtocolRequests ErrorClassFaithful AllTimeoutsGiveTimeout OpensBounded Export

CHECK_DEADLOCK FALSE
