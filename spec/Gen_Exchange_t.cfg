SPECIFICATION Spec
CONSTANTS
  Protos <- AllProtos
  Retries <- R0123
  Outcomes <- AllOutcomes
  MaxRounds = 2
  Emit = TRUE
INVARIANTS AttemptsBounded SendsBounded ChallengeFresh RoundEchoed OnlyProtocolRequests ErrorClassFaithful AllTimeoutsGiveTimeout OpensBounded Export

CHECK_DEADLOCK FALSE
