----------------------------- MODULE CommonView -----------------------------
(***************************************************************************)
(* C15: the protocol-independent view of a response equals the             *)
(* protocol-specific data.                                                 *)
(*                                                                         *)
(* For every response type the table gives, per common accessor, the path  *)
(* of the corresponding field inside the protocol-specific response        *)
(* (RESPONSES.md: the field "that performs the same function"), "none"     *)
(* when the type has no such field, or "free" when the documentation does  *)
(* not settle it (the accessor may then return nothing or the field's      *)
(* text).  `wrap` is the variant path of the type inside the generic       *)
(* response (as_original).  Players: the list path and, per player, the    *)
(* name and score paths.                                                   *)
(***************************************************************************)
EXTENDS Naturals, Sequences, FiniteSets, TLC, Json

CONSTANT Emit
VARIABLES ty, done
vars == <<ty, done>>

None == <<"none">>
Free == <<"free">>
P(s) == <<"path">> \o s

Row(wrap, name, desc, mode, version, map, max, online, bots, pw, players) ==
  [wrap |-> wrap, name |-> name, description |-> desc, game_mode |-> mode, game_version |-> version, map |-> map,
   players_maximum |-> max, players_online |-> online, players_bots |-> bots, has_password |-> pw, players |-> players]
Pl(list, name, score) == [list |-> list, name |-> name, score |-> score]
NoPlayers == [list |-> None, name |-> None, score |-> None]

Table ==
  [valve |-> Row(<<"Valve">>, P(<<"info", "name">>), None, P(<<"info", "game_mode">>), P(<<"info", "game_version">>), P(<<"info", "map">>),
                 P(<<"info", "players_maximum">>), P(<<"info", "players_online">>), P(<<"info", "players_bots">>), P(<<"info", "has_password">>),
                 Pl(P(<<"players">>), P(<<"name">>), P(<<"score">>))),
   theship |-> Row(<<"TheShip">>, P(<<"name">>), None, P(<<"game_mode">>), P(<<"game_version">>), P(<<"map">>), P(<<"players_maximum">>),
                   P(<<"players_online">>), P(<<"players_bots">>), P(<<"has_password">>), Pl(P(<<"players">>), P(<<"name">>), P(<<"score">>))),
   gs1 |-> Row(<<"GameSpy", "One">>, P(<<"name">>), None, P(<<"game_mode">>), P(<<"game_version">>), P(<<"map">>), P(<<"players_maximum">>),
               P(<<"players_online">>), None, P(<<"has_password">>), Pl(P(<<"players">>), P(<<"name">>), P(<<"score">>))),
   gs2 |-> Row(<<"GameSpy", "Two">>, P(<<"name">>), None, None, None, P(<<"map">>), P(<<"players_maximum">>), P(<<"players_online">>), None,
               P(<<"has_password">>), Pl(P(<<"players">>), P(<<"name">>), P(<<"score">>))),
   gs3 |-> Row(<<"GameSpy", "Three">>, P(<<"name">>), None, P(<<"game_mode">>), P(<<"game_version">>), P(<<"map">>), P(<<"players_maximum">>),
               P(<<"players_online">>), None, P(<<"has_password">>), Pl(P(<<"players">>), P(<<"name">>), P(<<"score">>))),
   quake1 |-> Row(<<"Quake", "One">>, P(<<"name">>), None, None, P(<<"game_version">>), P(<<"map">>), P(<<"players_maximum">>),
                  P(<<"players_online">>), None, None, Pl(P(<<"players">>), P(<<"name">>), P(<<"score">>))),
   quake23 |-> Row(<<"Quake", "TwoAndThree">>, P(<<"name">>), None, None, P(<<"game_version">>), P(<<"map">>), P(<<"players_maximum">>),
                   P(<<"players_online">>), None, None, Pl(P(<<"players">>), P(<<"name">>), P(<<"score">>))),
   unreal2 |-> Row(<<"Unreal2">>, P(<<"server_info", "name">>), None, P(<<"server_info", "game_type">>), None, P(<<"server_info", "map">>),
                   P(<<"server_info", "max_players">>), P(<<"server_info", "num_players">>), None, P(<<"server_info", "password">>),
                   Pl(P(<<"players", "players">>), P(<<"name">>), P(<<"score">>))),
   java |-> Row(<<"Minecraft", "Java">>, None, P(<<"description">>), None, P(<<"game_version">>), None, P(<<"players_maximum">>),
                P(<<"players_online">>), None, None, Pl(P(<<"players">>), P(<<"name">>), None)),
   bedrock |-> Row(<<"Minecraft", "Bedrock">>, P(<<"name">>), None, Free, P(<<"version_name">>), P(<<"map">>), P(<<"players_maximum">>),
                   P(<<"players_online">>), None, None, NoPlayers),
   ffow |-> Row(<<"FFOW">>, P(<<"name">>), P(<<"description">>), P(<<"game_mode">>), P(<<"game_version">>), P(<<"map">>), P(<<"players_maximum">>),
                P(<<"players_online">>), None, P(<<"has_password">>), NoPlayers),
   jc2m |-> Row(<<"JC2M">>, P(<<"name">>), P(<<"description">>), None, P(<<"game_version">>), None, P(<<"players_maximum">>),
                P(<<"players_online">>), None, P(<<"has_password">>), Pl(P(<<"players">>), P(<<"name">>), None)),
   savage2 |-> Row(<<"Savage2">>, P(<<"name">>), None, P(<<"game_mode">>), None, P(<<"map">>), P(<<"players_maximum">>), P(<<"players_online">>),
                   None, None, NoPlayers),
   \* Mindustry: counts are signed on the wire (negative -> 0 in the unsigned common view); the mode is an enum whose
   \* lower-case name is the common game mode; the host name has no same-named common field
   mindustry |-> Row(<<"Mindustry">>, Free, P(<<"description">>), <<"lower", "gamemode">>, None, P(<<"map">>), <<"clamp0", "player_limit">>,
                     <<"clamp0", "players">>, None, None, NoPlayers),
   eco |-> Row(<<"Eco">>, None, P(<<"description">>), None, P(<<"game_version">>), None, P(<<"players_maximum">>), P(<<"players_online">>), None,
               P(<<"has_password">>), Pl(P(<<"players">>), P(<<"name">>), None))]

Types == DOMAIN Table
Accessors == {"name", "description", "game_mode", "game_version", "map", "players_maximum", "players_online", "players_bots", "has_password"}

Init == ty \in Types /\ done = FALSE
Step == /\ ~done /\ done' = TRUE /\ UNCHANGED ty
        /\ Emit => PrintT(<<"VIEW", ToJson([ty |-> ty, row |-> Table[ty]])>>)
Spec == Init /\ [][Step]_vars

\* the two mandatory accessors are always mapped; a type without a player list has no per-player paths
CountsMapped == Table[ty].players_maximum[1] # "none" /\ Table[ty].players_online[1] # "none"
PlayersConsistent == (Table[ty].players.list = None) => (Table[ty].players.name = None /\ Table[ty].players.score = None)
=============================================================================
