SPECIFICATION TraceSpec
CONSTANTS
  Emit = FALSE
POSTCONDITION TraceAccepted
CHECK_DEADLOCK FALSE
