SPECIFICATION TraceSpec
CONSTANTS
  Alphabet = {}
  MaxLen = 0
  Orders = {}
  MoveOffsets = {}
  ChunkSizes = {}
  Delims = {}
  Emit = FALSE
INVARIANT TraceCursorInBounds
POSTCONDITION TraceAccepted
CHECK_DEADLOCK FALSE
