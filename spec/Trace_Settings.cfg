SPECIFICATION TraceSpec
CONSTANTS
  Durations = {}
  RetryClasses = {}
  Paths = {}
  Entries <- NoEntries
  Emit = FALSE
INVARIANTS TZeroRejected TNonZeroAccepted TUseOnlyAccepted
POSTCONDITION TraceAccepted
CHECK_DEADLOCK FALSE
