SPECIFICATION Spec
CONSTANTS
  Emit = FALSE
INVARIANTS ExitRule NeverPrintsOnError
PROPERTIES Terminates
CHECK_DEADLOCK FALSE
