-------------------------- MODULE Trace_ValveA2S --------------------------
(***************************************************************************)
(* Trace validation of recorded Valve A2S exchanges against ValveA2S.tla   *)
(* (C09, C10, C11, and the termination / bounded-sends halves of C01 and   *)
(* C13 for this protocol).  The harness drives the real valve::query with  *)
(* random configurations and random server reactions (more retries and     *)
(* challenge rounds than the exhaustive configs, junk replies) and logs:   *)
(*  {"ev":"Call","cfg":{r,gp,gr,check,expect,srv}}                         *)
(*  {"ev":"Send","req":sec,"chal":n,"react":kind}   (the reaction is what  *)
(*        the scripted server did; chal = index of the echoed challenge)   *)
(*  {"ev":"Recv","out":"timeout"|"chal"|"single"|"frags"|"fragsshort",     *)
(*        "good":"yes"|"no"|"unknown"}                                      *)
(*  {"ev":"Return","state":"ok"|"err","class":..,"players":b,"rules":b}    *)
(* Every line must be explained by an action of the specification; client  *)
(* decisions that touch no socket (skipping a section, the app-id check,   *)
(* finishing) are silent steps.  For replies of unknown validity TLC       *)
(* chooses the classification that explains what the client did next.      *)
(***************************************************************************)
EXTENDS ValveA2S, IOUtils, TLCExt

Rec == ndJsonDeserialize(IOEnv.TRACE)
VARIABLE l
tvars == <<vars, l>>

Ev(e) == l <= Len(Rec) /\ Rec[l].ev = e

TraceInit == /\ l = 1 /\ TLCSet(1, 1)
             /\ cfg = [r |-> 0, gp |-> "Skip", gr |-> "Skip", check |-> FALSE, expect |-> "none", srv |-> "main"]
             /\ pc = "done" /\ st = FreshUnit /\ net = <<>> /\ sent = <<>> /\ rcvd = 0
             /\ got = [info |-> "none", players |-> "none", rules |-> "none"]
             /\ result = [state |-> "idle", err |-> "", at |-> ""] /\ faulty = {} /\ hist = <<>>

TCall == /\ Ev("Call") /\ result.state # "pending"
         /\ cfg' = Rec[l].cfg
         /\ pc' = "info" /\ st' = FreshUnit /\ net' = <<>> /\ sent' = <<>> /\ rcvd' = 0
         /\ got' = [info |-> "none", players |-> "none", rules |-> "none"]
         /\ result' = [state |-> "pending", err |-> "", at |-> ""] /\ faulty' = {} /\ hist' = <<>>
         /\ l' = l + 1

\* a request on the wire: the specification's send action, with the reaction the server is known to have chosen
TSend == /\ Ev("Send")
         /\ (AppIdGate => AppIdPasses)
         /\ (SendInitial \/ SendWithChallenge)
         /\ sent'[Len(sent')].req = Rec[l].req
         /\ (sent'[Len(sent')].chal # NoChal) = (Rec[l].chal # 0)
         /\ sent'[Len(sent')].chal = Rec[l].chal           \* the echoed challenge is the one issued in this round
         \* a junk reply (random bytes behind a plausible header) is a single datagram of unknown validity
         /\ IF Rec[l].react = "junk" THEN hist'[Len(hist')].kind \in {"good", "bad"} ELSE hist'[Len(hist')].kind = Rec[l].react
         /\ l' = l + 1

TRecv == /\ Ev("Recv")
         /\ LET e == Rec[l] IN
              CASE e.out = "timeout" -> RecvTimeout
                [] e.out = "chal" -> RecvChallenge
                [] e.out = "frags" -> RecvFragsComplete
                [] e.out = "fragsshort" -> RecvFragsTimeout
                [] e.out = "single" -> (IF e.good = "unknown" THEN RecvGood \/ RecvMalformed
                                        ELSE IF e.good = "yes" THEN RecvGood ELSE RecvMalformed)
         /\ l' = l + 1

\* decisions without a socket operation
TSilent == /\ result.state = "pending"
           /\ ((AppIdGate => AppIdPasses) /\ SkipSection) \/ CheckAppIdFail \/ Finish
           /\ UNCHANGED l

Present(s) == got[s] = "present"
TReturn == /\ Ev("Return") /\ result.state \in {"ok", "err"}
           /\ Rec[l].state = result.state
           /\ (result.state = "err" => Rec[l].class = result.err)
           /\ (result.state = "ok" => (Rec[l].players = Present("players") /\ Rec[l].rules = Present("rules")))
           /\ result' = [state |-> "idle", err |-> "", at |-> ""]
           /\ UNCHANGED <<cfg, pc, st, net, sent, rcvd, got, faulty, hist>>
           /\ l' = l + 1

TraceNext == TCall \/ TSend \/ TRecv \/ TSilent \/ TReturn
TraceSpec == TraceInit /\ [][TraceNext]_tvars

\* the specification's invariants, evaluated at every step of the recorded executions
TAttemptsBounded == st.attempt <= cfg.r + 1
TSendsBounded == Len(sent) <= 3 * (cfg.r + 1) + rcvd
TSkipNeverRequested == \A i \in 1 .. Len(sent) : Toggle(sent[i].req) # "Skip"

\* progress register: the furthest line explained so far
Progress == TLCSet(1, IF TLCGet(1) < l THEN l ELSE TLCGet(1))
TraceAccepted ==
  LET d == TLCGet(1)
  IN  IF d - 1 = Len(Rec) THEN PrintT(<<"TRACE_ACCEPTED", Len(Rec)>>)
      ELSE PrintT(<<"TRACE_REJECTED at", d, Rec[d]>>)
=============================================================================
