SPECIFICATION Spec
CONSTANTS
  Retries <- R01
  Emit = TRUE
INVARIANTS BPositive
CHECK_DEADLOCK FALSE
