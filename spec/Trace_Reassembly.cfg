SPECIFICATION TraceSpec
CONSTANTS
  Ks = {}
  Modes = {}
  AllowDup = TRUE
  Emit = FALSE
INVARIANTS TOrderIndependent THeaderFromFragmentZero TNeverEarly
POSTCONDITION TraceAccepted
CHECK_DEADLOCK FALSE
