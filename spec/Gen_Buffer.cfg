SPECIFICATION Spec
CONSTANTS
  Alphabet <- MCAlphabet
  MaxLen = 3
  Orders <- MCOrders
  MoveOffsets <- MCMoveOffsets
  ChunkSizes <- MCChunkSizes
  Delims <- MCDelims
  Emit = TRUE
INVARIANTS CursorInBounds
CHECK_DEADLOCK FALSE
