------------------------------ MODULE Exchange ------------------------------
(***************************************************************************)
(* L1 exchange specification of the single-unit protocols (C09, C10; the   *)
(* termination / bounded-sends halves of C01 and C13 for them):            *)
(* Quake 1/2/3, GameSpy 1/2/3, JC2M, Minecraft Java / Bedrock / legacy,    *)
(* Mindustry, Savage 2, FFOW.                                              *)
(*                                                                         *)
(* A query is one request *unit* wrapped by the retry contract.  An        *)
(* attempt walks through the protocol's steps: "send" emits the next       *)
(* request of the unit (the template named by Sends(p)), "recv" consumes   *)
(* one reply.  A reply is good (the exchange goes on / completes), absent  *)
(* (timeout-class: the whole unit is re-attempted from its first request   *)
(* until r+1 attempts were made) or malformed (the query fails at once,    *)
(* never retried).  GameSpy 3 and JC2M first shake hands: the data request *)
(* must carry exactly the challenge of the handshake reply of the same     *)
(* attempt.  Mindustry opens a new socket per attempt; Savage 2 does not   *)
(* retry at all.  FFOW rides on the Valve transport: the server may        *)
(* answer a request with a challenge, which the client echoes in a         *)
(* re-sent request within the same attempt (any number of rounds).         *)
(***************************************************************************)
EXTENDS Naturals, Sequences, FiniteSets, TLC, Json

CONSTANTS Protos, Retries, Outcomes, Emit, MaxRounds

\* steps of one attempt, and the request template of every send
Steps(p) == CASE p \in {"gs3", "jc2m"} -> <<"send", "recv", "send", "recv">>
              [] p = "java" -> <<"send", "send", "send", "recv">>
              [] OTHER -> <<"send", "recv">>
Sends(p) == CASE p = "quake1" -> <<"quake1.status">> [] p = "quake2" -> <<"quake2.status">> [] p = "quake3" -> <<"quake3.status">>
              [] p = "gs1" -> <<"gs1.status">> [] p = "gs2" -> <<"gs2.query">>
              [] p = "gs3" -> <<"gs3.handshake", "gs3.data">> [] p = "jc2m" -> <<"gs3.handshake", "jc2m.data">>
              [] p = "java" -> <<"java.handshake", "java.status", "java.ping">>
              [] p = "bedrock" -> <<"bedrock.ping">> [] p = "legacy16" -> <<"legacy16.ping">>
              [] p = "legacy14" -> <<"legacy14.ping">> [] p = "legacyb18" -> <<"legacyb18.ping">>
              [] p = "mindustry" -> <<"mindustry.ping">> [] p = "savage2" -> <<"savage2.info">> [] p = "ffow" -> <<"ffow.info">>
ChalLoop(p) == p = "ffow"            \* a "chal" outcome is possible: re-send carrying the challenge, same attempt
ChalTemplate(p) == "ffow.infochal"
RetriesAtAll(p) == p # "savage2"
ReopensPerAttempt(p) == p = "mindustry"
AllProtos == {"quake1", "quake2", "quake3", "gs1", "gs2", "gs3", "jc2m", "java", "bedrock", "legacy16", "legacy14", "legacyb18",
              "mindustry", "savage2", "ffow"}

VARIABLES cfg,      \* [p, r]
          attempt, step,
          net,      \* replies queued for the client (each "good" | "bad")
          sent,     \* <<[tpl, attempt, chal]>>   chal: 0 = none, else the attempt whose handshake reply issued it
          chal,     \* challenge received in this attempt (0 = none yet)
          rounds,   \* challenge rounds played in this attempt (challenge-loop protocols)
          pend,     \* challenge round whose value the next request must carry (0 = none)
          opens, rcvd, result,
          hist      \* outcome chosen by the server for every recv step reached: "good" | "silent" | "bad"
vars == <<cfg, attempt, step, net, sent, chal, rounds, pend, opens, rcvd, result, hist>>

Pending == [state |-> "pending", err |-> ""]
Init == /\ cfg \in [p : Protos, r : Retries]
        /\ attempt = 1 /\ step = 1 /\ net = <<>> /\ sent = <<>> /\ chal = 0 /\ rounds = 0 /\ pend = 0 /\ opens = 1 /\ rcvd = 0
        /\ result = Pending /\ hist = <<>>

Running == result.state = "pending"
MaxAttempts == IF RetriesAtAll(cfg.p) THEN cfg.r + 1 ELSE 1
NthSend == Cardinality({i \in 1 .. step : Steps(cfg.p)[i] = "send"})     \* index of the send at `step`
\* is the recv step that follows this send the next step? (Java's first two writes are not answered)
AnsweredNext == step < Len(Steps(cfg.p)) /\ Steps(cfg.p)[step + 1] = "recv"

\* the client sends; the server decides what the following recv step will see
Send ==
  /\ Running /\ Steps(cfg.p)[step] = "send"
  /\ sent' = Append(sent, [tpl |-> IF pend # 0 THEN ChalTemplate(cfg.p) ELSE Sends(cfg.p)[NthSend], attempt |-> attempt,
                           chal |-> IF Sends(cfg.p)[NthSend] \in {"gs3.data", "jc2m.data"} THEN chal ELSE 0,
                           round |-> pend])
  /\ IF AnsweredNext
     THEN \E o \in Outcomes :
            /\ o = "chal" => (ChalLoop(cfg.p) /\ rounds < MaxRounds)
            /\ net' = IF o = "silent" THEN net ELSE Append(net, o)
            /\ hist' = Append(hist, o)
     ELSE UNCHANGED <<net, hist>>
  /\ step' = step + 1 /\ pend' = 0
  /\ UNCHANGED <<cfg, attempt, chal, rounds, opens, rcvd, result>>

Complete == step = Len(Steps(cfg.p))

RecvGood ==
  /\ Running /\ Steps(cfg.p)[step] = "recv" /\ net # <<>> /\ Head(net) = "good"
  /\ net' = Tail(net) /\ rcvd' = rcvd + 1
  /\ IF Complete THEN result' = [state |-> "ok", err |-> ""] /\ UNCHANGED <<step, chal>>
     ELSE /\ step' = step + 1 /\ UNCHANGED result
          /\ chal' = attempt        \* the handshake reply issued a challenge (identified by the attempt)
  /\ UNCHANGED <<cfg, attempt, sent, rounds, pend, opens, hist>>

\* a challenge: the same request is sent again, carrying it; not a new attempt
RecvChal ==
  /\ Running /\ Steps(cfg.p)[step] = "recv" /\ net # <<>> /\ Head(net) = "chal"
  /\ net' = Tail(net) /\ rcvd' = rcvd + 1
  /\ rounds' = rounds + 1 /\ pend' = rounds + 1 /\ step' = step - 1
  /\ UNCHANGED <<cfg, attempt, sent, chal, opens, result, hist>>

RecvBad ==
  /\ Running /\ Steps(cfg.p)[step] = "recv" /\ net # <<>> /\ Head(net) = "bad"
  /\ net' = Tail(net) /\ rcvd' = rcvd + 1
  /\ result' = [state |-> "err", err |-> "malformed"]
  /\ UNCHANGED <<cfg, attempt, step, sent, chal, rounds, pend, opens, hist>>

RecvTimeout ==
  /\ Running /\ Steps(cfg.p)[step] = "recv" /\ net = <<>>
  /\ IF attempt < MaxAttempts
     THEN /\ attempt' = attempt + 1 /\ step' = 1 /\ chal' = 0 /\ rounds' = 0 /\ pend' = 0
          /\ opens' = IF ReopensPerAttempt(cfg.p) THEN opens + 1 ELSE opens
          /\ UNCHANGED result
     ELSE /\ result' = [state |-> "err", err |-> "timeout"] /\ UNCHANGED <<attempt, step, chal, rounds, pend, opens>>
  /\ UNCHANGED <<cfg, net, sent, rcvd, hist>>

Next == Send \/ RecvGood \/ RecvChal \/ RecvBad \/ RecvTimeout
Spec == Init /\ [][Next]_vars /\ WF_vars(Next)

-----------------------------------------------------------------------------
AttemptsBounded == attempt <= MaxAttempts
\* first requests of attempts: at most r+1, and a new attempt only after a timeout
RetryOnlyAfterTimeout == [][attempt' > attempt => (net = <<>> /\ Steps(cfg.p)[step] = "recv")]_vars
SendsBounded == Len(sent) <= MaxAttempts * Len(Sends(cfg.p)) + rcvd
\* the data request carries the challenge of the handshake reply of the same attempt, nothing older
ChallengeFresh == \A i \in 1 .. Len(sent) : sent[i].chal # 0 => sent[i].chal = sent[i].attempt
\* challenge loop: a request carries a challenge exactly when the reply before it (same attempt) was a challenge, and it is
\* the challenge of that round
RoundEchoed == \A i \in 1 .. Len(sent) :
                 IF ChalLoop(cfg.p) /\ i > 1 /\ hist[i - 1] = "chal"
                 THEN sent[i].round # 0 /\ sent[i].attempt = sent[i - 1].attempt /\ sent[i].round = sent[i - 1].round + 1
                 ELSE sent[i].round = 0
OnlyProtocolRequests == \A i \in 1 .. Len(sent) :
                          \/ \E k \in 1 .. Len(Sends(cfg.p)) : sent[i].tpl = Sends(cfg.p)[k]
                          \/ ChalLoop(cfg.p) /\ sent[i].tpl = ChalTemplate(cfg.p) /\ sent[i].round # 0
ErrorClassFaithful == result.state = "err" => result.err \in {"timeout", "malformed"}
AllTimeoutsGiveTimeout == (result.state = "err" /\ \A i \in 1 .. Len(hist) : hist[i] = "silent") => result.err = "timeout"
OpensBounded == opens <= MaxAttempts
Termination == <>(result.state # "pending")

Export == (result.state # "pending" /\ Emit) =>
            PrintT(<<"BEHAVIOUR", ToJson([proto |-> cfg.p, cfg |-> cfg, hist |-> hist, sent |-> sent, opens |-> opens, result |-> result])>>)
=============================================================================
