SPECIFICATION TraceSpec
CONSTANTS
  MaxInserts = 0
  Vals = {}
  MaxPages = 0
  PageLens = {}
  Emit = FALSE
  Mode = "paging"
INVARIANTS TSeedChains TNoRequestAfterTerminator
POSTCONDITION TraceAccepted
CHECK_DEADLOCK FALSE
