SPECIFICATION Spec
CONSTANTS
  Emit = TRUE
INVARIANTS ExitRule NeverPrintsOnError
PROPERTIES Terminates
CHECK_DEADLOCK FALSE
