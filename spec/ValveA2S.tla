------------------------------ MODULE ValveA2S ------------------------------
(***************************************************************************)
(* L1 exchange specification of a Valve A2S query (C09, C10, C11 and the   *)
(* termination / bounded-sends halves of C01 and C13 for this protocol).   *)
(*                                                                         *)
(* Client: info -> app-id check -> players -> rules.  Each section is a    *)
(* request unit wrapped by the retry contract: an attempt sends the        *)
(* request, then consumes replies; a challenge reply makes the client      *)
(* re-send the same request carrying exactly that challenge (not a new     *)
(* attempt); silence (also in the middle of a split reply) is a            *)
(* timeout-class outcome and is retried until r+1 attempts were made; a    *)
(* malformed reply fails the section at once and is never retried.         *)
(* Gather toggles: Skip = never requested, absent; Try = failure leaves    *)
(* the section absent; Enforce = failure fails the query with that error.  *)
(*                                                                         *)
(* Environment: the server reacts to every request the client sends; the   *)
(* reaction is drawn inside the send action (reactive script, exactly what *)
(* the scripted transport executes).                                       *)
(*                                                                         *)
(* Sources: Valve wiki "Server queries" (challenge mechanism, split        *)
(* packets), doc comments of TimeoutSettings::new, retry_on_timeout,       *)
(* GatherToggle and valve::GatheringSettings.                              *)
(***************************************************************************)
EXTENDS Naturals, Sequences, FiniteSets, TLC, Json

CONSTANTS Retries,        \* set of retry counts explored
          Toggles,        \* subset of {"Skip","Try","Enforce"}
          Expects,        \* subset of {"none","main","main+ded"}: app ids the caller's engine setting expects
          Srvs,           \* subset of {"main","ded","other"}: the app id the server reports
          Checks,         \* subset of BOOLEAN: check_app_id
          Reactions,      \* subset of ReactionKinds the server may choose
          MaxRounds,      \* challenge rounds the server may play per attempt
          MaxFaultyUnits, \* number of sections in which the server may deviate from a plain valid reply (bounds exploration)
          Emit

ReactionKinds == {"good", "silent", "bad", "chal", "frags", "fragsshort"}
SectionsSeq == <<"info", "players", "rules">>
NoChal == 0

VARIABLES cfg,     \* [r, gp, gr, check, expect, srv]
          pc,      \* "info" | "players" | "rules" | "done"
          st,      \* [attempt, stage, chal, rounds, last]   stage: "send" | "recv" | "sendc"
          net,     \* queue of datagrams sent by the server and not yet consumed
          sent,    \* sequence of [req, chal]: every request the client emitted
          rcvd,    \* number of datagrams consumed
          got,     \* [info, players, rules] : "none" | "present" | "skipped" | "failed"
          result,  \* "pending" | [ok |-> TRUE] | [ok |-> FALSE, err |-> e, at |-> section]
          faulty,  \* set of sections in which the server has misbehaved so far
          hist     \* reactions in the order of the client's sends (what the scripted transport replays)
vars == <<cfg, pc, st, net, sent, rcvd, got, result, faulty, hist>>

Configs == [r : Retries, gp : Toggles, gr : Toggles, check : Checks, expect : Expects, srv : Srvs]
\* the reported id is none of the expected ones
Foreign(c) == \/ c.expect = "main" /\ c.srv # "main"
              \/ c.expect = "main+ded" /\ c.srv = "other"

FreshUnit == [attempt |-> 1, stage |-> "send", chal |-> NoChal, rounds |-> 0, last |-> "none"]

Toggle(s) == CASE s = "info" -> "Enforce" [] s = "players" -> cfg.gp [] s = "rules" -> cfg.gr
NextSec(s) == CASE s = "info" -> "players" [] s = "players" -> "rules" [] s = "rules" -> "done"

Init == /\ cfg \in Configs
        /\ pc = "info" /\ st = FreshUnit /\ net = <<>> /\ sent = <<>> /\ rcvd = 0
        /\ got = [info |-> "none", players |-> "none", rules |-> "none"]
        /\ result = [state |-> "pending", err |-> "", at |-> ""] /\ faulty = {} /\ hist = <<>>

Running == result.state = "pending" /\ pc # "done"

-----------------------------------------------------------------------------
(* environment: the datagrams a reaction puts on the wire *)
Datagrams(kind, c) ==
  CASE kind = "good"       -> <<[k |-> "single", good |-> TRUE]>>
    [] kind = "bad"        -> <<[k |-> "single", good |-> FALSE]>>
    [] kind = "silent"     -> <<>>
    [] kind = "chal"       -> <<[k |-> "chal", c |-> c]>>
    [] kind = "frags"      -> <<[k |-> "frag", n |-> 0, t |-> 2], [k |-> "frag", n |-> 1, t |-> 2]>>
    [] kind = "fragsshort" -> <<[k |-> "frag", n |-> 0, t |-> 2]>>      \* second fragment lost

\* anything but a plain valid single-datagram reply counts against the budget of "interesting" sections
Misbehaves(kind) == kind # "good"

\* the server picks a reaction to the request just sent (inside the send action)
React(round) ==
  \E kind \in Reactions :
    /\ kind = "chal" => st.rounds < MaxRounds
    /\ Misbehaves(kind) => (pc \in faulty \/ Cardinality(faulty) < MaxFaultyUnits)
    /\ LET c == IF kind = "chal" THEN round ELSE NoChal     \* a fresh challenge value per round of the attempt
       IN  /\ net' = net \o Datagrams(kind, c)
           /\ hist' = Append(hist, [sec |-> pc, kind |-> kind, c |-> c])
    /\ faulty' = IF Misbehaves(kind) THEN faulty \cup {pc} ELSE faulty

-----------------------------------------------------------------------------
(* client: one action per socket operation / decision *)

SkipSection ==
  /\ Running /\ st.stage = "send" /\ st.attempt = 1 /\ Toggle(pc) = "Skip"
  /\ got' = [got EXCEPT ![pc] = "skipped"]
  /\ pc' = NextSec(pc) /\ st' = FreshUnit
  /\ UNCHANGED <<cfg, net, sent, rcvd, result, faulty, hist>>

SendInitial ==
  /\ Running /\ st.stage = "send" /\ Toggle(pc) # "Skip" /\ st.attempt <= cfg.r + 1
  /\ sent' = Append(sent, [req |-> pc, chal |-> NoChal])
  /\ React(1)
  /\ st' = [st EXCEPT !.stage = "recv", !.rounds = 0, !.chal = NoChal]
  /\ UNCHANGED <<cfg, pc, rcvd, got, result>>

SendWithChallenge ==
  /\ Running /\ st.stage = "sendc"
  /\ sent' = Append(sent, [req |-> pc, chal |-> st.chal])
  /\ LET s2 == [st EXCEPT !.stage = "recv", !.rounds = st.rounds + 1] IN st' = s2
  /\ React(st.rounds + 2)
  /\ UNCHANGED <<cfg, pc, rcvd, got, result>>

SectionOk ==
  /\ got' = [got EXCEPT ![pc] = "present"]
  /\ pc' = NextSec(pc) /\ st' = FreshUnit

\* the section failed with error class e ("timeout" or "malformed")
SectionFails(e) ==
  IF Toggle(pc) = "Enforce"
  THEN /\ result' = [state |-> "err", err |-> e, at |-> pc]
       /\ got' = [got EXCEPT ![pc] = "failed"]
       /\ pc' = "done" /\ st' = [st EXCEPT !.last = e]
  ELSE /\ got' = [got EXCEPT ![pc] = "failed"]
       /\ pc' = NextSec(pc) /\ st' = FreshUnit /\ UNCHANGED result

RecvChallenge ==
  /\ Running /\ st.stage = "recv" /\ net # <<>> /\ Head(net).k = "chal"
  /\ net' = Tail(net) /\ rcvd' = rcvd + 1
  /\ st' = [st EXCEPT !.stage = "sendc", !.chal = Head(net).c]
  /\ UNCHANGED <<cfg, pc, sent, got, result, faulty, hist>>

RecvGood ==
  /\ Running /\ st.stage = "recv" /\ net # <<>> /\ Head(net).k = "single" /\ Head(net).good
  /\ net' = Tail(net) /\ rcvd' = rcvd + 1
  /\ SectionOk
  /\ UNCHANGED <<cfg, sent, result, faulty, hist>>

RecvMalformed ==
  /\ Running /\ st.stage = "recv" /\ net # <<>> /\ Head(net).k = "single" /\ ~Head(net).good
  /\ net' = Tail(net) /\ rcvd' = rcvd + 1
  /\ SectionFails("malformed")
  /\ UNCHANGED <<cfg, sent, faulty, hist>>

\* a split reply: the first fragment announces the total; the client consumes the others
RecvFragsComplete ==
  /\ Running /\ st.stage = "recv" /\ Len(net) >= 2 /\ net[1].k = "frag" /\ net[2].k = "frag"
  /\ {net[1].n, net[2].n} = {0, 1}
  /\ net' = Tail(Tail(net)) /\ rcvd' = rcvd + 2
  /\ SectionOk
  /\ UNCHANGED <<cfg, sent, result, faulty, hist>>

TimeoutStep ==   \* what a timeout-class outcome does to the unit: next attempt, or give up
  IF st.attempt <= cfg.r
  THEN /\ st' = [st EXCEPT !.attempt = st.attempt + 1, !.stage = "send", !.last = "timeout"]
       /\ UNCHANGED <<pc, got, result>>
  ELSE SectionFails("timeout")

RecvFragsTimeout ==
  /\ Running /\ st.stage = "recv" /\ Len(net) = 1 /\ net[1].k = "frag"
  /\ net' = <<>> /\ rcvd' = rcvd + 1
  /\ TimeoutStep
  /\ UNCHANGED <<cfg, sent, faulty, hist>>

RecvTimeout ==
  /\ Running /\ st.stage = "recv" /\ net = <<>>
  /\ TimeoutStep
  /\ UNCHANGED <<cfg, net, sent, rcvd, faulty, hist>>

\* after a successful info section the app id is checked before anything else is requested
AppIdGate == pc = "players" /\ got.info = "present" /\ got.players = "none" /\ st = FreshUnit
CheckAppIdFail ==
  /\ result.state = "pending" /\ AppIdGate /\ cfg.check /\ Foreign(cfg)
  /\ result' = [state |-> "err", err |-> "badgame", at |-> "appid"] /\ pc' = "done"
  /\ UNCHANGED <<cfg, st, net, sent, rcvd, got, faulty, hist>>
AppIdPasses == ~(cfg.check /\ Foreign(cfg))

Finish ==
  /\ result.state = "pending" /\ pc = "done"
  /\ result' = [state |-> "ok", err |-> "", at |-> ""]
  /\ UNCHANGED <<cfg, pc, st, net, sent, rcvd, got, faulty, hist>>

Client ==
  \/ (AppIdGate => AppIdPasses) /\ (SkipSection \/ SendInitial)
  \/ SendWithChallenge \/ RecvChallenge \/ RecvGood \/ RecvMalformed
  \/ RecvFragsComplete \/ RecvFragsTimeout \/ RecvTimeout
  \/ CheckAppIdFail \/ Finish

Next == Client
Spec == Init /\ [][Next]_vars /\ WF_vars(Next)

-----------------------------------------------------------------------------
(* properties *)
TypeOK == /\ cfg \in Configs
          /\ pc \in {"info", "players", "rules", "done"}
          /\ st.stage \in {"send", "recv", "sendc"}
          /\ rcvd \in Nat

\* C10: at most r+1 attempts per request unit
AttemptsBounded == st.attempt <= cfg.r + 1
SendsPerSection(s) == Cardinality({i \in 1 .. Len(sent) : sent[i].req = s /\ sent[i].chal = NoChal})
InitialSendsBounded == \A s \in {"info", "players", "rules"} : SendsPerSection(s) <= cfg.r + 1
\* C10: a new attempt only after a timeout-class outcome, never after a malformed reply
RetryOnlyAfterTimeout == [][(st'.attempt > st.attempt /\ pc' = pc) => st'.last = "timeout"]_vars
\* C10: when every attempt times out the failure is timeout-class; a malformed reply is reported as such
ErrorClassFaithful ==
  (result.state # "pending" /\ result.state = "err" /\ result.at \in {"info", "players", "rules"})
     => /\ got[result.at] = "failed"
        /\ result.err \in {"timeout", "malformed"}
\* C13 / D10: requests sent are bounded by the retry setting and the datagrams received
SendsBounded == Len(sent) <= 3 * (cfg.r + 1) + rcvd
\* C09: the request following a challenge carries exactly that challenge; nothing else is sent
ChallengeEchoed ==
  \A i \in 1 .. Len(sent) : sent[i].chal # NoChal =>
     /\ i > 1 /\ sent[i - 1].req = sent[i].req
     /\ hist[i - 1].kind = "chal" /\ hist[i - 1].c = sent[i].chal
OnlySectionRequests == \A i \in 1 .. Len(sent) : sent[i].req \in {"info", "players", "rules"}
\* C11
SkipNeverRequested == \A i \in 1 .. Len(sent) : Toggle(sent[i].req) # "Skip"
SkipAbsent == (result.state # "pending" /\ result.state = "ok") =>
                 /\ (cfg.gp = "Skip" => got.players = "skipped")
                 /\ (cfg.gr = "Skip" => got.rules = "skipped")
TryIsolates == (result.state # "pending" /\ result.state = "err" /\ result.at \in {"players", "rules"}) => Toggle(result.at) = "Enforce"
EnforcePropagates ==
  (result.state # "pending" /\ result.state = "ok") => \A s \in {"info", "players", "rules"} : Toggle(s) = "Enforce" => got[s] = "present"
AppIdRule ==
  result.state # "pending" =>
     /\ (result.state = "err" /\ result.err = "badgame") => (cfg.check /\ Foreign(cfg) /\ got.info = "present")
     /\ (cfg.check /\ Foreign(cfg) /\ got.info = "present") => (result.state = "err" /\ result.err = "badgame")
     /\ (result.state = "err" /\ result.err = "badgame") => \A i \in 1 .. Len(sent) : sent[i].req = "info"
\* order of sections on the wire
SectionOrder == \A i, j \in 1 .. Len(sent) : i < j =>
                  ~(sent[i].req = "rules" /\ sent[j].req \in {"info", "players"}) /\ ~(sent[i].req = "players" /\ sent[j].req = "info")
\* C01 (this protocol): once the server's script is exhausted the call returns
Termination == <>(result.state # "pending")

\* behaviour export: evaluated as an invariant so that every completed behaviour prints once per final state
Export == (result.state # "pending" /\ Emit) =>
            PrintT(<<"BEHAVIOUR", ToJson([proto |-> "valve", cfg |-> cfg, hist |-> hist, sent |-> sent,
                                          got |-> got, result |-> result])>>)
=============================================================================
