---------------------------- MODULE Trace_Settings ----------------------------
(***************************************************************************)
(* Trace validation of recorded constructions and uses of timeout settings  *)
(* against Settings.tla (C18).  The harness logs, for every configuration   *)
(* it builds through a public path,                                         *)
(*  {"ev":"Build","cfg":{path, read, write, connect, retries}}               *)
(*  {"ev":"Verdict","accepted":b}      what the real constructor / parser / *)
(*                                     deserialiser did                     *)
(*  {"ev":"Used","entry":e,"server":s,"returned":b}  a query with the       *)
(*        accepted settings came back (a response or an error value);       *)
(*        returned = FALSE: it panicked or never returned                   *)
(* A Verdict is a step only if it is the specification's (rejected exactly  *)
(* when a duration is zero); a Used event is a step only for an accepted    *)
(* configuration and only if the call returned.                             *)
(***************************************************************************)
EXTENDS Settings, IOUtils, TLCExt

Rec == ndJsonDeserialize(IOEnv.TRACE)
NoEntries == <<>>
VARIABLES l
tvars == <<vars, l>>
Ev(e) == l <= Len(Rec) /\ Rec[l].ev = e

TraceInit == /\ l = 1 /\ verdict = "rejected" /\ used = 0
             /\ cfg = [path |-> "new", read |-> "zero", write |-> "none", connect |-> "none", retries |-> "0"]

TBuild == /\ Ev("Build")
          /\ cfg' = Rec[l].cfg /\ verdict' = "unbuilt" /\ used' = 0 /\ l' = l + 1

TVerdict == /\ Ev("Verdict") /\ Construct
            /\ (verdict' = "accepted") = Rec[l].accepted
            /\ l' = l + 1

\* (the harness uses an accepted configuration as often as it likes: `used` counts, the bound of the exhaustive model is dropped)
TUsed == /\ Ev("Used") /\ verdict = "accepted" /\ Rec[l].returned
         /\ used' = used + 1 /\ UNCHANGED <<cfg, verdict>> /\ l' = l + 1

TraceNext == TBuild \/ TVerdict \/ TUsed
TraceSpec == TraceInit /\ [][TraceNext]_tvars

TZeroRejected == ZeroRejected
TNonZeroAccepted == NonZeroAccepted
TUseOnlyAccepted == UseOnlyAccepted

TraceAccepted ==
  LET d == TLCGet("stats").diameter
  IN  IF d - 1 = Len(Rec) THEN PrintT(<<"TRACE_ACCEPTED", Len(Rec)>>)
      ELSE PrintT(<<"TRACE_REJECTED at", d, Rec[d]>>)
=============================================================================
