SPECIFICATION TraceSpec
CONSTANTS
  Protos = {}
  Retries = {}
  Outcomes = {"good", "silent", "bad", "chal"}
  MaxRounds = 100
  Emit = FALSE
INVARIANTS TAttemptsBounded TSendsBounded TChallengeFresh TOpensBounded
POSTCONDITION TraceAccepted
CHECK_DEADLOCK FALSE
