----------------------------- MODULE Minecraft -----------------------------
(***************************************************************************)
(* C03 (second half): the auto-detecting Minecraft query tries Java, then  *)
(* Bedrock, then legacy 1.6, 1.4 and beta 1.8, returns the first variant   *)
(* the server answers, labels the response with that variant, and fails    *)
(* only if none answers.  The legacy auto-detect does the same over its    *)
(* three variants; a specific query tries exactly its variant.             *)
(* The server speaks a subset of the variants (32 subsets); on a variant   *)
(* it does not speak it refuses the connection, stays silent or answers    *)
(* garbage.                                                                *)
(***************************************************************************)
EXTENDS Naturals, Sequences, FiniteSets, TLC, Json

CONSTANTS Emit

Order == <<"java", "bedrock", "legacy16", "legacy14", "legacyb18">>
Variants == {Order[i] : i \in 1 .. Len(Order)}
Transport(v) == IF v = "bedrock" THEN "udp" ELSE "tcp"
\* default port of a variant when the caller gives none (game-level entry points)
DefaultPort(v) == IF v = "bedrock" THEN 19132 ELSE 25565
Entries == {"auto", "legacyauto", "java", "bedrock", "legacy16", "legacy14", "legacyb18"}
Plan(e) == CASE e = "auto" -> Order
             [] e = "legacyauto" -> <<"legacy16", "legacy14", "legacyb18">>
             [] OTHER -> <<e>>
Label(v) == CASE v = "java" -> "Java" [] v = "bedrock" -> "Bedrock" [] v = "legacy16" -> "V1_6" [] v = "legacy14" -> "V1_4" [] v = "legacyb18" -> "VB1_8"
Refusals == {"refuse", "silent", "garbage"}

VARIABLES speaks, entry, how, tried, result
vars == <<speaks, entry, how, tried, result>>

Init == /\ speaks \in SUBSET Variants /\ entry \in Entries
        \* what the server does on a variant it does not speak (udp cannot refuse: it stays silent)
        /\ how \in {h \in [Variants -> Refusals] : \A v \in Variants : (Transport(v) = "udp" => h[v] = "silent")}
        /\ tried = <<>> /\ result = "pending"
HowOk == TRUE

Try == /\ result = "pending" /\ HowOk /\ Len(tried) < Len(Plan(entry))
       /\ LET v == Plan(entry)[Len(tried) + 1]
          IN  /\ tried' = Append(tried, v)
              /\ result' = IF v \in speaks THEN v ELSE result
       /\ UNCHANGED <<speaks, entry, how>>
GiveUp == /\ result = "pending" /\ HowOk /\ Len(tried) = Len(Plan(entry))
          /\ result' = "none" /\ UNCHANGED <<speaks, entry, how, tried>>
Next == Try \/ GiveUp
Spec == Init /\ [][Next]_vars /\ WF_vars(Next)

\* connections are opened in the fixed order, nothing is skipped, nothing is tried after an answer
OrderPrefix == \A i \in 1 .. Len(tried) : tried[i] = Plan(entry)[i]
FirstAnswering == (result \in Variants) =>
                    /\ result \in speaks /\ tried[Len(tried)] = result
                    /\ \A i \in 1 .. Len(tried) - 1 : tried[i] \notin speaks
FailsIffNone == (result = "none") <=> (result # "pending" /\ \A i \in 1 .. Len(Plan(entry)) : Plan(entry)[i] \notin speaks)
Terminates == <>(result # "pending")

Export == (result # "pending" /\ Emit /\ HowOk) =>
            PrintT(<<"BEHAVIOUR", ToJson([speaks |-> speaks, entry |-> entry, how |-> how, tried |-> tried, result |-> result,
                                          label |-> IF result \in Variants THEN Label(result) ELSE "none",
                                          transports |-> [i \in 1 .. Len(tried) |-> Transport(tried[i])],
                                          ports |-> [i \in 1 .. Len(tried) |-> DefaultPort(tried[i])]])>>)
=============================================================================
