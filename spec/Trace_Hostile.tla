--------------------------- MODULE Trace_Hostile ---------------------------
(***************************************************************************)
(* Trace validation for C01 / C13: every recorded execution of a public    *)
(* query entry point against arbitrary replies must be a behaviour of this *)
(* machine: Call, then socket operations within the request bound, then    *)
(* exactly one Return carrying allocation figures within the allowance.    *)
(* `Panic` and `Hang` events are matched by no action.                     *)
(* Events: {"ev":"Call","fam":f,"r":n} {"ev":"Open"} {"ev":"Send"}         *)
(*         {"ev":"Recv","out":"data"|"timeout"}                            *)
(*         {"ev":"Return","ok":b,"peak":bytes,"max":bytes}                 *)
(***************************************************************************)
EXTENDS Hostile, IOUtils, TLCExt

Rec == ndJsonDeserialize(IOEnv.TRACE)

VARIABLES l, st, fam, r, sends, rcvd, opens
tvars == <<l, st, fam, r, sends, rcvd, opens, desc, done>>

TraceInit == desc = [op |-> "none"] /\ done = TRUE /\ l = 1 /\ st = "idle" /\ fam = "valve" /\ r = 0 /\ sends = 0 /\ rcvd = 0 /\ opens = 0

Ev(e) == l <= Len(Rec) /\ Rec[l].ev = e /\ l' = l + 1

TCall == /\ Ev("Call") /\ st = "idle" /\ Rec[l].fam \in Families
         /\ st' = "running" /\ fam' = Rec[l].fam /\ r' = Rec[l].r /\ sends' = 0 /\ rcvd' = 0 /\ opens' = 0
TOpen == /\ Ev("Open") /\ st = "running"
         \* a socket per request at most (Mindustry reopens per attempt, the Minecraft auto-detect per variant)
         /\ opens + 1 <= SendBound(fam, r, 0)
         /\ opens' = opens + 1 /\ UNCHANGED <<st, fam, r, sends, rcvd>>
TSend == /\ Ev("Send") /\ st = "running"
         /\ sends + 1 <= SendBound(fam, r, rcvd)              \* C13: requests bounded by retries and datagrams received
         /\ sends' = sends + 1 /\ UNCHANGED <<st, fam, r, rcvd, opens>>
TRecv == /\ Ev("Recv") /\ st = "running"
         /\ rcvd' = IF Rec[l].out = "data" THEN rcvd + 1 ELSE rcvd
         /\ UNCHANGED <<st, fam, r, sends, opens>>
TReturn == /\ Ev("Return") /\ st = "running"
           /\ Rec[l].max <= MaxSingleAlloc /\ Rec[l].peak <= MaxLiveAlloc    \* C13: memory allowance
           /\ st' = "idle" /\ UNCHANGED <<fam, r, sends, rcvd, opens>>

TraceNext == (TCall \/ TOpen \/ TSend \/ TRecv \/ TReturn) /\ UNCHANGED <<desc, done>>
TraceSpec == TraceInit /\ [][TraceNext]_tvars

TraceAccepted ==
  LET d == TLCGet("stats").diameter
  IN  IF d - 1 = Len(Rec) THEN PrintT(<<"TRACE_ACCEPTED", Len(Rec)>>)
      ELSE PrintT(<<"TRACE_REJECTED at", d, Rec[d]>>)
=============================================================================
