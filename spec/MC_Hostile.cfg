SPECIFICATION Spec
CONSTANTS
  Emit = TRUE
INVARIANTS TableSane
CHECK_DEADLOCK FALSE
