---------------------------- MODULE Trace_Buffer ----------------------------
(***************************************************************************)
(* Trace validation for Buffer.tla: every recorded operation of the real   *)
(* reader must be a step the reference model allows.  Events (ndjson):     *)
(*   {"ev":"New","d":[bytes],"ord":"LE"|"BE"}      a fresh reader          *)
(*   {"ev":"Op","o":{op..},"ok":b,"cur":n,"val":[..]}                      *)
(*   {"ev":"Panic",...}                             matched by no action   *)
(***************************************************************************)
EXTENDS Buffer, IOUtils, TLCExt

Rec == ndJsonDeserialize(IOEnv.TRACE)

VARIABLE l
tvars == <<data, cursor, order, l>>

TraceInit == /\ l = 1 /\ data = <<>> /\ cursor = 0 /\ order = "LE"

TNew == /\ l <= Len(Rec) /\ Rec[l].ev = "New"
        /\ data' = Rec[l].d /\ order' = Rec[l].ord /\ cursor' = 0
        /\ l' = l + 1

TOp == /\ l <= Len(Rec) /\ Rec[l].ev = "Op"
       /\ LET e == Rec[l]
          IN  IF InDomain(data, cursor, e.o)
              THEN \E r \in Results(data, cursor, order, e.o) :
                     /\ r.ok = e.ok
                     /\ r.ok => (r.cur = e.cur /\ r.val = e.val)
                     \* a failed fixed-width read or move must leave the position unchanged; a failed
                     \* string read must at least stay inside the packet
                     /\ ~r.ok => IF e.o.op \in {"u8", "u16", "u32", "u64", "move", "chunk"}
                                 THEN e.cur = cursor
                                 ELSE e.cur >= 0 /\ e.cur <= Len(data)
              ELSE e.cur >= 0 /\ e.cur <= Len(data)      \* outside the format's domain: only safety
       /\ cursor' = Rec[l].cur
       /\ UNCHANGED <<data, order>>
       /\ l' = l + 1

TraceNext == TNew \/ TOp
TraceSpec == TraceInit /\ [][TraceNext]_tvars

TraceCursorInBounds == 0 <= cursor /\ cursor <= Len(data)

TraceAccepted ==
  LET d == TLCGet("stats").diameter
  IN  IF d - 1 = Len(Rec) THEN PrintT(<<"TRACE_ACCEPTED", Len(Rec)>>)
      ELSE PrintT(<<"TRACE_REJECTED at", d, Rec[d]>>)
=============================================================================
