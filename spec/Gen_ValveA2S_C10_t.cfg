SPECIFICATION Spec
CONSTANTS
  Retries <- R0123
  Toggles <- TryEnforce
  Expects <- NoneExpect
  Srvs <- MainSrv
  Checks = {FALSE}
  Reactions <- C10Reactions
  MaxRounds = 1
  MaxFaultyUnits = 1
  Emit = TRUE
INVARIANTS Export
CHECK_DEADLOCK FALSE
