-------------------------- MODULE MC_ProtoLayout --------------------------
EXTENDS ProtoLayout
MCCounts == {0, 1, 3, 11, 64}
MCCountsT == {0, 1, 2, 5, 16, 64}
MCStrLens == {0, 1, 2, 3, 25, 26, 27, 30, 63, 64, 126}
MCStrLensT == 0 .. 126
MCTeams == {0, 2}
MCTeamsT == {0, 2, 8}
MCParts == 1 .. 3
MCPartsT == {1, 2, 3, 5, 7}
=============================================================================
