SPECIFICATION Spec
CONSTANTS
  Retries <- R012
  Emit = TRUE
INVARIANTS BPositive
CHECK_DEADLOCK FALSE
