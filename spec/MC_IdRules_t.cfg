SPECIFICATION Spec
CONSTANTS
  MaxTokens = 5
  Emit = TRUE
INVARIANTS HasAlpha
CHECK_DEADLOCK FALSE
