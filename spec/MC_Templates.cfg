SPECIFICATION Spec
CONSTANTS
  Emit = TRUE
INVARIANTS StartsLiteral FamiliesClosed EveryTemplateUsed
CHECK_DEADLOCK FALSE
