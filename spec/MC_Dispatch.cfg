SPECIFICATION Spec
CONSTANTS
  Ports = {1, 7777}
  Behaviours = {"valid", "foreign", "partial", "silent", "malformed"}
INVARIANTS AllAgree RightPort
CHECK_DEADLOCK FALSE
