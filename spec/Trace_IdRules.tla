--------------------------- MODULE Trace_IdRules ---------------------------
(***************************************************************************)
(* Trace validation for C20.  Events:                                      *)
(*  {"ev":"Name","name":text}                       a fresh single-game checker *)
(*  {"ev":"Wrong","id":text,"reported":[ids]}       a wrong id was proposed: the expected ids the checker reports *)
(*  {"ev":"Propose","id":text,"accepted":bool}      a further proposal (fresh checker, same name)                  *)
(*  {"ev":"Table","fails":n}                        the shipped definitions table (must pass: fails = 0)           *)
(*  {"ev":"List","n":k,"ok":true}                   a list of k games was checked without panicking                *)
(* Property: accepted <=> id is one of the reported ids; a wrong id is never accepted and reports at least one id. *)
(***************************************************************************)
EXTENDS Naturals, Sequences, FiniteSets, TLC, Json, IOUtils, TLCExt

Rec == ndJsonDeserialize(IOEnv.TRACE)
VARIABLES l, reported, phase
tvars == <<l, reported, phase>>

TraceInit == l = 1 /\ reported = {} /\ phase = "idle"
Set(seq) == {seq[i] : i \in 1 .. Len(seq)}

TName == /\ l <= Len(Rec) /\ Rec[l].ev = "Name" /\ phase' = "named" /\ reported' = {} /\ l' = l + 1
TWrong == /\ l <= Len(Rec) /\ Rec[l].ev = "Wrong" /\ phase = "named"
          /\ Set(Rec[l].reported) # {}                   \* a wrong id is rejected, and the checker says what it expects
          /\ Rec[l].id \notin Set(Rec[l].reported)
          /\ reported' = Set(Rec[l].reported) /\ phase' = "probing" /\ l' = l + 1
TPropose == /\ l <= Len(Rec) /\ Rec[l].ev = "Propose" /\ phase = "probing"
            /\ Rec[l].accepted = (Rec[l].id \in reported)   \* accepted exactly when it is an expected id it reports
            /\ UNCHANGED <<reported, phase>> /\ l' = l + 1
TTable == /\ l <= Len(Rec) /\ Rec[l].ev = "Table" /\ Rec[l].fails = 0 /\ UNCHANGED <<reported, phase>> /\ l' = l + 1
TList == /\ l <= Len(Rec) /\ Rec[l].ev = "List" /\ Rec[l].ok /\ UNCHANGED <<reported, phase>> /\ l' = l + 1

TraceNext == TName \/ TWrong \/ TPropose \/ TTable \/ TList
TraceSpec == TraceInit /\ [][TraceNext]_tvars
TraceAccepted ==
  LET d == TLCGet("stats").diameter
  IN  IF d - 1 = Len(Rec) THEN PrintT(<<"TRACE_ACCEPTED", Len(Rec)>>)
      ELSE PrintT(<<"TRACE_REJECTED at", d, Rec[d]>>)
=============================================================================
