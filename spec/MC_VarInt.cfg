SPECIFICATION Spec
CONSTANTS
  ByteClasses <- MCByteClasses
  GroupClasses <- MCGroupClasses
  TopClasses <- MCTopClasses
  MaxInputLen = 5
  Emit = FALSE
INVARIANTS RoundTrip EncShape OverlongRejected AcceptedConsistent DecUsedInBounds StrInBounds
CHECK_DEADLOCK FALSE
