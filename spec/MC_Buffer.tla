----------------------------- MODULE MC_Buffer -----------------------------
EXTENDS Buffer
MCAlphabet == {0, 1, 65, 128, 195, 255}
MCMoveOffsets == {-2, -1, 0, 1, 2, 3}
MCChunkSizes == {0, 1, 2, 3}
MCDelims == {0, 10}
MCOrders == {"LE", "BE"}
\* the Unreal 2 string operation has its own small universe: length bytes 0..3 and 128..130, an escape, control codes
U2Alphabet == {0, 1, 2, 3, 27, 65, 129, 130}
U2Ops == {[op |-> "u2str"], [op |-> "u8"], [op |-> "remaining"]}
\* thorough: six-byte packets (an escape, its three components and a character after them fit), one byte order
U2AlphabetT == {0, 1, 5, 27, 65, 130}
LEOnly == {"LE"}
=============================================================================
