SPECIFICATION Spec
CONSTANTS
  KvAlphabet <- MCKv
  KvMax = 7
  PlAlphabet <- MCPl
  PlMax = 6
  RestAlphabet <- MCRest
  RestMax = 7
  Emit = TRUE
INVARIANTS TokensPartition DomainBalanced KvPairsCover
CHECK_DEADLOCK FALSE
