------------------------------ MODULE Dispatch ------------------------------
(***************************************************************************)
(* C14: the generic definition-driven entry point, the game's dedicated    *)
(* module and the protocol's own query function (called with the           *)
(* definition's parameters) are observationally the same.                  *)
(*                                                                         *)
(* A *case* fixes a definition row, whether the caller gives a port, and   *)
(* the server's behaviour.  Each path is then run against the same         *)
(* scripted server and yields an observation                               *)
(*    [port, reqs, res]   destination port, request bytes in order, result *)
(* (reqs and res are digests computed by the harness; res is the           *)
(* protocol-level response - for the module path after undoing the         *)
(* module's documented conversion, D7 - or the error kind).                *)
(* Property: all observations of a case are equal, and the port is the     *)
(* caller's, or the definition's default when none is given.               *)
(***************************************************************************)
EXTENDS Naturals, Sequences, FiniteSets, TLC, Json

Paths == {"generic", "module", "protocol"}

\* ---- the design: a case is explored path by path; the invariant is evaluated after every Run -------------
CONSTANTS Ports, Behaviours
VARIABLES given, behaviour, obs
vars == <<given, behaviour, obs>>

DefaultPort == 27015
\* what a conforming implementation of any path observes: a function of the case only
Observe(g, b) == [port |-> IF g = 0 THEN DefaultPort ELSE g, reqs |-> b, res |-> b]

Init == given \in Ports \cup {0} /\ behaviour \in Behaviours /\ obs = [p \in {} |-> 0]
Run(p) == /\ p \notin DOMAIN obs
          /\ obs' = [q \in DOMAIN obs \cup {p} |-> IF q = p THEN Observe(given, behaviour) ELSE obs[q]]
          /\ UNCHANGED <<given, behaviour>>
Next == \E p \in Paths : Run(p)
Spec == Init /\ [][Next]_vars

AllAgree == \A p, q \in DOMAIN obs : obs[p] = obs[q]
RightPort == \A p \in DOMAIN obs : obs[p].port = (IF given = 0 THEN DefaultPort ELSE given)
=============================================================================
