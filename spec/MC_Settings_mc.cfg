SPECIFICATION Spec
CONSTANTS
  Durations <- AllDur
  RetryClasses <- AllRetries
  Paths <- AllPaths
  Entries <- AllEntries
  Emit = FALSE
INVARIANTS ZeroRejected NonZeroAccepted UseOnlyAccepted
CHECK_DEADLOCK FALSE
