SPECIFICATION Spec
CONSTANTS
  PlayerCounts <- MCPlayerCountsT
  RuleCounts <- MCRuleCountsT
  Emit = TRUE
INVARIANTS ExpectGrounded FieldsUnique EdfConsistent
CHECK_DEADLOCK FALSE
