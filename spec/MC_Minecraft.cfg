SPECIFICATION Spec
CONSTANTS
  Emit = FALSE
INVARIANTS OrderPrefix FirstAnswering FailsIffNone
PROPERTIES Terminates
CHECK_DEADLOCK FALSE
