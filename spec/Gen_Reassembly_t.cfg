SPECIFICATION Spec
CONSTANTS
  Ks <- K2345
  Modes <- AllModes
  AllowDup = TRUE
  Emit = TRUE
INVARIANTS Export
CHECK_DEADLOCK FALSE
