SPECIFICATION Spec
CONSTANTS
  Counts <- MCCountsT
  StrLens <- MCStrLensT
  Emit = TRUE
INVARIANTS HasEntry
CHECK_DEADLOCK FALSE
