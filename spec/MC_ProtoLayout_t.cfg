SPECIFICATION Spec
CONSTANTS
  Counts <- MCCountsT
  StrLens <- MCStrLensT
  TeamCounts <- MCTeamsT
  PartCounts <- MCPartsT
  Emit = TRUE
INVARIANTS HasEntry
CHECK_DEADLOCK FALSE
