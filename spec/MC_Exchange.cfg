SPECIFICATION Spec
CONSTANTS
  Protos <- AllProtos
  Retries <- R0123
  Outcomes <- AllOutcomes
  Emit = FALSE
INVARIANTS AttemptsBounded SendsBounded ChallengeFresh OnlyProtocolRequests ErrorClassFaithful AllTimeoutsGiveTimeout OpensBounded 
PROPERTIES RetryOnlyAfterTimeout Termination
CHECK_DEADLOCK FALSE
