SPECIFICATION Spec
CONSTANTS
  Protos <- AllProtos
  Retries <- R0123
  Outcomes <- AllOutcomes
  MaxRounds = 2
  Emit = FALSE
INVARIANTS AttemptsBounded SendsBounded ChallengeFresh RoundEchoed OnlyProtocolRequests ErrorClassFaithful AllTimeoutsGiveTimeout OpensBounded 
PROPERTIES RetryOnlyAfterTimeout Termination
CHECK_DEADLOCK FALSE
