---------------------------- MODULE MC_ValveA2S ----------------------------
EXTENDS ValveA2S
AllToggles == {"Skip", "Try", "Enforce"}
AllExpects == {"none", "main", "main+ded"}
AllSrvs == {"main", "ded", "other"}
AllReactions == ReactionKinds
C11Reactions == {"good", "silent", "bad", "chal"}
C10Reactions == {"good", "silent", "bad", "fragsshort", "frags"}
C09Reactions == {"good", "chal", "silent"}
EnforceOnly == {"Enforce"}
TryEnforce == {"Try", "Enforce"}
NoneExpect == {"none"}
MainSrv == {"main"}
R01 == {0, 1}
R012 == {0, 1, 2}
R0123 == {0, 1, 2, 3}
R0 == {0}
\* observation / history variables are not part of the control state
View == <<cfg, pc, st, net, rcvd, got, result, faulty, Len(sent)>>
=============================================================================
