SPECIFICATION Spec
CONSTANTS
  Alphabet <- U2Alphabet
  Ops <- U2Ops
  MaxLen = 4
  Orders <- MCOrders
  MoveOffsets <- MCMoveOffsets
  ChunkSizes <- MCChunkSizes
  Delims <- MCDelims
  Emit = TRUE
INVARIANTS CursorInBounds
CHECK_DEADLOCK FALSE
