SPECIFICATION Spec
CONSTANTS
  Retries <- R012
  Toggles <- TryEnforce
  Expects <- NoneExpect
  Srvs <- MainSrv
  Checks = {FALSE}
  Reactions <- C10Reactions
  MaxRounds = 1
  MaxFaultyUnits = 1
  Emit = TRUE
INVARIANTS Export
CHECK_DEADLOCK FALSE
