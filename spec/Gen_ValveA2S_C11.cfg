SPECIFICATION Spec
CONSTANTS
  Retries <- R0
  Toggles <- AllToggles
  Expects <- AllExpects
  Srvs <- AllSrvs
  Checks = {TRUE, FALSE}
  Reactions <- C11Reactions
  MaxRounds = 1
  MaxFaultyUnits = 2
  Emit = TRUE
INVARIANTS Export
CHECK_DEADLOCK FALSE
