------------------------------ MODULE Trace_Cli ------------------------------
(***************************************************************************)
(* Trace validation of recorded runs of the real command-line tool against *)
(* Cli.tla (C19).  For every case the harness logs                          *)
(*  {"ev":"Invoke","kind":"good"|"bad","err":e}   what was asked            *)
(*  {"ev":"Exit","code0":b,"printed":b,"stderr":b,"panic":b,"wellformed":b, *)
(*   "faithful":b}      what the process did: exit status 0?, a document on *)
(*                      stdout?, a message on stderr?, a panic message?,    *)
(*                      and - decided by the harness's independent readers  *)
(*                      - is the document well-formed / does it carry the   *)
(*                      library's values?                                   *)
(* The pipeline stages between the two events (find, resolve, query, print) *)
(* are silent steps of Cli.tla's Advance.  An Exit is a step only if it is  *)
(* the outcome the specification gives the invocation: status 0 with one    *)
(* well-formed faithful document exactly when the pipeline reaches `done`,  *)
(* a non-zero status with a message and nothing printed when it fails.      *)
(***************************************************************************)
EXTENDS Cli, IOUtils, TLCExt

Rec == ndJsonDeserialize(IOEnv.TRACE)
VARIABLES l, idle
tvars == <<vars, l, idle>>
Ev(e) == l <= Len(Rec) /\ Rec[l].ev = e

TraceInit == /\ l = 1 /\ idle = TRUE /\ TLCSet(1, 1)
             /\ c = [kind |-> "good", err |-> "none"] /\ stage = "done" /\ exit = 0

TInvoke == /\ Ev("Invoke") /\ idle
           /\ c' = [kind |-> Rec[l].kind, err |-> Rec[l].err] /\ stage' = "args" /\ exit' = 0
           /\ idle' = FALSE /\ l' = l + 1

\* the stages of the pipeline are not observable from outside the process
TStage == /\ ~idle /\ stage \notin {"done", "failed"} /\ Advance /\ UNCHANGED <<l, idle>>

TExit == /\ Ev("Exit") /\ ~idle /\ stage \in {"done", "failed"}
         /\ ~Rec[l].panic
         /\ IF stage = "done"
            THEN Rec[l].code0 /\ Rec[l].printed /\ Rec[l].wellformed /\ Rec[l].faithful
            ELSE ~Rec[l].code0 /\ Rec[l].stderr /\ ~Rec[l].printed
         /\ idle' = TRUE /\ l' = l + 1 /\ UNCHANGED vars

TraceNext == TInvoke \/ TStage \/ TExit
TraceSpec == TraceInit /\ [][TraceNext]_tvars

TExitRule == ExitRule
TNeverPrintsOnError == NeverPrintsOnError

Progress == TLCSet(1, IF TLCGet(1) < l THEN l ELSE TLCGet(1))
TraceAccepted ==
  LET d == TLCGet(1)
  IN  IF d - 1 = Len(Rec) THEN PrintT(<<"TRACE_ACCEPTED", Len(Rec)>>)
      ELSE PrintT(<<"TRACE_REJECTED at", d, Rec[d]>>)
=============================================================================
