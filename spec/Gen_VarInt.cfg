SPECIFICATION Spec
CONSTANTS
  ByteClasses <- MCByteClasses
  GroupClasses <- MCGroupClasses
  TopClasses <- MCTopClasses
  MaxInputLen = 5
  Emit = TRUE
INVARIANTS RoundTrip
CHECK_DEADLOCK FALSE
