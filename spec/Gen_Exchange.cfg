SPECIFICATION Spec
CONSTANTS
  Protos <- AllProtos
  Retries <- R012
  Outcomes <- AllOutcomes
  MaxRounds = 2
  Emit = TRUE
INVARIANTS AttemptsBounded SendsBounded ChallengeFresh RoundEchoed OnlyProtocolRequests ErrorClassFaithful AllTimeoutsGiveTimeout OpensBounded Export

CHECK_DEADLOCK FALSE
