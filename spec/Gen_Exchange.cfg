SPECIFICATION Spec
CONSTANTS
  Protos <- AllProtos
  Retries <- R012
  Outcomes <- AllOutcomes
  Emit = TRUE
INVARIANTS AttemptsBounded SendsBounded ChallengeFresh OnlyProtocolRequests ErrorClassFaithful AllTimeoutsGiveTimeout OpensBounded Export

CHECK_DEADLOCK FALSE
