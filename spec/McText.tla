------------------------------- MODULE McText -------------------------------
(***************************************************************************)
(* C03 at the level of characters: the delimiter-separated status strings  *)
(* of the Bedrock pong and of the legacy (1.4, beta 1.8) kick packet as    *)
(* pure functions, enumerated exhaustively for short strings over a        *)
(* boundary alphabet and replayed through the real queries.                *)
(*                                                                         *)
(*  Bedrock: MCPE;motd;protocol;version;online;max[;id[;map[;mode[;...]]]] *)
(*     fields separated by ';'; the first six are mandatory; a field that  *)
(*     is present but empty is present (id = "", not absent); a trailing   *)
(*     ';' therefore adds an empty field; fields after the ninth are       *)
(*     ignored.                                                            *)
(*  legacy 1.4 / beta 1.8: motd§online§max - exactly three fields.         *)
(* Symbols are strings (a symbol may be a whole word, e.g. a game mode).   *)
(***************************************************************************)
EXTENDS Naturals, Sequences, FiniteSets, TLC, Json

CONSTANTS BedrockAlphabet, BedrockMax, LegacyAlphabet, LegacyMax, Emit

SEMI == ";"
SECT == "$"      \* stands for the section sign U+00A7 (TLC mangles non-ASCII string literals); the harness substitutes it
Modes == {"Survival", "Creative", "Adventure", "Spectator"}

VARIABLES kind, tail, done
vars == <<kind, tail, done>>

Min(S) == CHOOSE x \in S : \A y \in S : x <= y
RECURSIVE Split(_, _)
Split(s, sep) ==
  LET I == {i \in 1 .. Len(s) : s[i] = sep}
  IN  IF I = {} THEN <<s>>
      ELSE <<SubSeq(s, 1, Min(I) - 1)>> \o Split(SubSeq(s, Min(I) + 1, Len(s)), sep)

Digit(c) == c \in {"0", "1", "2", "3", "4", "5", "6", "7", "8", "9"}
DigitVal(c) == CASE c = "0" -> 0 [] c = "1" -> 1 [] c = "2" -> 2 [] c = "3" -> 3 [] c = "4" -> 4 [] c = "5" -> 5
                 [] c = "6" -> 6 [] c = "7" -> 7 [] c = "8" -> 8 [] c = "9" -> 9
IsNat(t) == t # <<>> /\ \A i \in 1 .. Len(t) : Digit(t[i])
RECURSIVE NatVal(_)
NatVal(t) == IF t = <<>> THEN 0 ELSE NatVal(SubSeq(t, 1, Len(t) - 1)) * 10 + DigitVal(t[Len(t)])

-----------------------------------------------------------------------------
(* Bedrock: the enumerated tail follows the six mandatory fields "MCPE;m;1;v;3;20" *)
BedrockFields(t) == <<<<"MCPE">>, <<"m">>, <<"1">>, <<"v">>, <<"3">>, <<"20">>>> \o (IF t = <<>> THEN <<>> ELSE Tail(Split(t, SEMI)))
\* inside the format: the tail is empty or starts a new field; a game mode, if present, is one of the names
BedrockInDomain(t) ==
  /\ t = <<>> \/ t[1] = SEMI
  /\ Len(BedrockFields(t)) >= 9 => (Len(BedrockFields(t)[9]) = 1 /\ BedrockFields(t)[9][1] \in Modes)
BedrockExpected(t) ==
  LET f == BedrockFields(t) IN
  [hasid |-> Len(f) >= 7, id |-> IF Len(f) >= 7 THEN f[7] ELSE <<>>,
   hasmap |-> Len(f) >= 8, map |-> IF Len(f) >= 8 THEN f[8] ELSE <<>>,
   hasmode |-> Len(f) >= 9, mode |-> IF Len(f) >= 9 THEN f[9] ELSE <<>>]

(* legacy: the whole kick string is enumerated *)
LegacyInDomain(s) == LET f == Split(s, SECT) IN Len(f) = 3 /\ IsNat(f[2]) /\ IsNat(f[3])
LegacyExpected(s) == LET f == Split(s, SECT) IN [motd |-> f[1], online |-> NatVal(f[2]), max |-> NatVal(f[3])]

-----------------------------------------------------------------------------
Lines(A, n) == UNION {[1 .. k -> A] : k \in 0 .. n}
Init == /\ kind \in {"bedrock", "legacy"}
        /\ tail \in IF kind = "bedrock" THEN Lines(BedrockAlphabet, BedrockMax) ELSE Lines(LegacyAlphabet, LegacyMax)
        /\ done = FALSE
Step == /\ ~done /\ done' = TRUE /\ UNCHANGED <<kind, tail>>
        /\ Emit => PrintT(<<"CASE", ToJson(
              IF kind = "bedrock"
              THEN [kind |-> kind, text |-> tail, indomain |-> BedrockInDomain(tail),
                    expected |-> IF BedrockInDomain(tail) THEN <<BedrockExpected(tail)>> ELSE <<>>]
              ELSE [kind |-> kind, text |-> tail, indomain |-> LegacyInDomain(tail),
                    expected |-> IF LegacyInDomain(tail) THEN <<LegacyExpected(tail)>> ELSE <<>>])>>)
Spec == Init /\ [][Step]_vars

\* the oracle itself: n separators make n + 1 fields, present-but-empty fields are fields
FieldsCount == kind = "bedrock" /\ tail # <<>> /\ tail[1] = SEMI =>
                 Len(BedrockFields(tail)) = 6 + Cardinality({i \in 1 .. Len(tail) : tail[i] = SEMI})
LegacyThree == kind = "legacy" /\ LegacyInDomain(tail) => Cardinality({i \in 1 .. Len(tail) : tail[i] = SECT}) = 2
=============================================================================
