SPECIFICATION Spec
CONSTANTS
  MaxInserts = 2
  Vals <- V12
  MaxPages = 1
  PageLens <- PL
  Emit = FALSE
  Mode = "filters"
INVARIANTS LastWins SeedChains StopsAtTerminator AllAddresses 
CHECK_DEADLOCK FALSE
