--------------------------- MODULE Trace_Unreal2 ---------------------------
(***************************************************************************)
(* Trace validation of recorded Unreal 2 queries against Unreal2.tla       *)
(* (C10, C11).  The harness drives unreal2::query with random gather       *)
(* toggles, retry counts up to 5 and a random outcome per attempt and logs *)
(*  {"ev":"Call","cfg":{r,gp,gr}}                                          *)
(*  {"ev":"Attempt","sec":s,"o":"good"|"silent"|"bad"}   one per request   *)
(*  {"ev":"Return","state":..,"class":..,"rules":b,"players":b}            *)
(* Skipping a section and finishing are silent steps.                      *)
(***************************************************************************)
EXTENDS Unreal2, IOUtils, TLCExt

Rec == ndJsonDeserialize(IOEnv.TRACE)
VARIABLE l
tvars == <<vars, l>>
Ev(e) == l <= Len(Rec) /\ Rec[l].ev = e
Idle == [state |-> "idle", err |-> "", at |-> ""]

TraceInit == /\ l = 1 /\ TLCSet(1, 1)
             /\ cfg = [r |-> 0, gp |-> "Skip", gr |-> "Skip"]
             /\ pc = "done" /\ attempt = 1 /\ sent = <<>> /\ result = Idle /\ hist = <<>>
             /\ got = [info |-> "none", rules |-> "none", players |-> "none"]

TCall == /\ Ev("Call") /\ result.state # "pending"
         /\ cfg' = Rec[l].cfg
         /\ pc' = "info" /\ attempt' = 1 /\ sent' = <<>> /\ result' = Pending /\ hist' = <<>>
         /\ got' = [info |-> "none", rules |-> "none", players |-> "none"]
         /\ l' = l + 1

TAttempt == /\ Ev("Attempt")
            /\ Attempt
            /\ sent'[Len(sent')] = Rec[l].sec
            /\ hist'[Len(hist')].o = Rec[l].o
            /\ l' = l + 1

TSilent == /\ result.state = "pending" /\ (Skip \/ Finish) /\ UNCHANGED l

TReturn == /\ Ev("Return") /\ result.state \in {"ok", "err"}
           /\ Rec[l].state = result.state
           /\ (result.state = "err" => Rec[l].class = result.err)
           /\ (result.state = "ok" => (Rec[l].rules = (got.rules = "present") /\ Rec[l].players = (got.players = "present")))
           /\ result' = Idle
           /\ UNCHANGED <<cfg, pc, attempt, sent, got, hist>>
           /\ l' = l + 1

TraceNext == TCall \/ TAttempt \/ TSilent \/ TReturn
TraceSpec == TraceInit /\ [][TraceNext]_tvars

TAttemptsBounded == result.state = "pending" => attempt <= cfg.r + 1
TSkipNeverRequested == \A i \in 1 .. Len(sent) : Toggle(sent[i]) # "Skip"
TSectionOrder == SectionOrder

Progress == TLCSet(1, IF TLCGet(1) < l THEN l ELSE TLCGet(1))
TraceAccepted ==
  LET d == TLCGet(1)
  IN  IF d - 1 = Len(Rec) THEN PrintT(<<"TRACE_ACCEPTED", Len(Rec)>>)
      ELSE PrintT(<<"TRACE_REJECTED at", d, Rec[d]>>)
=============================================================================
