SPECIFICATION TraceSpec
CONSTANTS
  Retries = {}
  Toggles = {}
  Outcomes = {"good", "silent", "bad"}
  Emit = FALSE
INVARIANTS TAttemptsBounded TSkipNeverRequested TSectionOrder
CONSTRAINT Progress
POSTCONDITION TraceAccepted
CHECK_DEADLOCK FALSE
