--------------------------- MODULE Trace_Dispatch ---------------------------
(***************************************************************************)
(* Trace validation for C14.  Events:                                      *)
(*  {"ev":"Case","id":game,"given":port|0,"default":port,"paths":n}        *)
(*  {"ev":"Obs","path":p,"port":n,"reqs":digest,"res":digest}              *)
(* Every observation of a case must equal the first one and go to the      *)
(* right port (AllAgree, RightPort of Dispatch.tla).                       *)
(***************************************************************************)
EXTENDS Naturals, Sequences, FiniteSets, TLC, Json, IOUtils, TLCExt

Rec == ndJsonDeserialize(IOEnv.TRACE)
VARIABLES l, given, def, first, seen
tvars == <<l, given, def, first, seen>>

NoObs == [port |-> 0, reqs |-> "", res |-> ""]
TraceInit == l = 1 /\ given = 0 /\ def = 0 /\ first = NoObs /\ seen = {}

TCase == /\ l <= Len(Rec) /\ Rec[l].ev = "Case"
         /\ given' = Rec[l].given /\ def' = Rec[l].default /\ first' = NoObs /\ seen' = {} /\ l' = l + 1
TObs == /\ l <= Len(Rec) /\ Rec[l].ev = "Obs"
        /\ Rec[l].path \notin seen
        /\ LET o == [port |-> Rec[l].port, reqs |-> Rec[l].reqs, res |-> Rec[l].res]
           IN  /\ o.port = (IF given = 0 THEN def ELSE given)          \* RightPort
               /\ (seen # {} => o = first)                              \* AllAgree
               /\ first' = IF seen = {} THEN o ELSE first
        /\ seen' = seen \cup {Rec[l].path} /\ UNCHANGED <<given, def>> /\ l' = l + 1

TraceNext == TCase \/ TObs
TraceSpec == TraceInit /\ [][TraceNext]_tvars
TraceAccepted ==
  LET d == TLCGet("stats").diameter
  IN  IF d - 1 = Len(Rec) THEN PrintT(<<"TRACE_ACCEPTED", Len(Rec)>>)
      ELSE PrintT(<<"TRACE_REJECTED at", d, Rec[d]>>)
=============================================================================
