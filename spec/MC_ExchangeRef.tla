--------------------------- MODULE MC_ExchangeRef ---------------------------
(* Refinement: for the protocols whose unit is one request and one reply and which retry, Exchange implements RetryInd    *)
(* (whose safety properties Apalache proves for every retry count) under this mapping.  RetryInd's R is a constant, so   *)
(* the check is run once per retry count (RefR = 0 .. 3).                                                                 *)
EXTENDS Exchange
CONSTANT RefR
RefRetries == {RefR}
AllOutcomes == {"good", "silent", "bad"}
SingleStepProtos == {"quake1", "quake2", "quake3", "gs1", "gs2", "bedrock", "legacy16", "legacy14", "legacyb18", "mindustry"}
RI == INSTANCE RetryInd WITH
        R <- RefR,
        attempt <- attempt,
        firstSends <- Len(sent),
        timeouts <- (attempt - 1) + (IF result.state = "err" /\ result.err = "timeout" THEN 1 ELSE 0),
        state <- CASE result.state = "ok" -> "ok"
                   [] result.state = "err" /\ result.err = "malformed" -> "malformed"
                   [] result.state = "err" -> "timeout"
                   [] Steps(cfg.p)[step] = "send" -> "send"
                   [] OTHER -> "recv"
RefinesRetry == RI!Spec
RetrySafety == RI!Safety
=============================================================================
