SPECIFICATION Spec
CONSTANTS
  Emit = TRUE
INVARIANTS Injective
CHECK_DEADLOCK FALSE
