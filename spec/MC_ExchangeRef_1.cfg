SPECIFICATION Spec
CONSTANTS
  RefR = 1
  Protos <- SingleStepProtos
  Retries <- RefRetries
  Outcomes <- AllOutcomes
  MaxRounds = 2
  Emit = FALSE
INVARIANTS RetrySafety
PROPERTIES RefinesRetry
CHECK_DEADLOCK FALSE
