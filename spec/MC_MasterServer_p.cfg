SPECIFICATION Spec
CONSTANTS
  MaxInserts = 0
  Vals <- V1
  MaxPages = 4
  PageLens <- PL
  Emit = FALSE
  Mode = "paging"
INVARIANTS LastWins SeedChains StopsAtTerminator AllAddresses 
CHECK_DEADLOCK FALSE
