-------------------------------- MODULE Net --------------------------------
(***************************************************************************)
(* C12: timeouts bound every blocking step on real sockets.                *)
(*                                                                         *)
(* The environment is a real loopback server that follows a fault script:  *)
(* it answers the first `answered` requests of the exchange and then       *)
(*   "silent"  says nothing more,                                          *)
(*   "chalsilent" (Valve) answers every further request that carries no    *)
(*             valid challenge with a challenge and says nothing after the *)
(*             challenged request: it stops in the middle of a unit,       *)
(*   "refuse"  (TCP) is not listening at all,                              *)
(*   "stall"   (TCP) accepts the connection and never writes,              *)
(*   "close"   (TCP) accepts and closes at once,                           *)
(*   "partial" (TCP) accepts, writes the first half of a valid reply and   *)
(*             then stays silent with the connection open,                 *)
(*   "blackhole" (TCP) never completes the handshake (full accept queue).  *)
(* The client, configured with timeout T for connect, read and write and   *)
(* r retries, performs at most B blocking steps, each bounded by T:        *)
(*     elapsed <= B * T + slack,          B = (r + 1) * (units left)       *)
(* and fails with an error of the matching class (or, for Valve sections   *)
(* set to Try, succeeds without them).                                     *)
(* Byte fidelity: what the client hands to the transport reaches the peer  *)
(* unmodified at the caller's IPv4 / IPv6 address, and a received datagram *)
(* is delivered unmodified up to the requested size.                       *)
(***************************************************************************)
EXTENDS Naturals, Sequences, FiniteSets, TLC, Json

CONSTANTS Retries, Emit
VARIABLES c, done
vars == <<c, done>>

\* protocol -> transport, request units of the fault-free exchange (each unit blocks on one read at a time)
Protos ==
  [valve |-> [tr |-> "udp", units |-> 3], quake2 |-> [tr |-> "udp", units |-> 1], gs1 |-> [tr |-> "udp", units |-> 1],
   gs2 |-> [tr |-> "udp", units |-> 1], gs3 |-> [tr |-> "udp", units |-> 1], unreal2 |-> [tr |-> "udp", units |-> 3],
   bedrock |-> [tr |-> "udp", units |-> 1], mindustry |-> [tr |-> "udp", units |-> 1], savage2 |-> [tr |-> "udp", units |-> 1],
   java |-> [tr |-> "tcp", units |-> 1], legacy14 |-> [tr |-> "tcp", units |-> 1],
   \* Eco: one HTTP GET through the ureq agent (its own connect / read / write timeouts, set from the same settings)
   eco |-> [tr |-> "http", units |-> 1]]
Names == DOMAIN Protos

Modes(p) == IF p = "valve" THEN {"silent", "chalsilent"}
            ELSE IF Protos[p].tr = "udp" THEN {"silent"}
            ELSE IF Protos[p].tr = "tcp" THEN {"refuse", "stall", "close", "blackhole", "partial"}
            ELSE {"refuse", "stall", "close", "blackhole"}
\* which timeouts the caller configured: "r" = connect and read (write left unset), "rw" = connect, read and write.
\* (A read timeout left unset means "block": not a bounded case.)
\* "default" = the caller passes no settings at all: the documented defaults (4 s each) are the configured timeouts
TCs(p) == IF Protos[p].tr = "udp" THEN {"r"} ELSE {"r", "rw", "default"}
Cases == UNION {[p : {p}, ipv : {4, 6}, answered : 0 .. (Protos[p].units - 1), mode : Modes(p), r : Retries, tc : TCs(p)] : p \in Names}
\* the default timeouts make a case last seconds: they are exercised where they matter (one connect that never completes,
\* one read that never returns), on one address family, without retries
CaseOk(x) == /\ (x.mode \notin {"silent", "chalsilent"} => x.answered = 0)
             /\ (x.tc = "default" => (x.mode \in {"blackhole", "stall"} /\ x.ipv = 4 /\ x.r = 0 /\ x.p \in {"java", "eco"}))
             /\ (x.mode = "blackhole" => (x.ipv = 4 /\ x.r = 0 /\ x.p \in {"java", "eco"}))
\* the timeout that bounds one blocking step of the case, in milliseconds (T = the harness's explicit setting)
StepMs(x, T) == IF x.tc = "default" THEN 4000 ELSE T

\* blocking steps the client may perform after the server stopped answering (savage2 does not retry; gs3 blocks in the
\* handshake and in the data phase but a silent server stops it in the first)
Units(x) == Protos[x.p].units - x.answered
\* unreal2's list sections also end with one read that times out by design, even when answered
Extra(x) == IF x.p = "unreal2" THEN 2 ELSE 0
B(x) == (IF x.p = "savage2" THEN 1 ELSE x.r + 1) * Units(x) + Extra(x) + (IF Protos[x.p].tr \in {"tcp", "http"} THEN 1 ELSE 0)
\* requests the server may see (UDP): the answered units, then at most r + 1 attempts of every unit the client still tries (only
\* the first one when nothing was answered: the query fails there); an attempt that is answered with a challenge sends twice
\* (the request, the challenged request) - the attempts are not multiplied by one another
Tried(x) == IF x.answered = 0 THEN 1 ELSE Units(x)
MaxReqs(x) == IF Protos[x.p].tr # "udp" THEN 0
              ELSE x.answered + (IF x.p = "savage2" THEN 1 ELSE x.r + 1) * Tried(x) * (IF x.mode = "chalsilent" THEN 2 ELSE 1)
\* expected outcome class
Class(x) ==
  CASE Protos[x.p].tr = "http" /\ x.mode \in {"refuse", "close"} -> "anyerror"   \* the HTTP client reports every transport failure as a send failure
    [] x.mode = "refuse" -> "connect"
    [] x.mode = "blackhole" /\ Protos[x.p].tr = "http" -> "anyerror"
    [] x.mode = "blackhole" -> "connect"
    [] x.mode = "close" -> "anyerror"             \* the stream ended or was reset: an error of either class, promptly
    [] x.p \in {"valve", "unreal2"} /\ x.answered >= 1 -> "ok-or-timeout"    \* sections set to Try are left out
    [] OTHER -> "timeout"

Init == c \in {x \in Cases : CaseOk(x)} /\ done = FALSE
Step == /\ ~done /\ done' = TRUE /\ UNCHANGED c
        /\ Emit => PrintT(<<"CASE", ToJson([c |-> c, tr |-> Protos[c.p].tr, b |-> B(c), class |-> Class(c), stepms |-> StepMs(c, 200), maxreqs |-> MaxReqs(c)])>>)
Spec == Init /\ [][Step]_vars

BPositive == B(c) >= 1
=============================================================================
