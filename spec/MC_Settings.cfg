SPECIFICATION Spec
CONSTANTS
  Durations <- AllDur
  RetryClasses <- AllRetries
  Paths <- AllPaths
  Entries <- AllEntries
  Emit = TRUE
INVARIANTS ZeroRejected NonZeroAccepted UseOnlyAccepted
CHECK_DEADLOCK FALSE
