------------------------------ MODULE RetryInd ------------------------------
(***************************************************************************)
(* The retry contract of one request unit (C10), for EVERY retry count:    *)
(* the attempt loop of Exchange.tla / ValveA2S.tla reduced to integers.    *)
(* TLC checks the exchange specifications for r <= 3; this module is small *)
(* enough for Apalache to discharge an inductive invariant with the retry  *)
(* count R left as an arbitrary natural number:                            *)
(*   Init => IndInv                 (length 0)                             *)
(*   IndInv /\ Next => IndInv'      (length 1 from IndInit)                *)
(*   IndInv => Safety               (length 0 from IndInit)                *)
(* MC_Exchange.tla checks with TLC that Exchange (single-step protocols)   *)
(* implements this module under a refinement mapping, which is what ties   *)
(* the unbounded result to the specification that is bound to the code.    *)
(***************************************************************************)
EXTENDS Integers

CONSTANT
  \* @type: Int;
  R

VARIABLES
  \* @type: Int;
  attempt,
  \* @type: Int;
  firstSends,
  \* @type: Int;
  timeouts,
  \* @type: Str;
  state

vars == <<attempt, firstSends, timeouts, state>>

ConstInit == R \in Nat

Init == attempt = 1 /\ firstSends = 0 /\ timeouts = 0 /\ state = "send"

\* the first request of an attempt goes out
Send == /\ state = "send" /\ state' = "recv" /\ firstSends' = firstSends + 1
        /\ UNCHANGED <<attempt, timeouts>>
\* a valid reply: the unit is done
RecvGood == /\ state = "recv" /\ state' = "ok"
            /\ UNCHANGED <<attempt, firstSends, timeouts>>
\* a malformed reply: the unit fails at once, no further attempt
RecvBad == /\ state = "recv" /\ state' = "malformed"
           /\ UNCHANGED <<attempt, firstSends, timeouts>>
\* nothing arrived (or the request could not be sent): next attempt, or give up after R + 1
RecvTimeout == /\ state = "recv" /\ timeouts' = timeouts + 1
               /\ IF attempt <= R
                  THEN attempt' = attempt + 1 /\ state' = "send"
                  ELSE attempt' = attempt /\ state' = "timeout"
               /\ UNCHANGED firstSends
Done == state \in {"ok", "malformed", "timeout"} /\ UNCHANGED vars

Next == Send \/ RecvGood \/ RecvBad \/ RecvTimeout \/ Done
Spec == Init /\ [][Next]_vars

-----------------------------------------------------------------------------
TypeOK == /\ attempt \in Int /\ firstSends \in Int /\ timeouts \in Int
          /\ state \in {"send", "recv", "ok", "malformed", "timeout"}

IndInv == /\ TypeOK
          /\ R >= 0
          /\ attempt >= 1 /\ attempt <= R + 1
          /\ (state = "send" => firstSends = attempt - 1)
          /\ (state # "send" => firstSends = attempt)
          /\ (state = "timeout" => (timeouts = attempt /\ attempt = R + 1))
          /\ (state # "timeout" => timeouts = attempt - 1)

\* an arbitrary state satisfying the invariant (Apalache: --init=IndInit)
IndInit == /\ attempt \in Int /\ firstSends \in Int /\ timeouts \in Int
           /\ state \in {"send", "recv", "ok", "malformed", "timeout"}
           /\ IndInv

\* what C10 states, for every R
AttemptsBounded == attempt <= R + 1
SendsBounded == firstSends <= R + 1
NewAttemptOnlyAfterTimeout == timeouts >= attempt - 1
GivesUpOnlyAfterAllAttempts == (state = "timeout") => (timeouts = R + 1 /\ firstSends = R + 1)
NeverRetriedAfterMalformed == (state = "malformed") => firstSends = timeouts + 1
Safety == /\ AttemptsBounded /\ SendsBounded /\ NewAttemptOnlyAfterTimeout
          /\ GivesUpOnlyAfterAllAttempts /\ NeverRetriedAfterMalformed
=============================================================================
