SPECIFICATION Spec
CONSTANTS
  Ks <- K2345
  Modes <- AllModes
  AllowDup = TRUE
  Emit = FALSE
INVARIANTS OrderIndependent ErrorOnlyOnDup NeverEarly HeaderFromFragmentZero
PROPERTIES Terminates
CHECK_DEADLOCK FALSE
