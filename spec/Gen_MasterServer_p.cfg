SPECIFICATION Spec
CONSTANTS
  MaxInserts = 0
  Vals <- V1
  MaxPages = 4
  PageLens <- PL
  Emit = TRUE
  Mode = "paging"
INVARIANTS LastWins SeedChains StopsAtTerminator AllAddresses Export
CHECK_DEADLOCK FALSE
