---------------------------- MODULE MC_Settings ----------------------------
EXTENDS Settings
AllDur == {"none", "zero", "ns1", "ms1", "max"}
AllRetries == {"0", "1", "2", "maxminus1", "max"}
AllPaths == {"new", "default", "clap", "serde"}
AllEntries == <<"valve", "quake2", "gs1", "gs2", "gs3", "unreal2", "java", "bedrock", "legacy14", "mindustry", "savage2", "ffow", "jc2m",
               \* the auto-detecting Minecraft queries: several variants tried one after the other with the same settings
               "mcauto", "mclegacyauto">>
=============================================================================
