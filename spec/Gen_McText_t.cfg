SPECIFICATION Spec
CONSTANTS
  BedrockAlphabet <- MCBedrock
  BedrockMax = 9
  LegacyAlphabet <- MCLegacy
  LegacyMax = 8
  Emit = TRUE
INVARIANTS FieldsCount LegacyThree
CHECK_DEADLOCK FALSE
