SPECIFICATION Spec
CONSTANTS
  Retries <- R01
  Toggles <- AllToggles
  Outcomes <- AllOutcomes
  Emit = TRUE
INVARIANTS Export
CHECK_DEADLOCK FALSE
