----------------------------- MODULE Reassembly -----------------------------
(***************************************************************************)
(* C08: a response that spans several datagrams does not depend on the     *)
(* order in which they arrive.                                             *)
(*                                                                         *)
(* Environment: the K fragments of one response are delivered in any       *)
(* order (Deliver picks any undelivered fragment) and at most one of them  *)
(* is delivered twice (Duplicate, at any point after its first delivery).  *)
(* Client (reference): fragments carry their index, so they are placed by  *)
(* index; the response is complete when every index 0..K-1 is present.     *)
(* How the client learns K differs per protocol:                           *)
(*   "all"   every fragment announces the total (Valve split packets)      *)
(*   "last"  only the last fragment says it is the last one (GameSpy 1     *)
(*           `final`, GameSpy 3 bit 7 of the packet id)                    *)
(*   "none"  no indices and no total (Unreal 2): the client collects until *)
(*           the server falls silent; no order can or need be restored     *)
(*           (the lists have no protocol-defined order, D1).               *)
(* A Valve Source reply may be bzip2-compressed (comp): the decompressed    *)
(* size and the CRC32 travel in the fragment NUMBERED 0 only, wherever it  *)
(* arrives; the client takes them from that fragment (hdr), never from the *)
(* datagram that happened to arrive first.                                 *)
(* A duplicate is either ignored or makes the query fail; it never changes *)
(* a successful result.                                                    *)
(***************************************************************************)
EXTENDS Naturals, Sequences, FiniteSets, TLC, Json

CONSTANTS Ks,        \* fragment counts explored
          Modes,     \* subset of {"all", "last", "none"}
          AllowDup,
          Emit

VARIABLES k, mode, comp, hdr, delivered, dupUsed, have, knownTotal, sawDup, result
vars == <<k, mode, comp, hdr, delivered, dupUsed, have, knownTotal, sawDup, result>>

Frags == 0 .. (k - 1)
Init == /\ k \in Ks /\ mode \in Modes
        /\ comp \in (IF mode = "all" THEN BOOLEAN ELSE {FALSE}) /\ hdr = "none"
        /\ delivered = <<>> /\ dupUsed = FALSE /\ have = {} /\ knownTotal = 0 /\ sawDup = FALSE
        /\ result = "pending"

Undelivered == Frags \ {delivered[i] : i \in 1 .. Len(delivered)}

\* the client consumes fragment i
Consume(i) ==
  /\ sawDup' = (sawDup \/ i \in have)
  /\ have' = have \cup {i}
  /\ hdr' = IF comp /\ i = 0 THEN "frag0" ELSE hdr
  /\ knownTotal' = CASE mode = "all" -> k
                     [] mode = "last" -> IF i = k - 1 THEN k ELSE knownTotal
                     [] mode = "none" -> 0

Deliver(i) == /\ result = "pending" /\ i \in Undelivered
              /\ delivered' = Append(delivered, i) /\ Consume(i)
              /\ UNCHANGED <<k, mode, comp, dupUsed, result>>

Duplicate(i) == /\ result = "pending" /\ AllowDup /\ ~dupUsed /\ mode # "none"
                /\ i \in Frags \ Undelivered
                /\ delivered' = Append(delivered, i) /\ dupUsed' = TRUE /\ Consume(i)
                /\ UNCHANGED <<k, mode, comp, result>>

\* the client decides the response is complete (placing fragments by index), or - after a duplicate - gives up
Complete == /\ result = "pending"
            /\ IF mode = "none" THEN Undelivered = {} ELSE (knownTotal = k /\ have = Frags)
            /\ comp => hdr = "frag0"
            /\ result' = "same-as-in-order"
            /\ UNCHANGED <<k, mode, comp, hdr, delivered, dupUsed, have, knownTotal, sawDup>>
FailOnDup == /\ result = "pending" /\ sawDup
             /\ result' = "error"
             /\ UNCHANGED <<k, mode, comp, hdr, delivered, dupUsed, have, knownTotal, sawDup>>

Next == (\E i \in Frags : Deliver(i) \/ Duplicate(i)) \/ Complete \/ FailOnDup
Spec == Init /\ [][Next]_vars /\ WF_vars(Next)

-----------------------------------------------------------------------------
\* a successful result is the in-order result, whatever the arrival order; an error only after a duplicate
OrderIndependent == (result = "same-as-in-order") => (mode = "none" \/ have = Frags)
ErrorOnlyOnDup == (result = "error") => sawDup
NeverEarly == (result = "same-as-in-order" /\ mode # "none") => Cardinality(have) = k
HeaderFromFragmentZero == (result = "same-as-in-order" /\ comp) => hdr = "frag0"
Terminates == <>(result # "pending")

\* one line per complete delivery schedule (the order the environment chose)
Export == (result # "pending" /\ Emit /\ Undelivered = {}) =>
             PrintT(<<"SCHEDULE", ToJson([k |-> k, mode |-> mode, comp |-> comp, order |-> delivered, dup |-> dupUsed, result |-> result])>>)
=============================================================================
