----------------------------- MODULE LayoutLib -----------------------------
(***************************************************************************)
(* Vocabulary shared by all layout (L2) specifications.                    *)
(*                                                                         *)
(* A *layout* is what a well-formed reply looks like for one *shape*       *)
(* (which optional parts are present, how many list entries there are):    *)
(*   items  - the flat sequence of wire items of the reply, and            *)
(*   expect - the response the client must return, as a sequence of        *)
(*            (JSON path, source, transform) entries.                      *)
(* Field *values* are not enumerated by TLC: an item [k |-> "f"] names a   *)
(* field and its wire type, the conformance harness draws the value from   *)
(* the type's full domain, encodes it with its primitive codec and         *)
(* computes the expected response through `expect`.  Everything discrete   *)
(* (order, presence, counts, literals, masks, skips) is fixed here.        *)
(***************************************************************************)
EXTENDS Naturals, Integers, Sequences, FiniteSets, SequencesExt

\* --- items ---------------------------------------------------------------
F(f, ty)        == [k |-> "f", f |-> f, ty |-> ty]                 \* drawn field
Fo(f, opts)     == [k |-> "f", f |-> f, ty |-> "oneof", opts |-> opts]   \* one byte out of opts
Fx(f, ty, excl) == [k |-> "f", f |-> f, ty |-> ty, excl |-> excl]  \* text field avoiding the characters in excl
Fu(f, ty, grp)  == [k |-> "f", f |-> f, ty |-> ty, uniq |-> grp]   \* value unique within group grp
Fux(f, ty, excl, grp) == [k |-> "f", f |-> f, ty |-> ty, excl |-> excl, uniq |-> grp]
Lit(b)          == [k |-> "lit", b |-> b]                          \* literal bytes
Txt(s)          == [k |-> "txt", s |-> s]                          \* literal ASCII text
Skip(n)         == [k |-> "skip", n |-> n]                         \* n bytes the client must ignore (harness: random)

\* --- expected response -----------------------------------------------------
E(p, src)       == [p |-> p, src |-> src, tr |-> "id"]             \* field value as is
Et(p, src, tr)  == [p |-> p, src |-> src, tr |-> tr]               \* transformed: eq1 | ne0 | low24 | str
Em(p, src, m)   == [p |-> p, src |-> src, tr |-> "enum", map |-> m]\* byte -> variant name
Ec(p, v)        == [p |-> p, tr |-> "const", v |-> v]              \* constant
En(p)           == [p |-> p, tr |-> "null"]                        \* absent / None
El(p)           == [p |-> p, tr |-> "list"]                        \* empty list placeholder
Eo(p)           == [p |-> p, tr |-> "map"]                         \* empty map placeholder
Ek(p, key, src) == [p |-> p, tr |-> "entry", key |-> key, src |-> src]   \* map entry keyed by a drawn field

\* --- helpers -----------------------------------------------------------------
\* concatenation of a sequence of sequences (SequencesExt, evaluated by a Java module override)
Cat(ss) == FlattenSeq(ss)

\* decimal digits of a small natural, as a string (used to build unique field names)
Digit(d) == CASE d = 0 -> "0" [] d = 1 -> "1" [] d = 2 -> "2" [] d = 3 -> "3" [] d = 4 -> "4"
              [] d = 5 -> "5" [] d = 6 -> "6" [] d = 7 -> "7" [] d = 8 -> "8" [] d = 9 -> "9"
RECURSIVE Str(_)
Str(n) == IF n < 10 THEN Digit(n) ELSE Str(n \div 10) \o Digit(n % 10)

\* little-endian bytes of a small natural
U16le(n) == <<n % 256, n \div 256>>
U16be(n) == <<n \div 256, n % 256>>
U32le(n) == <<n % 256, (n \div 256) % 256, (n \div 65536) % 256, n \div 16777216>>

If(c, s) == IF c THEN s ELSE <<>>
=============================================================================
