--------------------------- MODULE MC_QuakeText ---------------------------
EXTENDS QuakeText
MCKv == {"\\", "a", "b"}
MCPl == {" ", "\"", "a", "1", "-"}
\* "#" stands for a two-byte character (é): TLC mangles non-ASCII string literals, the harness substitutes it
MCRest == {" ", "\"", "a"}
MCRestT == {" ", "\"", "a", "#"}
MCPlT == {" ", "\"", "a", "1", "-", "#"}
=============================================================================
