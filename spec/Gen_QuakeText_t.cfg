SPECIFICATION Spec
CONSTANTS
  KvAlphabet <- MCKv
  KvMax = 9
  PlAlphabet <- MCPlT
  PlMax = 7
  RestAlphabet <- MCRestT
  RestMax = 8
  Emit = TRUE
INVARIANTS TokensPartition DomainBalanced KvPairsCover
CHECK_DEADLOCK FALSE
