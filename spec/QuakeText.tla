----------------------------- MODULE QuakeText -----------------------------
(***************************************************************************)
(* C05 at the level of characters: the two text grammars of a Quake status *)
(* reply, as pure functions over character sequences, enumerated           *)
(* exhaustively for every line up to a small length over a boundary        *)
(* alphabet, and every such line replayed through the real query.          *)
(*                                                                         *)
(*  variables line:  \key\value\key\value...   (after the variables the    *)
(*     library needs: \hostname\h\mapname\m\maxclients\8)                  *)
(*  player line (Quake 2 / 3):  score ping "name" ["address"]              *)
(*     fields separated by single spaces; a field in double quotes may     *)
(*     contain spaces; wrapping quotes are removed.                        *)
(*                                                                         *)
(*  GameSpy 1 uses the same backslash grammar for its variables            *)
(*     (\hostname\h<fragment>\queryid\5.1\final\): kind "gs1", replayed      *)
(*     through the raw-variables query (C04).                              *)
(*  GameSpy 3 separates the same pairs with NUL bytes and ends the         *)
(*     variables with an empty key (hostname NUL h NUL <fragment> NUL):    *)
(*     kind "gs3" (the symbol "0" stands for the NUL byte).                *)
(* Lines inside the grammar (InDomain) must be decoded exactly as the      *)
(* functions below say; for every other line the property C05 states       *)
(* nothing and only C01 applies (an error or a response, never a panic).   *)
(***************************************************************************)
EXTENDS Naturals, Integers, Sequences, FiniteSets, TLC, Json

CONSTANTS KvAlphabet, KvMax, PlAlphabet, PlMax, RestAlphabet, RestMax, Emit

BS == "\\"
QT == "\""
SP == " "

VARIABLES kind, line, done
vars == <<kind, line, done>>

Min(S) == CHOOSE x \in S : \A y \in S : x <= y

RECURSIVE Split(_, _)
Split(s, sep) ==
  LET I == {i \in 1 .. Len(s) : s[i] = sep}
  IN  IF I = {} THEN <<s>>
      ELSE <<SubSeq(s, 1, Min(I) - 1)>> \o Split(SubSeq(s, Min(I) + 1, Len(s)), sep)

-----------------------------------------------------------------------------
(* variables: the fragment is appended to a line that ends with a value, so a fragment inside the grammar is empty or   *)
(* starts with a backslash; its pieces alternate key, value                                                          *)
KvPieces(f) == IF f = <<>> THEN <<>> ELSE Tail(Split(f, BS))
KvInDomain(f) ==
  /\ f = <<>> \/ f[1] = BS
  /\ Len(KvPieces(f)) % 2 = 0
  /\ \A i \in 1 .. Len(KvPieces(f)) \div 2 : KvPieces(f)[2 * i - 1] # <<>>                      \* a variable has a name
  /\ \A i, j \in 1 .. Len(KvPieces(f)) \div 2 : i # j => KvPieces(f)[2 * i - 1] # KvPieces(f)[2 * j - 1]   \* named once
KvExpected(f) == [i \in 1 .. Len(KvPieces(f)) \div 2 |-> <<KvPieces(f)[2 * i - 1], KvPieces(f)[2 * i]>>]

-----------------------------------------------------------------------------
(* GameSpy 3 variables: key NUL value NUL ... ; an empty key ends the section.  f is followed by the terminating NUL. *)
NUL0 == "0"
NulTokens(f) == Split(f \o <<NUL0>>, NUL0)             \* the last token is what follows the final NUL: empty
RECURSIVE NulPairs(_)
NulPairs(t) == IF Len(t) < 2 \/ t[1] = <<>> THEN <<>> ELSE <<<<t[1], t[2]>>>> \o NulPairs(SubSeq(t, 3, Len(t)))
Gs3InDomain(f) ==
  LET t == NulTokens(f) p == NulPairs(t) IN
  /\ Len(t) = 2 * Len(p) + 1                          \* every key has a value and the only empty key is the terminator
  /\ \A i, j \in 1 .. Len(p) : i # j => p[i][1] # p[j][1]
Gs3Expected(f) == NulPairs(NulTokens(f))

-----------------------------------------------------------------------------
(* player line: split on spaces that are not inside double quotes *)
RECURSIVE Tok(_, _, _)
\* rest of the line, the token being built, inside quotes?
Tok(s, cur, inq) ==
  IF s = <<>> THEN <<cur>>
  ELSE IF s[1] = QT THEN Tok(Tail(s), Append(cur, QT), ~inq)
  ELSE IF s[1] = SP /\ ~inq THEN <<cur>> \o Tok(Tail(s), <<>>, FALSE)
  ELSE Tok(Tail(s), Append(cur, s[1]), inq)
Tokens(s) == Tok(s, <<>>, FALSE)

Quoted(t) == Len(t) >= 2 /\ t[1] = QT /\ t[Len(t)] = QT /\ \A i \in 2 .. Len(t) - 1 : t[i] # QT
Plain(t) == t # <<>> /\ \A i \in 1 .. Len(t) : t[i] \notin {QT, SP}
Unquote(t) == IF Len(t) >= 2 /\ t[1] = QT /\ t[Len(t)] = QT THEN SubSeq(t, 2, Len(t) - 1) ELSE t
Digit(c) == c \in {"0", "1", "2", "3", "4", "5", "6", "7", "8", "9"}
DigitVal(c) == CASE c = "0" -> 0 [] c = "1" -> 1 [] c = "2" -> 2 [] c = "3" -> 3 [] c = "4" -> 4 [] c = "5" -> 5
                 [] c = "6" -> 6 [] c = "7" -> 7 [] c = "8" -> 8 [] c = "9" -> 9
IsNat(t) == t # <<>> /\ \A i \in 1 .. Len(t) : Digit(t[i])
RECURSIVE NatVal(_)
NatVal(t) == IF t = <<>> THEN 0 ELSE NatVal(SubSeq(t, 1, Len(t) - 1)) * 10 + DigitVal(t[Len(t)])
IsInt(t) == IsNat(t) \/ (Len(t) >= 2 /\ t[1] = "-" /\ IsNat(Tail(t)))
IntVal(t) == IF t[1] = "-" THEN 0 - NatVal(Tail(t)) ELSE NatVal(t)

PlInDomain(s) ==
  LET t == Tokens(s) IN
  /\ Len(t) \in {3, 4}
  /\ IsInt(t[1]) /\ IsNat(t[2])
  /\ \A i \in 3 .. Len(t) : Quoted(t[i]) \/ Plain(t[i])
PlExpected(s) ==
  LET t == Tokens(s) IN
  [score |-> IntVal(t[1]), ping |-> NatVal(t[2]), name |-> Unquote(t[3]),
   hasaddr |-> Len(t) = 4, address |-> IF Len(t) = 4 THEN Unquote(t[4]) ELSE <<>>]

-----------------------------------------------------------------------------
Lines(A, n) == UNION {[1 .. k -> A] : k \in 0 .. n}
\* "plr": two numeric fields already in place, then every continuation over the characters that matter for names
\* (long enough for a quoted name with a space in it, an address, unbalanced or doubled quotes, doubled spaces)
Prefixes == {<<"1", SP, "1", SP>>, <<"-", "1", SP, "1", "1", SP>>}
Init == /\ kind \in {"kv", "gs1", "gs3", "pl", "plr"}
        /\ line \in CASE kind \in {"kv", "gs1"} -> Lines(KvAlphabet, KvMax)
                    [] kind = "gs3" -> Lines({NUL0, "a", "b"}, KvMax)
                    [] kind = "pl" -> Lines(PlAlphabet, PlMax)
                    [] kind = "plr" -> {p \o r : p \in Prefixes, r \in Lines(RestAlphabet, RestMax)}
        /\ done = FALSE
Step == /\ ~done /\ done' = TRUE /\ UNCHANGED <<kind, line>>
        /\ Emit => PrintT(<<"CASE", ToJson(
              IF kind \in {"kv", "gs1"}
              THEN [kind |-> kind, line |-> line, indomain |-> KvInDomain(line),
                    expected |-> IF KvInDomain(line) THEN KvExpected(line) ELSE <<>>]
              ELSE IF kind = "gs3"
              THEN [kind |-> kind, line |-> line, indomain |-> Gs3InDomain(line),
                    expected |-> IF Gs3InDomain(line) THEN Gs3Expected(line) ELSE <<>>]
              ELSE [kind |-> "pl", sub |-> kind, line |-> line, indomain |-> PlInDomain(line),
                    expected |-> IF PlInDomain(line) THEN <<PlExpected(line)>> ELSE <<>>])>>)
Spec == Init /\ [][Step]_vars

\* the oracle itself: tokens partition the line; the grammar's lines have 3 or 4 fields and balanced quotes
RECURSIVE Join(_)
Join(ts) == IF Len(ts) = 1 THEN ts[1] ELSE ts[1] \o <<SP>> \o Join(Tail(ts))
TokensPartition == kind \in {"pl", "plr"} => Join(Tokens(line)) = line
DomainBalanced == (kind \in {"pl", "plr"} /\ PlInDomain(line)) => Cardinality({i \in 1 .. Len(line) : line[i] = QT}) % 2 = 0
KvPairsCover == (kind \in {"kv", "gs1"} /\ KvInDomain(line) /\ line # <<>>) => Len(KvExpected(line)) * 2 = Len(Split(line, BS)) - 1
=============================================================================
