SPECIFICATION Spec
CONSTANTS
  Alphabet <- U2Alphabet
  Ops <- U2Ops
  MaxLen = 4
  Orders <- MCOrders
  MoveOffsets <- MCMoveOffsets
  ChunkSizes <- MCChunkSizes
  Delims <- MCDelims
  Emit = FALSE
INVARIANTS TypeOK CursorInBounds FailedLeavesCursor ResultsInBounds U2Consumes
CHECK_DEADLOCK FALSE
