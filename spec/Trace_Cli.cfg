SPECIFICATION TraceSpec
CONSTANTS
  Emit = FALSE
INVARIANTS TExitRule TNeverPrintsOnError
CONSTRAINT Progress
POSTCONDITION TraceAccepted
CHECK_DEADLOCK FALSE
