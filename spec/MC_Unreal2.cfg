SPECIFICATION Spec
CONSTANTS
  Retries <- R012
  Toggles <- AllToggles
  Outcomes <- AllOutcomes
  Emit = FALSE
INVARIANTS SkipNeverRequested TryIsolates EnforcePropagates AttemptsBounded SectionOrder
PROPERTIES Termination
CHECK_DEADLOCK FALSE
