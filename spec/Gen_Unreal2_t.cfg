SPECIFICATION Spec
CONSTANTS
  Retries <- R012
  Toggles <- AllToggles
  Outcomes <- AllOutcomes
  Emit = TRUE
INVARIANTS Export
CHECK_DEADLOCK FALSE
