SPECIFICATION Spec
CONSTANTS
  Counts <- MCCounts
  StrLens <- MCStrLens
  Emit = TRUE
INVARIANTS HasEntry
CHECK_DEADLOCK FALSE
