SPECIFICATION Spec
CONSTANTS
  Counts <- MCCounts
  StrLens <- MCStrLens
  TeamCounts <- MCTeams
  PartCounts <- MCParts
  Emit = TRUE
INVARIANTS HasEntry
CHECK_DEADLOCK FALSE
