SPECIFICATION Spec
CONSTANTS
  Alphabet <- MCAlphabet
  MaxLen = 4
  Orders <- MCOrders
  MoveOffsets <- MCMoveOffsets
  ChunkSizes <- MCChunkSizes
  Delims <- MCDelims
  Emit = FALSE
INVARIANTS TypeOK CursorInBounds FailedLeavesCursor ResultsInBounds FixedAdvancesByWidth StringConsumes
CHECK_DEADLOCK FALSE
