---------------------------- MODULE ValveLayout ----------------------------
(***************************************************************************)
(* L2 layouts of the Valve A2S replies (C02), from the Valve developer     *)
(* wiki page "Server queries" (see DESIGN.md Appendix C for confidence     *)
(* tags).  One TLC state per (section, shape); the layout of every shape   *)
(* is printed for the conformance harness and checked for well-formedness. *)
(***************************************************************************)
EXTENDS LayoutLib, TLC, Json

CONSTANTS PlayerCounts, RuleCounts, Emit

VARIABLES sec, shape, done
vars == <<sec, shape, done>>

EdfFlags == {"port", "steamid", "tv", "keywords", "gameid"}
EdfBit(f) == CASE f = "port" -> 128 [] f = "steamid" -> 16 [] f = "tv" -> 64 [] f = "keywords" -> 32 [] f = "gameid" -> 1
RECURSIVE SumBits(_)
SumBits(S) == IF S = {} THEN 0 ELSE LET x == CHOOSE x \in S : TRUE IN EdfBit(x) + SumBits(S \ {x})

ServerTypeMap == << <<100, "Dedicated">>, <<68, "Dedicated">>, <<108, "NonDedicated">>, <<76, "NonDedicated">>,
                    <<112, "TV">>, <<80, "TV">> >>
EnvMap == << <<108, "Linux">>, <<76, "Linux">>, <<119, "Windows">>, <<87, "Windows">>,
             <<109, "Mac">>, <<77, "Mac">>, <<111, "Mac">>, <<79, "Mac">> >>

\* --- A2S_INFO, Source layout ('I' = 0x49) -----------------------------------------------------
InfoSourceShapes == [edfPresent : BOOLEAN, edf : SUBSET EdfFlags, ship : BOOLEAN]
InfoSourceOk(s) == s.edfPresent \/ s.edf = {}

InfoSource(s) ==
  LET has(f) == f \in s.edf
      items ==
        <<F("protocol", "u8"), F("name", "cstr"), F("map", "cstr"), F("folder", "cstr"), F("game", "cstr"),
          F("id", "u16le"), F("players", "u8"), F("max", "u8"), F("bots", "u8"),
          Fo("stype", <<100, 108, 112, 68, 76, 80>>), Fo("env", <<108, 119, 109, 111, 76, 87, 77, 79>>),
          Fo("vis", <<0, 1>>), Fo("vac", <<0, 1>>)>>
        \o If(s.ship, <<F("shipmode", "u8"), F("witnesses", "u8"), F("shipduration", "u8")>>)
        \o <<F("version", "cstr")>>
        \o If(s.edfPresent, <<Lit(<<SumBits(s.edf)>>)>>)
        \o If(has("port"), <<F("port", "u16le")>>)
        \o If(has("steamid"), <<F("steamid", "u64le")>>)
        \o If(has("tv"), <<F("tvport", "u16le"), F("tvname", "cstr")>>)
        \o If(has("keywords"), <<F("keywords", "cstr")>>)
        \o If(has("gameid"), <<F("gameid", "u64le")>>)
      opt(flag, p, src) == IF has(flag) THEN E(p, src) ELSE En(p)
      expect ==
        <<E(<<"info", "protocol_version">>, "protocol"), E(<<"info", "name">>, "name"), E(<<"info", "map">>, "map"),
          E(<<"info", "folder">>, "folder"), E(<<"info", "game_mode">>, "game"),
          \* the app id is the 16-bit id, superseded by the low 24 bits of the 64-bit game id when that is sent
          IF has("gameid") THEN Et(<<"info", "appid">>, "gameid", "low24") ELSE E(<<"info", "appid">>, "id"),
          E(<<"info", "players_online">>, "players"), E(<<"info", "players_maximum">>, "max"),
          E(<<"info", "players_bots">>, "bots"),
          Em(<<"info", "server_type">>, "stype", ServerTypeMap), Em(<<"info", "environment_type">>, "env", EnvMap),
          Et(<<"info", "has_password">>, "vis", "eq1"), Et(<<"info", "vac_secured">>, "vac", "eq1"),
          E(<<"info", "game_version">>, "version"),
          Ec(<<"info", "is_mod">>, FALSE), En(<<"info", "mod_data">>)>>
        \o (IF s.ship THEN <<E(<<"info", "the_ship", "mode">>, "shipmode"), E(<<"info", "the_ship", "witnesses">>, "witnesses"),
                             E(<<"info", "the_ship", "duration">>, "shipduration")>>
            ELSE <<En(<<"info", "the_ship">>)>>)
        \o (IF ~s.edfPresent THEN <<En(<<"info", "extra_data">>)>>
            ELSE <<opt("port", <<"info", "extra_data", "port">>, "port"),
                   opt("steamid", <<"info", "extra_data", "steam_id">>, "steamid"),
                   opt("tv", <<"info", "extra_data", "tv_port">>, "tvport"),
                   opt("tv", <<"info", "extra_data", "tv_name">>, "tvname"),
                   opt("keywords", <<"info", "extra_data", "keywords">>, "keywords"),
                   opt("gameid", <<"info", "extra_data", "game_id">>, "gameid")>>)
  IN [kind |-> 73, items |-> items, expect |-> expect]

\* --- A2S_INFO, obsolete GoldSrc layout ('m' = 0x6D) --------------------------------------------
InfoGoldShapes == [mod : BOOLEAN]
InfoGold(s) ==
  LET items ==
        <<F("address", "cstr"), F("name", "cstr"), F("map", "cstr"), F("folder", "cstr"), F("game", "cstr"),
          F("players", "u8"), F("max", "u8"), F("protocol", "u8"),
          Fo("stype", <<68, 76, 80>>), Fo("env", <<76, 87>>), Fo("vis", <<0, 1>>),
          Lit(<<IF s.mod THEN 1 ELSE 0>>)>>
        \o If(s.mod, <<F("link", "cstr"), F("download", "cstr"), Lit(<<0>>), F("modversion", "u32le"),
                       F("modsize", "u32le"), Fo("modtype", <<0, 1>>), Fo("moddll", <<0, 1>>)>>)
        \o <<Fo("vac", <<0, 1>>), F("bots", "u8")>>
      expect ==
        <<E(<<"info", "protocol_version">>, "protocol"), E(<<"info", "name">>, "name"), E(<<"info", "map">>, "map"),
          E(<<"info", "folder">>, "folder"), E(<<"info", "game_mode">>, "game"), Ec(<<"info", "appid">>, 0),
          E(<<"info", "players_online">>, "players"), E(<<"info", "players_maximum">>, "max"),
          E(<<"info", "players_bots">>, "bots"),
          Em(<<"info", "server_type">>, "stype", ServerTypeMap), Em(<<"info", "environment_type">>, "env", EnvMap),
          Et(<<"info", "has_password">>, "vis", "eq1"), Et(<<"info", "vac_secured">>, "vac", "eq1"),
          En(<<"info", "the_ship">>), Ec(<<"info", "game_version">>, ""), En(<<"info", "extra_data">>),
          Ec(<<"info", "is_mod">>, s.mod)>>
        \o (IF s.mod THEN <<E(<<"info", "mod_data", "link">>, "link"), E(<<"info", "mod_data", "download_link">>, "download"),
                            E(<<"info", "mod_data", "version">>, "modversion"), E(<<"info", "mod_data", "size">>, "modsize"),
                            Et(<<"info", "mod_data", "multiplayer_only">>, "modtype", "eq1"),
                            Et(<<"info", "mod_data", "has_own_dll">>, "moddll", "eq1")>>
            ELSE <<En(<<"info", "mod_data">>)>>)
  IN [kind |-> 109, items |-> items, expect |-> expect,
      \* the NUL byte inside the mod block is recalled from the wiki and the code does not consume it:
      \* unsettled (DESIGN 4.1) -> listed in spec/drift.json, reported as drift
      uncertain |-> IF s.mod THEN "valve-goldsrc-mod-nul-byte" ELSE ""]

\* --- A2S_PLAYER ('D' = 0x44) ----------------------------------------------------------------------
PlayersShapes == [n : PlayerCounts, ship : BOOLEAN]
Player(i, ship) ==
  LET x == Str(i) IN
  <<F("pidx" \o x, "u8"), F("pname" \o x, "cstr"), F("pscore" \o x, "i32le"), F("pdur" \o x, "f32le")>>
  \o If(ship, <<F("pdeaths" \o x, "u32le"), F("pmoney" \o x, "u32le")>>)
PlayerExpect(i, ship) ==
  LET x == Str(i) p(fld) == <<"players", i - 1, fld>> IN
  <<E(p("name"), "pname" \o x), E(p("score"), "pscore" \o x), E(p("duration"), "pdur" \o x)>>
  \o (IF ship THEN <<E(p("deaths"), "pdeaths" \o x), E(p("money"), "pmoney" \o x)>>
      ELSE <<En(p("deaths")), En(p("money"))>>)
\* (direct indexing instead of concatenation: 255 entries would recurse too deeply in TLC)
Per(ship) == IF ship THEN 6 ELSE 4
Players(s) ==
  [kind |-> 68,
   items |-> [j \in 1 .. (1 + s.n * Per(s.ship)) |->
                IF j = 1 THEN Lit(<<s.n>>)
                ELSE Player(((j - 2) \div Per(s.ship)) + 1, s.ship)[((j - 2) % Per(s.ship)) + 1]],
   expect |-> [j \in 1 .. (1 + s.n * 5) |->
                IF j = 1 THEN El(<<"players">>)
                ELSE PlayerExpect(((j - 2) \div 5) + 1, s.ship)[((j - 2) % 5) + 1]]]

\* --- A2S_RULES ('E' = 0x45) -------------------------------------------------------------------------
RulesShapes == [n : RuleCounts]
Rules(s) ==
  [kind |-> 69,
   items |-> [j \in 1 .. (1 + 2 * s.n) |->
                IF j = 1 THEN Lit(U16le(s.n))
                ELSE IF (j % 2) = 0 THEN Fu("rk" \o Str(j \div 2), "cstr", "rulekeys") ELSE F("rv" \o Str(j \div 2), "cstr")],
   expect |-> <<Eo(<<"rules">>)>> \o [i \in 1 .. s.n |-> Ek(<<"rules">>, "rk" \o Str(i), "rv" \o Str(i))]]

\* --- split-packet framing -------------------------------------------------------------------------------
\* Source: FFFFFFFE, id u32le (bit 31 set = bzip2-compressed), total u8, number u8, size u16le (absent for
\* protocol 7 of app 240), and in the first fragment of a compressed reply the decompressed size and CRC-32.
\* GoldSrc: FFFFFFFE, id u32le, one byte: high nibble = number, low nibble = total.
\* The reassembled payload starts with FFFFFFFF and the reply kind.
Chunk == [k |-> "chunk"]
FragSourceShapes == [total : 1 .. 4, number : 0 .. 3, sized : BOOLEAN, compressed : BOOLEAN]
FragSourceOk(s) == s.number < s.total
FragSource(s) ==
  [kind |-> 0,
   items |-> <<Lit(<<254, 255, 255, 255>>), F("id", "u32le"), Lit(<<s.total>>), Lit(<<s.number>>)>>
             \o If(s.sized, <<F("size", "u16le")>>)
             \o If(s.compressed /\ s.number = 0, <<F("dsize", "u32le"), F("crc", "u32le")>>)
             \o <<Chunk>>,
   expect |-> <<>>]
FragGoldShapes == [total : 1 .. 4, number : 0 .. 3]
FragGold(s) ==
  [kind |-> 0,
   items |-> <<Lit(<<254, 255, 255, 255>>), F("id", "u32le"), Lit(<<s.number * 16 + s.total>>), Chunk>>,
   expect |-> <<>>]

\* transport encodings of one reply (C02): how many challenge rounds precede it and how it is cut
TransportShapes == [mode : {"single", "source", "goldsrc", "bz2"}, k : 1 .. 4, rounds : 0 .. 3]
\* (a split reply may consist of a single fragment: total = 1, e.g. a compressed reply that fits one datagram)
TransportOk(s) == /\ (s.mode = "single") => (s.k = 1)
Transport(s) == [kind |-> 0, items |-> <<>>, expect |-> <<>>]

-----------------------------------------------------------------------------
Sections == {"info_source", "info_goldsrc", "players", "rules", "frag_source", "frag_goldsrc", "transport"}
ShapesOf(x) == CASE x = "info_source" -> {s \in InfoSourceShapes : InfoSourceOk(s)}
                 [] x = "info_goldsrc" -> InfoGoldShapes
                 [] x = "players" -> PlayersShapes
                 [] x = "rules" -> RulesShapes
                 [] x = "frag_source" -> {s \in FragSourceShapes : FragSourceOk(s)}
                 [] x = "frag_goldsrc" -> {s \in FragGoldShapes : FragSourceOk(s)}
                 [] x = "transport" -> {s \in TransportShapes : TransportOk(s)}
LayoutOf(x, s) == CASE x = "info_source" -> InfoSource(s) [] x = "info_goldsrc" -> InfoGold(s)
                    [] x = "players" -> Players(s) [] x = "rules" -> Rules(s)
                    [] x = "frag_source" -> FragSource(s) [] x = "frag_goldsrc" -> FragGold(s)
                    [] x = "transport" -> Transport(s)

Init == /\ sec \in Sections /\ shape \in ShapesOf(sec) /\ done = FALSE
Step == /\ ~done /\ done' = TRUE /\ UNCHANGED <<sec, shape>>
        /\ Emit => PrintT(<<"LAYOUT", ToJson([proto |-> "valve", sec |-> sec, shape |-> shape, layout |-> LayoutOf(sec, shape)])>>)
Spec == Init /\ [][Step]_vars

\* --- well-formedness of every layout ------------------------------------------------------------------
FieldsOf(L) == {L.items[i].f : i \in {j \in 1 .. Len(L.items) : L.items[j].k = "f"}}
SrcsOf(L) == {L.expect[i].src : i \in {j \in 1 .. Len(L.expect) : L.expect[j].tr \in {"id", "eq1", "low24", "enum", "entry"}}}
\* every expected value comes from a field that is on the wire; field names are unique
ExpectGrounded == LET L == LayoutOf(sec, shape) IN SrcsOf(L) \subseteq FieldsOf(L)
FieldsUnique == LET L == LayoutOf(sec, shape)
                    idx == {j \in 1 .. Len(L.items) : L.items[j].k = "f"}
                IN \A a, b \in idx : L.items[a].f = L.items[b].f => a = b
\* the extra-data flag byte announces exactly the optional fields that follow
EdfConsistent ==
  sec = "info_source" =>
    LET L == InfoSource(shape) IN
      /\ ("port" \in FieldsOf(L)) = ("port" \in shape.edf)
      /\ ("tvname" \in FieldsOf(L)) = ("tv" \in shape.edf)
      /\ ("gameid" \in FieldsOf(L)) = ("gameid" \in shape.edf)
=============================================================================
