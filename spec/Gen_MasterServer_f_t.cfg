SPECIFICATION Spec
CONSTANTS
  MaxInserts = 3
  Vals <- V1
  MaxPages = 1
  PageLens <- PL
  Emit = TRUE
  Mode = "filters"
INVARIANTS LastWins SeedChains StopsAtTerminator AllAddresses Export
CHECK_DEADLOCK FALSE
