------------------------------ MODULE Unreal2 ------------------------------
(***************************************************************************)
(* L1 exchange of an Unreal 2 query (C11 gather matrix, C10 retry):        *)
(* server info (always), then mutators/rules (toggle gr), then players     *)
(* (toggle gp).  A section request is a retrying unit; a list section may  *)
(* span several datagrams, so after the first reply the client keeps       *)
(* receiving until the server is silent (that last, expected timeout is    *)
(* not a failure).  Skip: never requested, absent (empty lists); Try: a    *)
(* failure leaves the section absent; Enforce: a failure fails the query.  *)
(***************************************************************************)
EXTENDS Naturals, Sequences, FiniteSets, TLC, Json

CONSTANTS Retries, Toggles, Outcomes, Emit

Sections == <<"info", "rules", "players">>
VARIABLES cfg, pc, attempt, sent, got, result, hist
vars == <<cfg, pc, attempt, sent, got, result, hist>>

Toggle(s) == CASE s = "info" -> "Enforce" [] s = "rules" -> cfg.gr [] s = "players" -> cfg.gp
NextSec(s) == CASE s = "info" -> "rules" [] s = "rules" -> "players" [] s = "players" -> "done"
Pending == [state |-> "pending", err |-> "", at |-> ""]

Init == /\ cfg \in [r : Retries, gp : Toggles, gr : Toggles]
        /\ pc = "info" /\ attempt = 1 /\ sent = <<>> /\ result = Pending /\ hist = <<>>
        /\ got = [info |-> "none", rules |-> "none", players |-> "none"]
Running == result.state = "pending" /\ pc # "done"

Skip == /\ Running /\ Toggle(pc) = "Skip" /\ attempt = 1
        /\ got' = [got EXCEPT ![pc] = "skipped"] /\ pc' = NextSec(pc)
        /\ UNCHANGED <<cfg, attempt, sent, result, hist>>

Fails(e) == IF Toggle(pc) = "Enforce"
            THEN /\ result' = [state |-> "err", err |-> e, at |-> pc] /\ got' = [got EXCEPT ![pc] = "failed"] /\ pc' = "done" /\ UNCHANGED attempt
            ELSE /\ got' = [got EXCEPT ![pc] = "failed"] /\ pc' = NextSec(pc) /\ attempt' = 1 /\ UNCHANGED result

\* one attempt of the current section: the request goes out and the server reacts
Attempt ==
  /\ Running /\ Toggle(pc) # "Skip" /\ attempt <= cfg.r + 1
  /\ sent' = Append(sent, pc)
  /\ \E o \in Outcomes :
       /\ hist' = Append(hist, [sec |-> pc, o |-> o])
       /\ CASE o = "good" -> /\ got' = [got EXCEPT ![pc] = "present"] /\ pc' = NextSec(pc) /\ attempt' = 1 /\ UNCHANGED result
            [] o = "bad" -> Fails("malformed")
            [] o = "silent" -> IF attempt <= cfg.r THEN attempt' = attempt + 1 /\ UNCHANGED <<pc, got, result>>
                               ELSE Fails("timeout")
  /\ UNCHANGED cfg

Finish == /\ result.state = "pending" /\ pc = "done" /\ result' = [state |-> "ok", err |-> "", at |-> ""]
          /\ UNCHANGED <<cfg, pc, attempt, sent, got, hist>>
Next == Skip \/ Attempt \/ Finish
Spec == Init /\ [][Next]_vars /\ WF_vars(Next)

SkipNeverRequested == \A i \in 1 .. Len(sent) : Toggle(sent[i]) # "Skip"
TryIsolates == (result.state = "err" /\ result.at # "info") => Toggle(result.at) = "Enforce"
EnforcePropagates == (result.state = "ok") => \A s \in {"info", "rules", "players"} : Toggle(s) = "Enforce" => got[s] = "present"
AttemptsBounded == attempt <= cfg.r + 1
SectionOrder == \A i, j \in 1 .. Len(sent) : i < j => ~(sent[i] = "players" /\ sent[j] \in {"info", "rules"}) /\ ~(sent[i] = "rules" /\ sent[j] = "info")
Termination == <>(result.state # "pending")
Export == (result.state # "pending" /\ Emit) =>
            PrintT(<<"BEHAVIOUR", ToJson([proto |-> "unreal2", cfg |-> cfg, hist |-> hist, sent |-> sent, got |-> got, result |-> result])>>)
=============================================================================
