SPECIFICATION Spec
CONSTANTS
  Alphabet <- U2AlphabetT
  Ops <- U2Ops
  MaxLen = 6
  Orders <- LEOnly
  MoveOffsets <- MCMoveOffsets
  ChunkSizes <- MCChunkSizes
  Delims <- MCDelims
  Emit = FALSE
INVARIANTS TypeOK CursorInBounds FailedLeavesCursor ResultsInBounds U2Consumes
CHECK_DEADLOCK FALSE
