SPECIFICATION Spec
CONSTANTS
  MaxInserts = 2
  Vals <- V12
  MaxPages = 1
  PageLens <- PL
  Emit = TRUE
  Mode = "filters"
INVARIANTS LastWins SeedChains StopsAtTerminator AllAddresses Export
CHECK_DEADLOCK FALSE
