------------------------------- MODULE Buffer -------------------------------
(***************************************************************************)
(* Byte-level reference model of the packet reader (C17).                  *)
(*                                                                         *)
(* The reader is a pair (data, cursor) plus a byte order fixed at          *)
(* construction.  Every operation of the public reader API is one action.  *)
(* A fixed-width read returns the bytes at the cursor interpreted in the   *)
(* reader's byte order and advances by exactly that width, or fails and    *)
(* leaves the cursor unchanged.  A string read consumes exactly the        *)
(* string and its delimiter, or the rest of the packet when the delimiter  *)
(* is missing.  The cursor never leaves 0 .. Len(data).                    *)
(*                                                                         *)
(* Written from the reader's documented contract (doc comments of          *)
(* Buffer, StringDecoder and the property statement), not from its code.   *)
(* Integers wider than TLC's 32-bit Int are represented as byte tuples in  *)
(* most-significant-first order ("msb tuples").                            *)
(***************************************************************************)
EXTENDS Naturals, Integers, Sequences, FiniteSets, TLC, Json

CONSTANTS Alphabet,      \* set of byte values packets are built from
          MaxLen,        \* maximal packet length explored
          Orders,        \* subset of {"LE","BE"}
          MoveOffsets,   \* offsets tried by Move
          ChunkSizes,    \* sizes tried by SwitchChunk
          Delims,        \* delimiters tried by ReadCStr
          Emit           \* TRUE: print every transition as one JSON line (behaviour generation)

VARIABLES data, cursor, order
vars == <<data, cursor, order>>

Byte == 0 .. 255
None == [t |-> "none"]

SubSeqFrom(s, a, b) == IF a > b THEN <<>> ELSE SubSeq(s, a, b)   \* 1-based inclusive
Rev(s) == [i \in 1 .. Len(s) |-> s[Len(s) + 1 - i]]

-----------------------------------------------------------------------------
(* UTF-8 well-formedness (Unicode table 3-7), over arbitrary bytes *)
RECURSIVE Utf8Ok(_)
Utf8Ok(s) ==
  IF s = <<>> THEN TRUE
  ELSE LET b1 == s[1] n == Len(s)
           Cont(i) == i <= n /\ s[i] >= 128 /\ s[i] <= 191
           In(i, lo, hi) == i <= n /\ s[i] >= lo /\ s[i] <= hi
       IN  IF b1 <= 127 THEN Utf8Ok(Tail(s))
           ELSE IF b1 >= 194 /\ b1 <= 223 THEN Cont(2) /\ Utf8Ok(SubSeqFrom(s, 3, n))
           ELSE IF b1 = 224 THEN In(2, 160, 191) /\ Cont(3) /\ Utf8Ok(SubSeqFrom(s, 4, n))
           ELSE IF (b1 >= 225 /\ b1 <= 236) \/ b1 = 238 \/ b1 = 239
                THEN Cont(2) /\ Cont(3) /\ Utf8Ok(SubSeqFrom(s, 4, n))
           ELSE IF b1 = 237 THEN In(2, 128, 159) /\ Cont(3) /\ Utf8Ok(SubSeqFrom(s, 4, n))
           ELSE IF b1 = 240 THEN In(2, 144, 191) /\ Cont(3) /\ Cont(4) /\ Utf8Ok(SubSeqFrom(s, 5, n))
           ELSE IF b1 >= 241 /\ b1 <= 243 THEN Cont(2) /\ Cont(3) /\ Cont(4) /\ Utf8Ok(SubSeqFrom(s, 5, n))
           ELSE IF b1 = 244 THEN In(2, 128, 143) /\ Cont(3) /\ Cont(4) /\ Utf8Ok(SubSeqFrom(s, 5, n))
           ELSE FALSE

(* UTF-16 well-formedness over a sequence of <<hi, lo>> units *)
IsHighSur(u) == u[1] >= 216 /\ u[1] <= 219      \* D8..DB
IsLowSur(u)  == u[1] >= 220 /\ u[1] <= 223      \* DC..DF
RECURSIVE Utf16Ok(_)
Utf16Ok(us) ==
  IF us = <<>> THEN TRUE
  ELSE IF IsHighSur(us[1]) THEN Len(us) >= 2 /\ IsLowSur(us[2]) /\ Utf16Ok(SubSeqFrom(us, 3, Len(us)))
  ELSE IF IsLowSur(us[1]) THEN FALSE
  ELSE Utf16Ok(Tail(us))

-----------------------------------------------------------------------------
(* Pure reference functions: (data, cursor, order, op) -> [ok, cursor', value] *)

Rem(d, c) == Len(d) - c

Fixed(d, c, o, w) ==
  IF w > Rem(d, c) THEN [ok |-> FALSE, cur |-> c, val |-> <<>>]
  ELSE LET slice == SubSeqFrom(d, c + 1, c + w)
       IN  [ok |-> TRUE, cur |-> c + w, val |-> IF o = "LE" THEN Rev(slice) ELSE slice]

MoveTo(d, c, k) ==
  IF c + k < 0 \/ c + k > Len(d) THEN [ok |-> FALSE, cur |-> c, val |-> <<>>]
  ELSE [ok |-> TRUE, cur |-> c + k, val |-> <<>>]

\* index (1-based, absolute) of the first occurrence of byte dl at or after the cursor; 0 if none
FirstAt(d, c, dl) ==
  LET S == {i \in c + 1 .. Len(d) : d[i] = dl}
  IN  IF S = {} THEN 0 ELSE CHOOSE i \in S : \A j \in S : i <= j

CStr(d, c, dl) ==
  LET p   == FirstAt(d, c, dl)
      str == IF p = 0 THEN SubSeqFrom(d, c + 1, Len(d)) ELSE SubSeqFrom(d, c + 1, p - 1)
  IN  IF ~Utf8Ok(str) THEN [ok |-> FALSE, cur |-> c, val |-> <<>>]
      ELSE [ok |-> TRUE, cur |-> IF p = 0 THEN Len(d) ELSE p, val |-> str]

\* one length byte L followed by exactly L bytes of UTF-8
LpDomain(d, c) == \* the format's domain: no delimiter byte inside the declared length
  Rem(d, c) >= 1 => \A i \in c + 2 .. c + 1 + d[c + 1] : i <= Len(d) => d[i] # 0
LpStr(d, c) ==
  IF Rem(d, c) < 1 THEN [ok |-> FALSE, cur |-> c, val |-> <<>>]
  ELSE LET L == d[c + 1]
       IN  IF Rem(d, c) < 1 + L THEN [ok |-> FALSE, cur |-> c, val |-> <<>>]
           ELSE LET str == SubSeqFrom(d, c + 2, c + 1 + L)
                IN  IF ~Utf8Ok(str) THEN [ok |-> FALSE, cur |-> c, val |-> <<>>]
                    ELSE [ok |-> TRUE, cur |-> c + 1 + L, val |-> str]

\* UTF-16 in 2-byte units from the cursor, delimiter = the unit 0000.
\* o is the byte order of the *decoder* (not necessarily the reader's).
Units(d, c, o) ==
  LET n == Rem(d, c) \div 2
  IN  [i \in 1 .. n |-> IF o = "LE" THEN <<d[c + 2 * i], d[c + 2 * i - 1]>>
                                    ELSE <<d[c + 2 * i - 1], d[c + 2 * i]>>]
U16Str(d, c, o) ==
  LET us == Units(d, c, o)
      Z  == {i \in 1 .. Len(us) : us[i] = <<0, 0>>}
      p  == IF Z = {} THEN 0 ELSE CHOOSE i \in Z : \A j \in Z : i <= j
      str == IF p = 0 THEN us ELSE SubSeqFrom(us, 1, p - 1)
      odd == p = 0 /\ Rem(d, c) % 2 = 1     \* a dangling last byte that belongs to no unit
  IN  IF ~Utf16Ok(str) THEN {[ok |-> FALSE, cur |-> c, val |-> <<>>]}
      ELSE IF p # 0 THEN {[ok |-> TRUE, cur |-> c + 2 * p, val |-> str]}
      ELSE IF ~odd THEN {[ok |-> TRUE, cur |-> Len(d), val |-> str]}
      \* unterminated with a dangling byte: the contract does not say whether this is an
      \* error or "the rest of the packet"; both are allowed, leaving the packet is not
      ELSE {[ok |-> FALSE, cur |-> c, val |-> <<>>], [ok |-> TRUE, cur |-> Len(d), val |-> str]}

\* Unreal 2 string (the decoder the Unreal 2 reader plugs into read_string): one length byte L;
\*   L < 128 : L Latin-1 bytes follow, the count includes the terminator; the text is what precedes the first 00;
\*   L >= 128: L - 128 UCS-2 units (UTF-16LE) follow, after an optional stray 01 that is not counted.
\* Exactly 1 + L (resp. 1 [+ 1] + 2 (L - 128)) bytes are consumed whatever the text contains; not enough bytes: failure.
\* The value is the text with colour escapes (1B and the three characters after it) and the control codes 01..1A
\* removed and 00 trimmed at both ends (C06); Latin-1 bytes above 7F are not compared here (code page mapping): 65533.
RECURSIVE StripCodes(_)
StripCodes(s) == IF s = <<>> THEN <<>>
                 ELSE IF s[1] = 27 THEN StripCodes(SubSeqFrom(s, 5, Len(s)))
                 ELSE IF s[1] >= 1 /\ s[1] <= 26 THEN StripCodes(Tail(s))
                 ELSE <<s[1]>> \o StripCodes(Tail(s))
RECURSIVE TrimNul(_)
TrimNul(s) == IF s = <<>> THEN <<>>
              ELSE IF s[1] = 0 THEN TrimNul(Tail(s))
              ELSE IF s[Len(s)] = 0 THEN TrimNul(SubSeqFrom(s, 1, Len(s) - 1))
              ELSE s
U2Str(d, c) ==
  IF Rem(d, c) < 1 THEN [ok |-> FALSE, cur |-> c, val |-> <<>>]
  ELSE LET L == d[c + 1] IN
    IF L < 128
    THEN IF Rem(d, c) < 1 + L THEN [ok |-> FALSE, cur |-> c, val |-> <<>>]
         ELSE LET raw == SubSeqFrom(d, c + 2, c + 1 + L)
                  Z   == {i \in 1 .. Len(raw) : raw[i] = 0}
                  p   == IF Z = {} THEN Len(raw) + 1 ELSE CHOOSE i \in Z : \A j \in Z : i <= j
                  txt == SubSeqFrom(raw, 1, p - 1)
              IN  [ok |-> TRUE, cur |-> c + 1 + L,
                   val |-> [i \in 1 .. Len(StripCodes(txt)) |-> IF StripCodes(txt)[i] > 127 THEN 65533 ELSE StripCodes(txt)[i]]]
    ELSE LET n     == 2 * (L - 128)
             stray == Rem(d, c) >= 2 /\ d[c + 2] = 1
             st    == c + 1 + (IF stray THEN 1 ELSE 0)
         IN  IF st + n > Len(d) THEN [ok |-> FALSE, cur |-> c, val |-> <<>>]
             ELSE LET us == [i \in 1 .. (L - 128) |-> <<d[st + 2 * i], d[st + 2 * i - 1]>>]      \* <<high, low>> of a little-endian unit
                  IN  IF ~Utf16Ok(us) THEN [ok |-> FALSE, cur |-> c, val |-> <<>>]
                      ELSE [ok |-> TRUE, cur |-> st + n,
                            val |-> TrimNul(StripCodes([i \in 1 .. Len(us) |-> us[i][1] * 256 + us[i][2]]))]

Chunk(d, c, n) ==
  IF c + n > Len(d) THEN [ok |-> FALSE, cur |-> c, val |-> <<>>]
  ELSE [ok |-> TRUE, cur |-> c + n, val |-> SubSeqFrom(d, c + 1, c + n)]

-----------------------------------------------------------------------------
Ops == {[op |-> "u8"], [op |-> "u16"], [op |-> "u32"], [op |-> "u64"], [op |-> "lpstr"],
        [op |-> "remaining"]}
       \cup {[op |-> "move", k |-> k] : k \in MoveOffsets}
       \cup {[op |-> "cstr", dl |-> dl] : dl \in Delims}
       \cup {[op |-> "utf16", o |-> o] : o \in {"LE", "BE"}}
       \cup {[op |-> "chunk", n |-> n] : n \in ChunkSizes}

Width(op) == CASE op = "u8" -> 1 [] op = "u16" -> 2 [] op = "u32" -> 4 [] op = "u64" -> 8

\* the set of results the contract allows for operation o in state (d, c, ord)
Results(d, c, ord, o) ==
  CASE o.op \in {"u8", "u16", "u32", "u64"} -> {Fixed(d, c, ord, Width(o.op))}
    [] o.op = "move"      -> {MoveTo(d, c, o.k)}
    [] o.op = "cstr"      -> {CStr(d, c, o.dl)}
    [] o.op = "lpstr"     -> {LpStr(d, c)}
    [] o.op = "utf16"     -> U16Str(d, c, o.o)
    [] o.op = "chunk"     -> {Chunk(d, c, o.n)}
    [] o.op = "u2str"     -> {U2Str(d, c)}
    [] o.op = "remaining" -> {[ok |-> TRUE, cur |-> c, val |-> <<Rem(d, c)>>]}

InDomain(d, c, o) == o.op = "lpstr" => LpDomain(d, c)

-----------------------------------------------------------------------------
Packets == UNION {[1 .. n -> Alphabet] : n \in 0 .. MaxLen}

Init == /\ data \in Packets
        /\ order \in Orders
        /\ cursor = 0

Do(o) == /\ InDomain(data, cursor, o)
         /\ \E r \in Results(data, cursor, order, o) :
              /\ cursor' = r.cur
              /\ Emit => PrintT(<<"TRANSITION", ToJson([d |-> data, c |-> cursor, ord |-> order, o |-> o,
                                                        rs |-> Results(data, cursor, order, o)])>>)
         /\ UNCHANGED <<data, order>>

Next == \E o \in Ops : Do(o)

Spec == Init /\ [][Next]_vars

-----------------------------------------------------------------------------
(* Properties.  The reference functions above are the oracle for the       *)
(* implementation; the invariants below check that the oracle itself has   *)
(* the properties C17 states, in every reachable state and for every       *)
(* operation (so an oracle edited into allowing an escape is caught here). *)
TypeOK == /\ data \in Seq(Byte) /\ cursor \in Nat /\ order \in {"LE", "BE"}

CursorInBounds == 0 <= cursor /\ cursor <= Len(data)

ForAllResults(P(_, _)) == \A o \in Ops : \A r \in Results(data, cursor, order, o) : P(o, r)

\* a failed operation leaves the position unchanged; every result stays inside the packet
FailedLeavesCursor == LET P(o, r) == ~r.ok => r.cur = cursor IN ForAllResults(P)
ResultsInBounds    == LET P(o, r) == 0 <= r.cur /\ r.cur <= Len(data) IN ForAllResults(P)

\* a successful fixed-width read advances by exactly its width and yields exactly the bytes there
FixedAdvancesByWidth ==
  LET P(o, r) ==
    (o.op \in {"u8", "u16", "u32", "u64"} /\ r.ok)
      => /\ r.cur = cursor + Width(o.op)
         /\ LET slice == SubSeqFrom(data, cursor + 1, cursor + Width(o.op))
            IN  r.val = IF order = "LE" THEN Rev(slice) ELSE slice
  IN ForAllResults(P)

\* a string read consumes string + delimiter, or the rest of the packet if unterminated,
\* and its value is a slice of the packet starting at the cursor
StringConsumes ==
  LET P(o, r) ==
    (o.op = "cstr" /\ r.ok)
      => /\ r.val = SubSeqFrom(data, cursor + 1, cursor + Len(r.val))
         /\ \A i \in 1 .. Len(r.val) : r.val[i] # o.dl
         /\ \/ r.cur = Len(data) /\ Len(r.val) = Len(data) - cursor
            \/ r.cur = cursor + Len(r.val) + 1 /\ data[r.cur] = o.dl
  IN ForAllResults(P)


\* the Unreal 2 string read consumes exactly the bytes its length byte announces (plus the uncounted stray 01)
U2Consumes ==
  LET P(o, r) ==
    (o.op = "u2str" /\ r.ok)
      => LET L == data[cursor + 1] IN
           IF L < 128 THEN r.cur = cursor + 1 + L
           ELSE r.cur \in {cursor + 1 + 2 * (L - 128), cursor + 2 + 2 * (L - 128)}
  IN ForAllResults(P)
=============================================================================
