-------------------------- MODULE Trace_Reassembly --------------------------
(***************************************************************************)
(* Trace validation of recorded multi-datagram exchanges against           *)
(* Reassembly.tla (C08).  A random driver delivers the fragments of a      *)
(* response in a random order, with up to two duplicated fragments and     *)
(* possibly one fragment that never arrives (more fragments and more       *)
(* faults than the exhaustive configurations), and logs what the REAL      *)
(* client consumed:                                                        *)
(*  {"ev":"Call","ix":n,"mode":m,"k":k,"comp":b}                           *)
(*  {"ev":"Deliver","i":i}    the client received fragment number i        *)
(*  {"ev":"Silence"}          a receive of the client timed out            *)
(*  {"ev":"Return","res":"same"|"differs"|"error"}  the result compared    *)
(*                            with the in-order delivery of the same set   *)
(* A step is accepted only if Reassembly.tla allows it: success only once  *)
(* every fragment (and, for a compressed reply, the header of fragment 0)  *)
(* has been consumed; an error only after a duplicate or a silence;        *)
(* a success that differs from the in-order result is never a step.        *)
(***************************************************************************)
EXTENDS Reassembly, IOUtils, TLCExt

Rec == ndJsonDeserialize(IOEnv.TRACE)
VARIABLES l, idle, starved
tvars == <<vars, l, idle, starved>>
Ev(e) == l <= Len(Rec) /\ Rec[l].ev = e

TraceInit == /\ l = 1 /\ idle = TRUE /\ starved = FALSE
             /\ k = 2 /\ mode = "all" /\ comp = FALSE /\ hdr = "none" /\ delivered = <<>> /\ dupUsed = FALSE
             /\ have = {} /\ knownTotal = 0 /\ sawDup = FALSE /\ result = "pending"

TCall == /\ Ev("Call") /\ idle
         /\ k' = Rec[l].k /\ mode' = Rec[l].mode /\ comp' = Rec[l].comp
         /\ hdr' = "none" /\ delivered' = <<>> /\ dupUsed' = FALSE /\ have' = {} /\ knownTotal' = 0 /\ sawDup' = FALSE
         /\ result' = "pending" /\ starved' = FALSE /\ idle' = FALSE /\ l' = l + 1

\* the environment of the trace may duplicate more than once: Consume is the model's client step
TDeliver == /\ Ev("Deliver") /\ ~idle /\ result = "pending"
            /\ Rec[l].i \in Frags
            /\ delivered' = Append(delivered, Rec[l].i) /\ Consume(Rec[l].i)
            /\ UNCHANGED <<k, mode, comp, dupUsed, result, idle, starved>> /\ l' = l + 1

TSilence == /\ Ev("Silence") /\ ~idle /\ result = "pending"
            /\ starved' = TRUE /\ UNCHANGED <<vars, idle>> /\ l' = l + 1

Complete2 == IF mode = "none" THEN have = Frags ELSE (knownTotal = k /\ have = Frags /\ (comp => hdr = "frag0"))
TReturn == /\ Ev("Return") /\ ~idle /\ result = "pending"
           /\ \/ Rec[l].res = "same" /\ Complete2 /\ result' = "same-as-in-order"
              \/ Rec[l].res = "error" /\ (sawDup \/ starved) /\ result' = "error"
           /\ idle' = TRUE /\ UNCHANGED <<k, mode, comp, hdr, delivered, dupUsed, have, knownTotal, sawDup, starved>> /\ l' = l + 1

TraceNext == TCall \/ TDeliver \/ TSilence \/ TReturn
TraceSpec == TraceInit /\ [][TraceNext]_tvars

TOrderIndependent == OrderIndependent
THeaderFromFragmentZero == HeaderFromFragmentZero
TNeverEarly == NeverEarly

TraceAccepted ==
  LET d == TLCGet("stats").diameter
  IN  IF d - 1 = Len(Rec) THEN PrintT(<<"TRACE_ACCEPTED", Len(Rec)>>)
      ELSE PrintT(<<"TRACE_REJECTED at", d, Rec[d]>>)
=============================================================================
