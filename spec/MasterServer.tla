---------------------------- MODULE MasterServer ----------------------------
(***************************************************************************)
(* C16: Valve master-server filters and paging.                            *)
(*                                                                         *)
(* Filters.  The caller builds a filter set with three insertion methods   *)
(* (plain, NAND, NOR).  Each group holds at most one filter per kind: a    *)
(* later filter of the same kind replaces the earlier one.  The request is *)
(*   31, region byte, "ip:port" 00, filter string 00                       *)
(* and the filter string is a sequence of \key\value pairs in which        *)
(* \nand\N and \nor\N announce that the N pairs that follow form that      *)
(* group (Master Server Query Protocol).                                   *)
(*                                                                         *)
(* Paging.  A complete query sends the seed 0.0.0.0:0, collects the        *)
(* addresses of each page, seeds the next request with the last address of *)
(* the page, and stops at the terminator 0.0.0.0:0, which is not returned. *)
(***************************************************************************)
(* The service object keeps no request state between calls: the request of  *)
(* a call encodes that call's region, seed and filters whatever the object  *)
(* was used for before.  Preludes lists the earlier uses the replay puts in *)
(* front of the checked call (a complete query with other filters that      *)
(* succeeded / failed on its second page / met a malformed first page /     *)
(* timed out).                                                              *)
(***************************************************************************)
EXTENDS Naturals, Sequences, FiniteSets, TLC, Json

Preludes == {"none", "succeeds", "fails_page2", "malformed_first", "times_out"}
CONSTANTS MaxInserts, Vals, MaxPages, PageLens, Emit, Mode   \* Mode: "filters" | "paging" | "bulk"

Groups == {"plain", "nand", "nor"}
\* kind -> wire key and value type
KindTable ==
  [IsSecured |-> [key |-> "secure", ty |-> "bool"], RunsMap |-> [key |-> "map", ty |-> "str"],
   CanHavePassword |-> [key |-> "password", ty |-> "bool"], CanBeEmpty |-> [key |-> "empty", ty |-> "bool"],
   IsEmpty |-> [key |-> "noplayers", ty |-> "bool"], CanBeFull |-> [key |-> "full", ty |-> "bool"],
   RunsAppID |-> [key |-> "appid", ty |-> "u32"], NotAppID |-> [key |-> "napp", ty |-> "u32"],
   HasTags |-> [key |-> "gametype", ty |-> "tags"], MatchName |-> [key |-> "name_match", ty |-> "str"],
   MatchVersion |-> [key |-> "version_match", ty |-> "str"], RestrictUniqueIP |-> [key |-> "collapse_addr_hash", ty |-> "bool"],
   OnAddress |-> [key |-> "gameaddr", ty |-> "str"], Whitelisted |-> [key |-> "white", ty |-> "bool"],
   SpectatorProxy |-> [key |-> "proxy", ty |-> "bool"], IsDedicated |-> [key |-> "dedicated", ty |-> "bool"],
   RunsLinux |-> [key |-> "linux", ty |-> "bool"], HasGameDir |-> [key |-> "gamedir", ty |-> "str"]]
Kinds == DOMAIN KindTable
\* region byte of the request
RegionTable == [UsEast |-> 0, UsWest |-> 1, AmericaSouth |-> 2, Europe |-> 3, Asia |-> 4, Australia |-> 5, MiddleEast |-> 6,
                Africa |-> 7, Others |-> 255]

VARIABLES filters,   \* [group -> [kind -> value or 0]]      0 = absent
          inserts,   \* the insertion history <<[g, k, v]>>
          pages,     \* paging: the page lengths the server will serve (last one carries the terminator)
          served,    \* paging: pages served so far
          seeds,     \* paging: seed of every request sent: 0 = "0.0.0.0:0", i = last address of page i
          collected, \* paging: number of addresses collected per page
          finished
vars == <<filters, inserts, pages, served, seeds, collected, finished>>

Empty == [g \in Groups |-> [k \in Kinds |-> 0]]

\* "bulk": large groups (the exhaustive insertion sequences stay short): the first n kinds, in a fixed order, all inserted
\* into one group - and optionally the same into a second group - so that group sizes reach two digits
KindSeq == <<"IsSecured", "RunsMap", "CanHavePassword", "CanBeEmpty", "IsEmpty", "CanBeFull", "RunsAppID", "NotAppID", "HasTags",
             "MatchName", "MatchVersion", "RestrictUniqueIP", "OnAddress", "Whitelisted", "SpectatorProxy", "IsDedicated",
             "RunsLinux", "HasGameDir">>
BulkSizes == {9, 10, 11, 18}
BulkSeq(g, n) == [i \in 1 .. n |-> [g |-> g, k |-> KindSeq[i], v |-> 1]]
BulkCases == {BulkSeq(g, n) : g \in Groups, n \in BulkSizes}
             \cup {BulkSeq(g1, n) \o BulkSeq(g2, m) : g1 \in {"nand"}, g2 \in {"nor"}, n \in {10, 18}, m \in {9, 12}}
FiltersOf(ins) == [g \in Groups |-> [k \in Kinds |->
                     IF \E i \in 1 .. Len(ins) : ins[i].g = g /\ ins[i].k = k THEN 1 ELSE 0]]

Init == /\ served = 0 /\ seeds = <<>> /\ collected = <<>> /\ finished = FALSE
        /\ IF Mode = "bulk" THEN inserts \in BulkCases /\ filters = FiltersOf(inserts)
                            ELSE filters = Empty /\ inserts = <<>>
        /\ pages \in (IF Mode = "paging"
                      THEN UNION {[1 .. n -> PageLens] : n \in 1 .. MaxPages}
                      ELSE {<<>>})

\* ---- filters ---------------------------------------------------------------------------------
Insert(g, k, v) ==
  /\ Mode = "filters" /\ ~finished /\ Len(inserts) < MaxInserts
  /\ filters' = [filters EXCEPT ![g][k] = v]            \* replaces an earlier filter of the same kind in that group
  /\ inserts' = Append(inserts, [g |-> g, k |-> k, v |-> v])
  /\ UNCHANGED <<pages, served, seeds, collected, finished>>

Build == /\ Mode \in {"filters", "bulk"} /\ ~finished /\ finished' = TRUE
         /\ UNCHANGED <<filters, inserts, pages, served, seeds, collected>>

\* what the request must denote: per group the set of (kind, value) pairs
Denotes == [g \in Groups |-> {<<k, filters[g][k]>> : k \in {kk \in Kinds : filters[g][kk] # 0}}]

\* ---- paging ------------------------------------------------------------------------------------
\* a non-final page has at least one address (otherwise the seed could not advance)
PagesOk == \A i \in 1 .. Len(pages) - 1 : pages[i] >= 1

SendPage == /\ Mode = "paging" /\ ~finished /\ PagesOk /\ served < Len(pages) /\ Len(seeds) = served
            /\ seeds' = Append(seeds, served)          \* seed = last address of the previous page (0 for the first)
            /\ UNCHANGED <<filters, inserts, pages, served, collected, finished>>
RecvPage == /\ Mode = "paging" /\ ~finished /\ Len(seeds) = served + 1
            /\ served' = served + 1
            /\ collected' = Append(collected, pages[served + 1])
            /\ finished' = (served + 1 = Len(pages))    \* the page that ends with the terminator is the last one
            /\ UNCHANGED <<filters, inserts, pages, seeds>>

Next == (\E g \in Groups, k \in Kinds, v \in Vals : Insert(g, k, v)) \/ Build \/ SendPage \/ RecvPage
Spec == Init /\ [][Next]_vars

\* ---- properties ---------------------------------------------------------------------------------
\* a later filter of the same kind in the same group wins; groups never mix
LastWins == \A g \in Groups, k \in Kinds :
              LET idx == {i \in 1 .. Len(inserts) : inserts[i].g = g /\ inserts[i].k = k}
              IN  IF idx = {} THEN filters[g][k] = 0
                  ELSE filters[g][k] = inserts[CHOOSE i \in idx : \A j \in idx : j <= i].v
SeedChains == \A i \in 1 .. Len(seeds) : seeds[i] = i - 1
StopsAtTerminator == finished /\ Mode = "paging" => (Len(seeds) = Len(pages) /\ served = Len(pages))
AllAddresses == finished /\ Mode = "paging" => collected = pages

Export ==
  (finished /\ Emit) =>
    PrintT(<<"BEHAVIOUR", ToJson(IF Mode \in {"filters", "bulk"}
                                  THEN [mode |-> "filters", inserts |-> inserts, regions |-> RegionTable,
                                        denotes |-> [g \in Groups |-> {[k |-> p[1], key |-> KindTable[p[1]].key, ty |-> KindTable[p[1]].ty, v |-> p[2]] : p \in Denotes[g]}]]
                                  ELSE [mode |-> "paging", pages |-> pages, seeds |-> seeds])>>)
=============================================================================
