SPECIFICATION Spec
CONSTANTS
  Ks <- K234
  Modes <- AllModes
  AllowDup = TRUE
  Emit = TRUE
INVARIANTS Export
CHECK_DEADLOCK FALSE
