------------------------------ MODULE IdRules ------------------------------
(***************************************************************************)
(* C20: the game-id naming checker is total and self-consistent.           *)
(*                                                                         *)
(* Names are token sequences of the documented grammar (CONTRIBUTING.md,   *)
(* "Naming"): words, acronyms, roman numerals, numbers in leading / inner  *)
(* / trailing position, hyphenated words, number ranges, a bracketed year  *)
(* or edition at the end, and an optional " - Mod" suffix.                 *)
(* TLC enumerates every token-kind sequence (the *shape* of a name); the   *)
(* harness fills the tokens with random words and drives the real checker. *)
(*                                                                         *)
(* The checker is a machine over the set of ids seen so far.  For a single *)
(* game (fresh machine) let R(name) be the expected ids it reports when a  *)
(* wrong id is proposed.  Property: Propose(id, name) is accepted exactly  *)
(* when id is in R(name), whichever wrong id was proposed first.           *)
(***************************************************************************)
EXTENDS Naturals, Sequences, FiniteSets, TLC, Json

CONSTANTS MaxTokens, Emit

\* token kinds
\* "alnum": a word that mixes digits and letters ("3D", "4x4", "7th", "Quake3") - the documented rules speak of words and
\* numbers; such words occur in game names and the checker splits them where letters and digits meet
Core == {"word", "acronym", "roman", "num", "hyphen", "range", "alnum"}
VARIABLES shape, done
vars == <<shape, done>>

\* a shape: lead number?, core tokens, trailing number?, bracket suffix, mod part
Shapes ==
  [lead : BOOLEAN, core : UNION {[1 .. n -> Core] : n \in 1 .. MaxTokens}, trail : {"none", "num", "year"},
   bracket : {"none", "year", "edition"}, mod : {"none", "word", "twowords"},
   \* mag: the magnitude class of the inner / trailing numbers: "small" (one to four digits) or "wide" (also 0 and the values
   \* around 2^8, 2^15, 2^16, 10^5, 2^31, 2^32, 2^64) - the grammar does not bound a number
   mag : {"small", "wide"}]
\* grammar side conditions: a roman numeral is never the first word; a name has at least one alphabetic token
ShapeOk(s) == /\ s.core[1] # "roman"
              /\ \E i \in 1 .. Len(s.core) : s.core[i] \in {"word", "acronym", "hyphen"}
              /\ (s.lead => s.core[1] \notin {"num", "alnum"})
              /\ (s.mag = "wide" => (s.trail = "num" \/ \E i \in 1 .. Len(s.core) : s.core[i] = "num"))
              /\ (s.trail # "none" => s.core[Len(s.core)] \notin {"num", "range"})
              /\ \A i \in 1 .. Len(s.core) - 1 : ~(s.core[i] \in {"num", "range"} /\ s.core[i + 1] \in {"num", "range"})

Init == shape \in {s \in Shapes : ShapeOk(s)} /\ done = FALSE
Step == /\ ~done /\ done' = TRUE /\ UNCHANGED shape
        /\ Emit => PrintT(<<"SHAPE", ToJson(shape)>>)
Spec == Init /\ [][Step]_vars

HasAlpha == \E i \in 1 .. Len(shape.core) : shape.core[i] \in {"word", "acronym", "hyphen"}
=============================================================================
