SPECIFICATION Spec
CONSTANTS
  Retries <- R012
  Toggles <- AllToggles
  Expects <- AllExpects
  Srvs <- AllSrvs
  Checks = {TRUE, FALSE}
  Reactions <- AllReactions
  MaxRounds = 2
  MaxFaultyUnits = 1
  Emit = FALSE
INVARIANTS TypeOK AttemptsBounded InitialSendsBounded ErrorClassFaithful SendsBounded ChallengeEchoed OnlySectionRequests
  SkipNeverRequested SkipAbsent TryIsolates EnforcePropagates AppIdRule SectionOrder
PROPERTIES RetryOnlyAfterTimeout Termination
CHECK_DEADLOCK FALSE
