SPECIFICATION Spec
CONSTANTS
  MaxTokens = 3
  Emit = TRUE
INVARIANTS HasAlpha
CHECK_DEADLOCK FALSE
