---------------------------- MODULE ProtoLayout ----------------------------
(***************************************************************************)
(* L2 layouts of the GameSpy 1/2/3, Quake 1/2/3, Unreal 2, Minecraft       *)
(* (Java, Bedrock, legacy 1.6 / 1.4 / beta 1.8), Frontlines: Fuel of War,  *)
(* Savage 2, Just Cause 2: Multiplayer and Mindustry replies (C03-C07).    *)
(* Same vocabulary as ValveLayout.tla (LayoutLib.tla).  Sources and        *)
(* confidence tags: DESIGN.md Appendix C.                                  *)
(*                                                                         *)
(* A layout has either `items` (one datagram / one stream) or `packets`    *)
(* (a sequence of item lists, one per datagram, in protocol order).        *)
(***************************************************************************)
EXTENDS LayoutLib, TLC, Json

CONSTANTS Counts,        \* list lengths explored (players, teams, extra variables)
          StrLens,       \* Unreal 2 string lengths explored
          TeamCounts,    \* numbers of teams explored (GameSpy 2 / 3)
          PartCounts,    \* numbers of parts / packets explored (GameSpy 1 / 3)
          Emit

VARIABLES proto, sec, shape, done
vars == <<proto, sec, shape, done>>

\* a key of a key/value format: ASCII, unique in its group, none of the keys the format gives a meaning to
Fkey(f, excl, grp, reserved) == [k |-> "f", f |-> f, ty |-> "atext", min |-> 1, excl |-> excl, uniq |-> grp, reserved |-> reserved]
Fmin(f, ty, excl, min) == [k |-> "f", f |-> f, ty |-> ty, excl |-> excl, min |-> min]
Fopts(f, opts) == [k |-> "f", f |-> f, ty |-> "oneoftext", opts |-> opts]
LenRest(ty) == [k |-> "lenrest", ty |-> ty]
X(n) == Str(n)
NUL == <<0>>
SEC == <<194, 167>>          \* UTF-8 of the section sign used by the legacy Minecraft formats

-----------------------------------------------------------------------------
(* Quake 1 / 2 / 3 status reply *)
QHeader(v) == CASE v = 1 -> "n" [] v = 2 -> "print\n" [] v = 3 -> "statusResponse\n"
\* alt: which spelling of the named variables the server uses: "no" primary, "yes" alternate, "both" (then the primary one names
\* the field - as in the reference implementation - and the alternate one is an ordinary unused variable)
\* big: the length of one extra variable's value - a status reply is ONE datagram whatever its size (D17): 5 000, 20 000 and
\* 60 000 bytes are all legal (the formats have no split mechanism)
BigSizes == {0, 5000, 20000, 60000}
QuakeShapes == [ver : {1, 2, 3}, alt : {"no", "yes", "both"}, version : {"none", "version", "*version", "both"}, extras : {0, 2},
                players : Counts, addr : BOOLEAN, spaces : BOOLEAN, big : BigSizes]
QuakeOk(s) == /\ (s.ver = 1 => ~s.addr) /\ (s.spaces => s.players > 0)
              /\ (s.big > 0 => (s.extras = 2 /\ s.alt = "no" /\ s.version = "version" /\ ~s.addr /\ ~s.spaces))
QuakeKnown == <<"hostname", "sv_hostname", "mapname", "map", "maxclients", "sv_maxclients", "version", "*version">>
\* (Quake strings end at a line feed, not at a NUL: a NUL may occur inside a value - `nulok`)
QKV(key, f, ty) == <<Txt("\\" \o key \o "\\"), [k |-> "f", f |-> f, ty |-> ty, excl |-> "\\\n", nulok |-> TRUE]>>
QPlayer(s, i) ==
  LET x == X(i)
      nameExcl == IF s.spaces THEN "\"\n" ELSE "\" \n"
      nm == [k |-> "f", f |-> "pname" \o x, ty |-> "text", excl |-> nameExcl, min |-> 1, need |-> IF s.spaces THEN " " ELSE ""]
  IN IF s.ver = 1
     THEN <<F("pid" \o x, "dec_u8"), Txt(" "), F("pscore" \o x, "dec_u16"), Txt(" "), F("ptime" \o x, "dec_u16"), Txt(" "),
            F("pping" \o x, "dec_u16"), Txt(" \""), nm, Txt("\" \""), Fx("pskin" \o x, "text", "\" \n"), Txt("\" "),
            F("pc1" \o x, "dec_u8"), Txt(" "), F("pc2" \o x, "dec_u8"), Txt("\n")>>
     ELSE <<F("pscore" \o x, "dec_i32"), Txt(" "), F("pping" \o x, "dec_u16"), Txt(" \""), nm, Txt("\"")>>
          \o If(s.addr, <<Txt(" \""), Fmin("paddr" \o x, "text", "\" \n", 1), Txt("\"")>>) \o <<Txt("\n")>>
QPlayerExpect(s, i) ==
  LET x == X(i) p(fld) == <<"players", i - 1, fld>> IN
  IF s.ver = 1
  THEN <<E(p("id"), "pid" \o x), E(p("score"), "pscore" \o x), E(p("time"), "ptime" \o x), E(p("ping"), "pping" \o x),
         E(p("name"), "pname" \o x), E(p("skin"), "pskin" \o x), E(p("color_primary"), "pc1" \o x), E(p("color_secondary"), "pc2" \o x)>>
  ELSE <<E(p("score"), "pscore" \o x), E(p("ping"), "pping" \o x), E(p("name"), "pname" \o x),
         IF s.addr THEN E(p("address"), "paddr" \o x) ELSE En(p("address"))>>
Quake(s) ==
  [items |-> <<Lit(<<255, 255, 255, 255>>), Txt(QHeader(s.ver))>>
             \o QKV(IF s.alt = "yes" THEN "sv_hostname" ELSE "hostname", "host", "text")
             \o If(s.alt = "both", QKV("sv_hostname", "host2", "text") \o QKV("map", "map2", "text") \o QKV("sv_maxclients", "max2", "dec_u8"))
             \o QKV(IF s.alt = "yes" THEN "map" ELSE "mapname", "map", "text")
             \o Cat([i \in 1 .. s.extras |-> <<Txt("\\"), Fkey("xk" \o X(i), "\\\n", "keys", QuakeKnown), Txt("\\"),
                                              IF i = 1 /\ s.big > 0 THEN [k |-> "f", f |-> "xv" \o X(i), ty |-> "text", excl |-> "\\\n", len |-> s.big]
                                              ELSE Fx("xv" \o X(i), "text", "\\\n")>>])
             \o QKV(IF s.alt = "yes" THEN "sv_maxclients" ELSE "maxclients", "max", "dec_u8")
             \o If(s.version # "none", QKV(IF s.version = "both" THEN "version" ELSE s.version, "version", "text"))
             \o If(s.version = "both", QKV("*version", "version2", "text"))
             \o <<Txt("\n")>>
             \o Cat([i \in 1 .. s.players |-> QPlayer(s, i)]),
   expect |-> <<E(<<"name">>, "host"), E(<<"map">>, "map"), E(<<"players_maximum">>, "max"),
                Ec(<<"players_online">>, s.players),
                IF s.version = "none" THEN En(<<"game_version">>) ELSE E(<<"game_version">>, "version"),
                El(<<"players">>), Eo(<<"unused_entries">>)>>
              \o [i \in 1 .. s.extras |-> Ek(<<"unused_entries">>, "xk" \o X(i), "xv" \o X(i))]
              \o If(s.version = "both", <<E(<<"unused_entries", "*version">>, "version2")>>)
              \o If(s.alt = "both", <<E(<<"unused_entries", "sv_hostname">>, "host2"), E(<<"unused_entries", "map">>, "map2"),
                                      Et(<<"unused_entries", "sv_maxclients">>, "max2", "str")>>)
              \o Cat([i \in 1 .. s.players |-> QPlayerExpect(s, i)]),
   entry |-> "quake" \o X(s.ver)]

-----------------------------------------------------------------------------
(* GameSpy 1: \key\value ... in 1..n parts, each ending \queryid\Q.P and the last one carrying \final\ *)
Gs1Known == <<"hostname", "mapname", "maptitle", "AdminEMail", "AdminName", "admin", "password", "gametype", "gamever",
              "maxplayers", "minplayers", "tournament", "final", "queryid">>
\* admin: which spelling of the administrator's name the server uses: "AdminName" (Unreal Engine's UdpServerQuery), "admin", or
\* "both" - then, as for the Quake spellings above, the primary one (AdminName) names the field and `admin` is one of the "other
\* variables" and stays in the unused entries (D19)
Gs1Shapes == [players : Counts, extras : {0, 2}, opt : BOOLEAN, pname : {"player", "playername"}, parts : PartCounts,
              pw : {"bool", "num"}, admin : {"AdminName", "admin", "both"}]
Gs1Ok(s) == (~s.opt => s.admin = "AdminName")
KV(key, f, ty) == <<Txt("\\" \o key \o "\\"), Fx(f, ty, "\\")>>
Gs1Player(s, i) ==
  LET x == X(i) n == X(i - 1) IN
  <<KV(s.pname \o "_" \o n, "pname" \o x, "text"), KV("frags_" \o n, "pfrags" \o x, "dec_i32"), KV("ping_" \o n, "pping" \o x, "dec_u16")>>
  \o If(s.opt, <<KV("team_" \o n, "pteam" \o x, "dec_u8"), KV("face_" \o n, "pface" \o x, "text"),
                 KV("skin_" \o n, "pskin" \o x, "text"), KV("mesh_" \o n, "pmesh" \o x, "text"),
                 KV("deaths_" \o n, "pdeaths" \o x, "dec_u32"), KV("health_" \o n, "phealth" \o x, "dec_u32"),
                 <<Txt("\\ngsecret_" \o n \o "\\"), Fopts("psecret" \o x, <<"true", "false", "True", "FALSE">>)>>>>)
Gs1PlayerExpect(s, i) ==
  LET x == X(i) p(fld) == <<"players", i - 1, fld>>
      o(fld, src) == IF s.opt THEN E(p(fld), src \o x) ELSE En(p(fld)) IN
  <<E(p("name"), "pname" \o x), E(p("score"), "pfrags" \o x), E(p("ping"), "pping" \o x), o("team", "pteam"),
    o("face", "pface"), o("skin", "pskin"), o("mesh", "pmesh"), o("deaths", "pdeaths"), o("health", "phealth"),
    IF s.opt THEN Et(p("secret"), "psecret" \o x, "truthy") ELSE En(p("secret"))>>
\* the key/value groups of the reply, in the order they are sent (each group stays within one part)
Gs1Groups(s) ==
  <<KV("hostname", "host", "text"), KV("mapname", "map", "text"), KV("gametype", "gametype", "text"),
    KV("gamever", "gamever", "text"), KV("maxplayers", "max", "dec_u32"),
    <<Txt("\\password\\"), IF s.pw = "bool" THEN Fopts("password", <<"true", "false", "True", "False">>)
                                          ELSE Fopts("password", <<"0", "1", "2">>)>>>>
  \o If(s.opt, <<KV("maptitle", "maptitle", "text"), KV("AdminEMail", "email", "text"),
                 KV(IF s.admin = "admin" THEN "admin" ELSE "AdminName", "admin", "text"),
                 KV("minplayers", "min", "dec_u8"), <<Txt("\\tournament\\"), Fopts("tournament", <<"true", "false", "True">>)>>>>)
  \o If(s.opt /\ s.admin = "both", <<KV("admin", "admin2", "text")>>)
  \o [i \in 1 .. s.extras |-> <<Txt("\\"), Fkey("xk" \o X(i), "\\_", "keys", Gs1Known), Txt("\\"), Fx("xv" \o X(i), "text", "\\")>>]
  \o Cat([i \in 1 .. s.players |-> Gs1Player(s, i)])
Gs1(s) ==
  [groups |-> Gs1Groups(s), parts |-> s.parts,
   expect |-> <<E(<<"name">>, "host"), E(<<"map">>, "map"), E(<<"game_mode">>, "gametype"), E(<<"game_version">>, "gamever"),
                E(<<"players_maximum">>, "max"), Et(<<"has_password">>, "password", "truthy"), Ec(<<"players_online">>, s.players)>>
              \o (IF s.opt THEN <<E(<<"map_title">>, "maptitle"), E(<<"admin_contact">>, "email"), E(<<"admin_name">>, "admin"),
                                  E(<<"players_minimum">>, "min"), Et(<<"tournament">>, "tournament", "truthy")>>
                  ELSE <<En(<<"map_title">>), En(<<"admin_contact">>), En(<<"admin_name">>), En(<<"players_minimum">>),
                         Ec(<<"tournament">>, TRUE)>>)
              \o <<El(<<"players">>), Eo(<<"unused_entries">>)>>
              \o If(s.opt /\ s.admin = "both", <<E(<<"unused_entries", "admin">>, "admin2")>>)
              \o [i \in 1 .. s.extras |-> Ek(<<"unused_entries">>, "xk" \o X(i), "xv" \o X(i))]
              \o Cat([i \in 1 .. s.players |-> Gs1PlayerExpect(s, i)]),
   entry |-> "gs1"]

-----------------------------------------------------------------------------
(* GameSpy 2: 00, request id, (key 00 value 00)*, 00, player table, team table *)
Gs2Known == <<"hostname", "mapname", "password", "maxplayers", "minplayers", "numplayers">>
Gs2Shapes == [players : Counts, teams : TeamCounts \cup {1}, extras : {0, 2}, min : BOOLEAN, num : {"absent", "equal", "more", "less"},
              big : {0, 5000, 20000, 60000}]
Gs2Ok(s) == (s.num = "less" => s.players > 0) /\ (s.big > 0 => (s.extras = 2 /\ ~s.min /\ s.num = "absent"))
Z(f, ty) == <<F(f, ty)>>
KVZ(key, f, ty) == <<Txt(key), Lit(NUL), Fx(f, ty, ""), Lit(NUL)>>
Reported(s) == CASE s.num = "equal" -> s.players [] s.num = "more" -> s.players + 3 [] s.num = "less" -> s.players - 1 [] OTHER -> 0
Online(s) == IF s.num = "more" THEN s.players + 3 ELSE s.players
Gs2(s) ==
  [items |-> <<Lit(<<0, 0, 0, 0, 1>>)>>
             \o KVZ("hostname", "host", "text") \o KVZ("mapname", "map", "text")
             \o <<Txt("password"), Lit(NUL), Fopts("password", <<"0", "1">>), Lit(NUL)>>
             \o KVZ("maxplayers", "max", "dec_u32")
             \o If(s.min, KVZ("minplayers", "min", "dec_u32"))
             \o If(s.num # "absent", <<Txt("numplayers"), Lit(NUL), Txt(Str(Reported(s))), Lit(NUL)>>)
             \o Cat([i \in 1 .. s.extras |-> <<Fkey("xk" \o X(i), "", "keys", Gs2Known), Lit(NUL),
                                              IF i = 1 /\ s.big > 0 THEN [k |-> "f", f |-> "xv" \o X(i), ty |-> "text", excl |-> "", len |-> s.big]
                                              ELSE Fx("xv" \o X(i), "text", ""), Lit(NUL)>>])
             \o <<Lit(NUL)>>                                     \* end of the variables
             \o <<Lit(<<0, s.players>>)>>
             \o If(s.players > 0, <<Txt("player_"), Lit(NUL), Txt("score_"), Lit(NUL), Txt("ping_"), Lit(NUL), Txt("team_"), Lit(NUL), Lit(NUL)>>)
             \o Cat([i \in 1 .. s.players |-> <<Fx("pname" \o X(i), "text", ""), Lit(NUL), F("pscore" \o X(i), "dec_u16"), Lit(NUL),
                                                F("pping" \o X(i), "dec_u16"), Lit(NUL), F("pteam" \o X(i), "dec_u16"), Lit(NUL)>>])
             \o <<Lit(<<0, s.teams>>)>>
             \o If(s.teams > 0, <<Txt("team_t"), Lit(NUL), Txt("score_t"), Lit(NUL), Lit(NUL)>>)
             \o Cat([i \in 1 .. s.teams |-> <<Fx("tname" \o X(i), "text", ""), Lit(NUL), F("tscore" \o X(i), "dec_u16"), Lit(NUL)>>]),
   expect |-> <<E(<<"name">>, "host"), E(<<"map">>, "map"), Et(<<"has_password">>, "password", "is1"), E(<<"players_maximum">>, "max"),
                IF s.min THEN E(<<"players_minimum">>, "min") ELSE En(<<"players_minimum">>),
                Ec(<<"players_online">>, Online(s)), El(<<"players">>), El(<<"teams">>), Eo(<<"unused_entries">>)>>
              \o [i \in 1 .. s.extras |-> Ek(<<"unused_entries">>, "xk" \o X(i), "xv" \o X(i))]
              \o Cat([i \in 1 .. s.players |-> <<E(<<"players", i - 1, "name">>, "pname" \o X(i)), E(<<"players", i - 1, "score">>, "pscore" \o X(i)),
                                                 E(<<"players", i - 1, "ping">>, "pping" \o X(i)), E(<<"players", i - 1, "team_index">>, "pteam" \o X(i))>>])
              \o Cat([i \in 1 .. s.teams |-> <<E(<<"teams", i - 1, "name">>, "tname" \o X(i)), E(<<"teams", i - 1, "score">>, "tscore" \o X(i))>>]),
   entry |-> "gs2"]

-----------------------------------------------------------------------------
(* GameSpy 3: 00, session id, "splitnum" 00, packet id (bit 7 = last), one byte, data.                *)
(* data of the first packet: (key 00 value 00)* 00; then section 01 = player fields, 02 = team        *)
(* fields; a field is: name 00, index of the first value, values 00 ..., 00.                          *)
Gs3Known == <<"hostname", "mapname", "password", "gametype", "gamever", "maxplayers", "minplayers", "numplayers", "tournament">>
\* tsplit: the teams section travels in a packet of its own (the reply is cut exactly between the player and the team section)
Gs3Shapes == [players : Counts, teams : TeamCounts, extras : {0, 2}, opt : BOOLEAN, num : {"absent", "equal", "more", "less", "zero"},
              packets : PartCounts, tsplit : BOOLEAN]
\* packets that carry player entries
PP(s) == IF s.tsplit THEN s.packets - 1 ELSE s.packets
\* every packet carries something: a server does not send empty packets; reporting fewer players than listed needs a listed player
Gs3Ok(s) == /\ (s.tsplit => (s.packets > 1 /\ s.teams > 0))
            /\ (s.packets > 1 => s.players >= PP(s)) /\ (s.num \in {"less", "zero"} => s.players >= 1)
\* reported-vs-listed override (GameSpy 3, JC2M): players_online = max(reported, listed)
Reported3(s) == CASE s.num = "more" -> s.players + 3 [] s.num = "less" -> s.players - 1 [] s.num = "zero" -> 0 [] OTHER -> s.players
OnlineMax(s) == IF Reported3(s) > s.players THEN Reported3(s) ELSE s.players
PlayerFields == <<<<"player_", "pname", "text">>, <<"score_", "pscore", "dec_i32">>, <<"ping_", "pping", "dec_u16">>,
                  <<"team_", "pteam", "dec_u8">>, <<"deaths_", "pdeaths", "dec_u32">>, <<"pid_", "ppid", "dec_u32">>,
                  <<"skill_", "pskill", "dec_u32">>>>
TeamFields == <<<<"team_t", "tname", "text">>, <<"score_t", "tscore", "dec_i32">>>>
\* one field with the values of entries from..to (1-based), announcing index from-1
Field(fd, from, to) ==
  <<Txt(fd[1]), Lit(NUL), Lit(<<from - 1>>)>>
  \o Cat([j \in 1 .. (to - from + 1) |-> <<Fmin(fd[2] \o X(from + j - 1), fd[3], "", 1), Lit(NUL)>>]) \o <<Lit(NUL)>>
Gs3Vars(s) ==
  KVZ("hostname", "host", "text") \o KVZ("mapname", "map", "text") \o KVZ("gametype", "gametype", "text")
  \o KVZ("gamever", "gamever", "text") \o KVZ("maxplayers", "max", "dec_u32")
  \o <<Txt("password"), Lit(NUL), Fopts("password", <<"0", "1", "true", "False">>), Lit(NUL)>>
  \o If(s.opt, KVZ("minplayers", "min", "dec_u8") \o <<Txt("tournament"), Lit(NUL), Fopts("tournament", <<"true", "false", "True">>), Lit(NUL)>>)
  \o If(s.num # "absent", <<Txt("numplayers"), Lit(NUL), Txt(Str(Reported3(s))), Lit(NUL)>>)
  \o Cat([i \in 1 .. s.extras |-> <<Fkey("xk" \o X(i), "", "keys", Gs3Known), Lit(NUL), Fmin("xv" \o X(i), "text", "", 0), Lit(NUL)>>])
  \o <<Lit(NUL)>>
\* the byte after the packet id names the section the packet's data starts with (0 variables, 1 players, 2 teams); a section
\* that starts inside a packet is introduced by its number in the data
Gs3Head(id, last, first) == <<Lit(<<0, 0, 0, 0, 1>>), Txt("splitnum"), Lit(NUL), Lit(<<id + (IF last THEN 128 ELSE 0)>>), Lit(<<first>>)>>
\* players are dealt over the packets that carry players in index order: packet j carries entries Lo(j)..Hi(j) of every player field
Lo(s, j) == ((j - 1) * s.players) \div PP(s) + 1
Hi(s, j) == (j * s.players) \div PP(s)
Gs3Packet(s, j) ==
  LET hasPl == j <= PP(s) /\ s.players > 0 /\ Lo(s, j) <= Hi(s, j)
      hasTm == j = s.packets /\ s.teams > 0
      first == IF j = 1 THEN 0 ELSE IF hasPl THEN 1 ELSE 2
  IN Gs3Head(j - 1, j = s.packets, first)
     \o If(j = 1, Gs3Vars(s))
     \o If(hasPl, If(j = 1, <<Lit(<<1>>)>>) \o Cat([f \in 1 .. Len(PlayerFields) |-> Field(PlayerFields[f], Lo(s, j), Hi(s, j))]) \o <<Lit(NUL)>>)
     \o If(hasTm, If(j = 1 \/ hasPl, <<Lit(<<2>>)>>) \o Cat([f \in 1 .. Len(TeamFields) |-> Field(TeamFields[f], 1, s.teams)]) \o <<Lit(NUL)>>)
Gs3(s) ==
  [packets |-> [j \in 1 .. s.packets |-> Gs3Packet(s, j)],
   expect |-> <<E(<<"name">>, "host"), E(<<"map">>, "map"), E(<<"game_mode">>, "gametype"), E(<<"game_version">>, "gamever"),
                E(<<"players_maximum">>, "max"), Et(<<"has_password">>, "password", "truthy"),
                Ec(<<"players_online">>, OnlineMax(s))>>
              \o (IF s.opt THEN <<E(<<"players_minimum">>, "min"), Et(<<"tournament">>, "tournament", "truthy")>>
                  ELSE <<En(<<"players_minimum">>), Ec(<<"tournament">>, TRUE)>>)
              \o <<El(<<"players">>), El(<<"teams">>), Eo(<<"unused_entries">>)>>
              \o [i \in 1 .. s.extras |-> Ek(<<"unused_entries">>, "xk" \o X(i), "xv" \o X(i))]
              \o Cat([i \in 1 .. s.players |->
                       <<E(<<"players", i - 1, "name">>, "pname" \o X(i)), E(<<"players", i - 1, "score">>, "pscore" \o X(i)),
                         E(<<"players", i - 1, "ping">>, "pping" \o X(i)), E(<<"players", i - 1, "team">>, "pteam" \o X(i)),
                         E(<<"players", i - 1, "deaths">>, "pdeaths" \o X(i)), E(<<"players", i - 1, "skill">>, "pskill" \o X(i))>>])
              \o Cat([i \in 1 .. s.teams |-> <<E(<<"teams", i - 1, "name">>, "tname" \o X(i)), E(<<"teams", i - 1, "score">>, "tscore" \o X(i))>>]),
   \* the raw-variables query returns exactly the key/value pairs sent
   vars |-> <<"hostname", "host">>,
   entry |-> "gs3"]

-----------------------------------------------------------------------------
(* Just Cause 2: Multiplayer = GameSpy 3 single packet: 11 bytes skipped, variables, u16be count, (name, steam id, ping u16be)* *)
\* reported-vs-listed override: players_online = max(reported, listed) (`less` / `zero`: the server reports fewer than it lists)
Jc2mShapes == {s \in [players : Counts, num : {"absent", "equal", "more", "less", "zero"}] : s.num \in {"less", "zero"} => s.players >= 1}
Jc2m(s) ==
  [items |-> <<Lit(<<0, 0, 0, 0, 1>>), Skip(11)>>
             \o KVZ("hostname", "host", "text") \o KVZ("version", "version", "text") \o KVZ("description", "desc", "text")
             \o KVZ("maxplayers", "max", "dec_u32")
             \o <<Txt("password"), Lit(NUL), Fopts("password", <<"0", "1", "true", "false">>), Lit(NUL)>>
             \o If(s.num # "absent", <<Txt("numplayers"), Lit(NUL), Txt(Str(Reported3(s))), Lit(NUL)>>)
             \o <<Lit(NUL), Lit(U16be(s.players))>>
             \o Cat([i \in 1 .. s.players |-> <<Fx("pname" \o X(i), "text", ""), Lit(NUL), Fx("psteam" \o X(i), "text", ""), Lit(NUL), F("pping" \o X(i), "u16be")>>]),
   expect |-> <<E(<<"name">>, "host"), E(<<"game_version">>, "version"), E(<<"description">>, "desc"), E(<<"players_maximum">>, "max"),
                Et(<<"has_password">>, "password", "truthy"),
                Ec(<<"players_online">>, OnlineMax(s)), El(<<"players">>)>>
              \o Cat([i \in 1 .. s.players |-> <<E(<<"players", i - 1, "name">>, "pname" \o X(i)), E(<<"players", i - 1, "steam_id">>, "psteam" \o X(i)),
                                                 E(<<"players", i - 1, "ping">>, "pping" \o X(i))>>]),
   entry |-> "jc2m"]

-----------------------------------------------------------------------------
(* Unreal 2: 4 header bytes, reply kind, then the section.  String = length byte L, then L < 0x80: L bytes of      *)
(* Latin-1 including the terminating NUL; L >= 0x80: (L - 0x80) UCS-2LE units including the terminator.            *)
(* Colour escape = 1B r g b; control characters 01..1A are dropped; nothing else is.                               *)
(* atoms of a string: "ch" ordinary character, "esc" colour escape, "ctl" control character                        *)
AtomSeqs(n) == IF n = 0 THEN {<<>>}
               ELSE {[i \in 1 .. n |-> "ch"]}
                    \cup {[i \in 1 .. n |-> IF i = 1 THEN "esc" ELSE "ch"], [i \in 1 .. n |-> IF i = n THEN "esc" ELSE "ch"],
                          [i \in 1 .. n |-> IF i = (n + 1) \div 2 THEN "ctl" ELSE "ch"]}
                    \cup (IF n >= 3 THEN {[i \in 1 .. n |-> IF i \in {2, 3} THEN "esc" ELSE "ch"]} ELSE {})
\* "ucs2stray": a UCS-2 string with the uncounted 01 byte some games put after the length byte (D9)
U2StrShapes == UNION {[len : {n}, enc : {"latin1", "ucs2", "ucs2stray"}, atoms : AtomSeqs(n)] : n \in StrLens}
Ustr(f, enc, atoms) == [k |-> "f", f |-> f, ty |-> "ustr", enc |-> enc, atoms |-> atoms]
UstrPlain(f) == [k |-> "f", f |-> f, ty |-> "ustr", enc |-> "any", atoms |-> <<>>]   \* harness picks length, encoding, plain characters
U2Head(kind) == <<Lit(<<128, 0, 0, 0, kind>>)>>
U2InfoItems(nameItem, numItem) ==
  U2Head(0) \o <<F("serverid", "u32le"), UstrPlain("ip"), F("gameport", "u32le"), F("queryport", "u32le"), nameItem,
                 UstrPlain("map"), UstrPlain("gametype"), numItem, F("maxplayers", "u32le")>>
U2InfoExpect ==
  <<E(<<"server_info", "server_id">>, "serverid"), E(<<"server_info", "ip">>, "ip"), E(<<"server_info", "game_port">>, "gameport"),
    E(<<"server_info", "query_port">>, "queryport"), E(<<"server_info", "name">>, "name"), E(<<"server_info", "map">>, "map"),
    E(<<"server_info", "game_type">>, "gametype"), E(<<"server_info", "max_players">>, "maxplayers")>>
\* the string sweep: the server name takes every (length, encoding, atom pattern)
U2Str(s) == [items |-> U2InfoItems(Ustr("name", s.enc, s.atoms), F("numplayers", "u32le")),
             expect |-> U2InfoExpect \o <<E(<<"server_info", "num_players">>, "numplayers")>>, entry |-> "unreal2", section |-> "info"]
\* lists
\* num: what the player count of the server-info reply counts: "all" listed entries, or the "humans" only (a server whose count
\* leaves the bots out; its players reply then fits one datagram - the count is all a client has to know when to stop reading)
\* repeat: a rule key sent a second time with another value ("other") or with the SAME value again ("same": both count)
U2ListShapes == [rules : Counts, repeat : {"no", "other", "same"}, mutators : {0, 2}, players : Counts, bots : {0, 1}, datagrams : 1 .. 3, pw : {"none", "true", "false"},
                 num : {"all", "humans"}]
U2ListOk(s) == (s.repeat # "no" => s.rules > 0) /\ (s.num = "humans" => (s.bots > 0 /\ s.players <= 3))
U2Reported(s) == IF s.num = "humans" THEN s.players ELSE s.players + s.bots
\* rule entries in wire order: (key, value) pairs; a repeated key contributes a second value to the same key
RuleEntries(s) ==
  [i \in 1 .. s.rules |-> <<"rk" \o X(i), "rv" \o X(i)>>]
  \o If(s.repeat # "no", <<<<"rk1", IF s.repeat = "same" THEN "rv1" ELSE "rvr">>>>)
U2RuleItems(s) ==
  Cat([i \in 1 .. s.rules |-> <<[k |-> "f", f |-> "rk" \o X(i), ty |-> "ustr", enc |-> "any", atoms |-> <<>>, uniq |-> "rulekeys",
                                 reserved |-> <<"mutator", "Mutator", "GamePassword">>, min |-> 1], UstrPlain("rv" \o X(i))>>])
U2(s) ==
  [sections |->
     \* a consistent server: the player count it reports is the number of entries its players reply lists
     [info |-> <<U2InfoItems(UstrPlain("name"), Lit(U32le(U2Reported(s))))>>,
      \* one entry list per section; the harness deals the entries over s.datagrams datagrams, each with its own header
      rules |-> [head |-> U2Head(1),
                 entries |-> [i \in 1 .. s.rules |-> <<[k |-> "f", f |-> "rk" \o X(i), ty |-> "ustr", enc |-> "any", atoms |-> <<>>,
                                                       uniq |-> "rulekeys", reserved |-> <<"mutator", "Mutator", "GamePassword">>, min |-> 1],
                                                      UstrPlain("rv" \o X(i))>>]
                             \o If(s.repeat # "no", << <<[k |-> "ref", f |-> "rk1"], IF s.repeat = "same" THEN [k |-> "ref", f |-> "rv1"] ELSE UstrPlain("rvr")>> >>)
                             \o [i \in 1 .. s.mutators |-> <<[k |-> "ustrlit", s |-> IF i = 1 THEN "Mutator" ELSE "mutator"], [k |-> "f", f |-> "mut" \o X(i), ty |-> "ustr", enc |-> "any", atoms |-> <<>>, uniq |-> "mutators"]>>]
                             \o If(s.pw # "none", << <<[k |-> "ustrlit", s |-> "GamePassword"], [k |-> "ustrlit", s |-> IF s.pw = "true" THEN "True" ELSE "false"]>> >>)],
      players |-> [head |-> U2Head(2),
                   entries |-> [i \in 1 .. s.players + s.bots |->
                                  <<F("pid" \o X(i), "u32le"), UstrPlain("pname" \o X(i)),
                                    IF i <= s.players THEN F("pping" \o X(i), "u32le_nz") ELSE Lit(<<0, 0, 0, 0>>),
                                    F("pscore" \o X(i), "i32le"), F("pstats" \o X(i), "u32le")>>]]],
   datagrams |-> s.datagrams,
   players_datagrams |-> IF s.num = "humans" THEN 1 ELSE s.datagrams,
   expect |-> U2InfoExpect
              \o <<Ec(<<"server_info", "num_players">>, U2Reported(s)), Ec(<<"server_info", "password">>, s.pw = "true"), Eo(<<"mutators_and_rules", "rules">>), El(<<"mutators_and_rules", "mutators">>),
                   El(<<"players", "players">>), El(<<"players", "bots">>)>>
              \o [i \in 1 .. s.rules |-> [p |-> <<"mutators_and_rules", "rules">>, tr |-> "listentry", key |-> "rk" \o X(i), src |-> "rv" \o X(i)]]
              \o If(s.repeat # "no", <<[p |-> <<"mutators_and_rules", "rules">>, tr |-> "listentry", key |-> "rk1", src |-> IF s.repeat = "same" THEN "rv1" ELSE "rvr"]>>)
              \o If(s.pw # "none", <<[p |-> <<"mutators_and_rules", "rules", "GamePassword">>, tr |-> "const", v |-> <<IF s.pw = "true" THEN "True" ELSE "false">>]>>)
              \o [i \in 1 .. s.mutators |-> [p |-> <<"mutators_and_rules", "mutators">>, tr |-> "append", src |-> "mut" \o X(i)]]
              \o Cat([i \in 1 .. s.players |-> <<E(<<"players", "players", i - 1, "id">>, "pid" \o X(i)), E(<<"players", "players", i - 1, "name">>, "pname" \o X(i)),
                                                 E(<<"players", "players", i - 1, "ping">>, "pping" \o X(i)), E(<<"players", "players", i - 1, "score">>, "pscore" \o X(i)),
                                                 E(<<"players", "players", i - 1, "stats_id">>, "pstats" \o X(i))>>])
              \o Cat([i \in 1 .. s.bots |-> <<E(<<"players", "bots", i - 1, "id">>, "pid" \o X(s.players + i)), E(<<"players", "bots", i - 1, "name">>, "pname" \o X(s.players + i)),
                                              Ec(<<"players", "bots", i - 1, "ping">>, 0), E(<<"players", "bots", i - 1, "score">>, "pscore" \o X(s.players + i)),
                                              E(<<"players", "bots", i - 1, "stats_id">>, "pstats" \o X(s.players + i))>>]),
   \* lists without a protocol-defined order (D1): compared as multisets
   unordered |-> <<<<"mutators_and_rules", "mutators">>, <<"mutators_and_rules", "rules", "*">>, <<"players", "players">>, <<"players", "bots">>>>,
   entry |-> "unreal2"]

-----------------------------------------------------------------------------
(* Minecraft *)
J(ptr, ty) == [k |-> "j", ptr |-> ptr, ty |-> ty]
JavaShapes == [sample : {"absent", "empty", "two"}, desc : {"absent", "string", "object"}, favicon : BOOLEAN,
               previews : {"absent", "true", "false"}, secure : {"absent", "true", "false"}, extra : BOOLEAN]
Java(s) ==
  [items |-> <<J("/version/name", "jstr"), J("/version/protocol", "ji32"), J("/players/max", "ju32"), J("/players/online", "ju32")>>
             \o (CASE s.sample = "absent" -> <<>> [] s.sample = "empty" -> <<J("/players/sample", "jemptylist")>>
                   [] s.sample = "two" -> <<J("/players/sample/0/name", "jstr"), J("/players/sample/0/id", "jstr"),
                                            J("/players/sample/1/name", "jstr"), J("/players/sample/1/id", "jstr")>>)
             \o (CASE s.desc = "absent" -> <<>> [] s.desc = "string" -> <<J("/description", "jstr")>>
                   [] s.desc = "object" -> <<J("/description/text", "jstr"), J("/description/bold", "jbool")>>)
             \o If(s.favicon, <<J("/favicon", "jstr")>>)
             \o If(s.previews # "absent", <<[k |-> "j", ptr |-> "/previewsChat", ty |-> "jconst", v |-> s.previews = "true"]>>)
             \o If(s.secure # "absent", <<[k |-> "j", ptr |-> "/enforcesSecureChat", ty |-> "jconst", v |-> s.secure = "true"]>>)
             \o If(s.extra, <<J("/modinfo/type", "jstr")>>),
   wrap |-> "java_status",
   expect |-> <<E(<<"game_version">>, "/version/name"), E(<<"protocol_version">>, "/version/protocol"),
                E(<<"players_maximum">>, "/players/max"), E(<<"players_online">>, "/players/online"),
                \* D2: the description is returned as JSON text; it must parse to the value sent (absent = null)
                [p |-> <<"description">>, tr |-> "jsontext", src |-> "/description"],
                IF s.favicon THEN E(<<"favicon">>, "/favicon") ELSE En(<<"favicon">>),
                IF s.previews = "absent" THEN En(<<"previews_chat">>) ELSE Ec(<<"previews_chat">>, s.previews = "true"),
                IF s.secure = "absent" THEN En(<<"enforces_secure_chat">>) ELSE Ec(<<"enforces_secure_chat">>, s.secure = "true"),
                Ec(<<"server_type">>, "Java")>>
              \o (CASE s.sample = "absent" -> <<En(<<"players">>)>> [] s.sample = "empty" -> <<El(<<"players">>)>>
                    [] s.sample = "two" -> <<E(<<"players", 0, "name">>, "/players/sample/0/name"), E(<<"players", 0, "id">>, "/players/sample/0/id"),
                                             E(<<"players", 1, "name">>, "/players/sample/1/name"), E(<<"players", 1, "id">>, "/players/sample/1/id")>>),
   entry |-> "java"]

GameModes == <<"Survival", "Creative", "Hardcore", "Spectator", "Adventure">>
BedrockShapes == [fields : {6, 7, 8, 9, 12}]
Bedrock(s) ==
  [items |-> <<Lit(<<28>>), Lit(<<17, 34, 51, 68, 85, 102, 119, 136>>), Skip(8),
               Lit(<<0, 255, 255, 0, 254, 254, 254, 254, 253, 253, 253, 253, 18, 52, 86, 120>>), LenRest("u16be"),
               Fx("edition", "text", ";"), Txt(";"), Fx("name", "text", ";"), Txt(";"), Fx("protocol", "text", ";"), Txt(";"),
               Fx("version", "text", ";"), Txt(";"), F("online", "dec_u32"), Txt(";"), F("max", "dec_u32")>>
             \o If(s.fields >= 7, <<Txt(";"), Fx("id", "text", ";")>>)
             \o If(s.fields >= 8, <<Txt(";"), Fx("map", "text", ";")>>)
             \o If(s.fields >= 9, <<Txt(";"), Fopts("mode", GameModes)>>)
             \o If(s.fields >= 12, <<Txt(";1;19132;19133")>>),
   expect |-> <<E(<<"edition">>, "edition"), E(<<"name">>, "name"), E(<<"protocol_version">>, "protocol"), E(<<"version_name">>, "version"),
                E(<<"players_online">>, "online"), E(<<"players_maximum">>, "max"),
                IF s.fields >= 7 THEN E(<<"id">>, "id") ELSE En(<<"id">>),
                IF s.fields >= 8 THEN E(<<"map">>, "map") ELSE En(<<"map">>),
                IF s.fields >= 9 THEN E(<<"game_mode">>, "mode") ELSE En(<<"game_mode">>),
                Ec(<<"server_type">>, "Bedrock")>>,
   entry |-> "bedrock"]

\* legacy kick packets: FF, length in UTF-16 units (u16be), UTF-16BE text
LegacyShapes == [v : {"1.6", "1.4", "b1.8"}]
LegacyNone == <<En(<<"players">>), En(<<"favicon">>), En(<<"previews_chat">>), En(<<"enforces_secure_chat">>)>>
Legacy(s) ==
  IF s.v = "1.6"
  THEN [items |-> <<Lit(SEC), Txt("1"), Lit(NUL), F("protocol", "dec_i32"), Lit(NUL), Fx("version", "text", ""), Lit(NUL),
                    Fx("motd", "text", ""), Lit(NUL), F("online", "dec_u32"), Lit(NUL), F("max", "dec_u32")>>,
        wrap |-> "kick_utf16be",
        expect |-> <<E(<<"protocol_version">>, "protocol"), E(<<"game_version">>, "version"), E(<<"description">>, "motd"),
                     E(<<"players_online">>, "online"), E(<<"players_maximum">>, "max"),
                     Ec(<<"server_type">>, [Legacy |-> "V1_6"])>> \o LegacyNone,
        entry |-> "legacy16"]
  ELSE [items |-> <<[k |-> "f", f |-> "motd", ty |-> "text", excl |-> "", exclcp |-> <<167>>], Lit(SEC), F("online", "dec_u32"), Lit(SEC), F("max", "dec_u32")>>,
        wrap |-> "kick_utf16be",
        expect |-> <<Ec(<<"protocol_version">>, -1), Ec(<<"game_version">>, IF s.v = "1.4" THEN "1.4+" ELSE "Beta 1.8+"),
                     E(<<"description">>, "motd"), E(<<"players_online">>, "online"), E(<<"players_maximum">>, "max"),
                     Ec(<<"server_type">>, [Legacy |-> IF s.v = "1.4" THEN "V1_4" ELSE "VB1_8"])>> \o LegacyNone,
        entry |-> IF s.v = "1.4" THEN "legacy14" ELSE "legacyb18"]

-----------------------------------------------------------------------------
(* single-game formats *)
FfowShapes == [x : {0}]
Ffow(s) ==
  [items |-> <<Lit(<<255, 255, 255, 255, 70>>), F("protocol", "u8"), F("name", "cstr"), F("map", "cstr"), F("mod", "cstr"), F("mode", "cstr"),
               F("desc", "cstr"), F("version", "cstr"), Skip(2), F("players", "u8"), F("max", "u8"),
               Fo("stype", <<100, 108, 112, 68, 76, 80>>), Fo("env", <<108, 119, 109, 111, 76, 87>>), Fo("vis", <<0, 1>>), Fo("vac", <<0, 1>>),
               Skip(1), F("round", "u8"), F("rounds", "u8"), F("timeleft", "u16le")>>,
   expect |-> <<E(<<"protocol_version">>, "protocol"), E(<<"name">>, "name"), E(<<"map">>, "map"), E(<<"active_mod">>, "mod"),
                E(<<"game_mode">>, "mode"), E(<<"description">>, "desc"), E(<<"game_version">>, "version"),
                E(<<"players_online">>, "players"), E(<<"players_maximum">>, "max"),
                Em(<<"server_type">>, "stype", << <<100, "Dedicated">>, <<68, "Dedicated">>, <<108, "NonDedicated">>, <<76, "NonDedicated">>, <<112, "TV">>, <<80, "TV">> >>),
                Em(<<"environment_type">>, "env", << <<108, "Linux">>, <<76, "Linux">>, <<119, "Windows">>, <<87, "Windows">>, <<109, "Mac">>, <<111, "Mac">> >>),
                Et(<<"has_password">>, "vis", "eq1"), Et(<<"vac_secured">>, "vac", "eq1"), E(<<"round">>, "round"),
                E(<<"rounds_maximum">>, "rounds"), E(<<"time_left">>, "timeleft")>>,
   entry |-> "ffow"]

Savage2Shapes == [x : {0}]
Savage2(s) ==
  [items |-> <<Skip(12), F("name", "cstr"), F("players", "u8"), F("max", "u8"), F("time", "cstr"), F("map", "cstr"), F("nextmap", "cstr"),
               F("location", "cstr"), F("min", "u8"), F("mode", "cstr"), F("version", "cstr"), F("level", "u8")>>,
   expect |-> <<E(<<"name">>, "name"), E(<<"players_online">>, "players"), E(<<"players_maximum">>, "max"), E(<<"time">>, "time"),
                E(<<"map">>, "map"), E(<<"next_map">>, "nextmap"), E(<<"location">>, "location"), E(<<"players_minimum">>, "min"),
                E(<<"game_mode">>, "mode"), E(<<"protocol_version">>, "version"), E(<<"level_minimum">>, "level")>>,
   entry |-> "savage2"]

MindustryShapes == [modename : BOOLEAN]
MindustryModes == << <<0, "Survival">>, <<1, "Sandbox">>, <<2, "Attack">>, <<3, "PVP">>, <<4, "Editor">> >>
Mindustry(s) ==
  [items |-> <<F("host", "lp8"), F("map", "lp8"), F("players", "i32be"), F("wave", "i32be"), F("version", "i32be"), F("vtype", "lp8"),
               Fo("mode", <<0, 1, 2, 3, 4>>), F("limit", "i32be"), F("desc", "lp8")>> \o If(s.modename, <<F("modename", "lp8")>>),
   expect |-> <<E(<<"host">>, "host"), E(<<"map">>, "map"), E(<<"players">>, "players"), E(<<"wave">>, "wave"), E(<<"version">>, "version"),
                E(<<"version_type">>, "vtype"), Em(<<"gamemode">>, "mode", MindustryModes), E(<<"player_limit">>, "limit"),
                E(<<"description">>, "desc"), IF s.modename THEN E(<<"mode_name">>, "modename") ELSE En(<<"mode_name">>)>>,
   entry |-> "mindustry"]

-----------------------------------------------------------------------------
Protos == {"quake", "gs1", "gs2", "gs3", "jc2m", "unreal2str", "unreal2", "java", "bedrock", "legacy", "ffow", "savage2", "mindustry"}
ShapesOf(p) ==
  CASE p = "quake" -> {s \in QuakeShapes : QuakeOk(s)} [] p = "gs1" -> Gs1Shapes [] p = "gs2" -> {s \in Gs2Shapes : Gs2Ok(s)}
    [] p = "gs3" -> {s \in Gs3Shapes : Gs3Ok(s)} [] p = "jc2m" -> Jc2mShapes [] p = "unreal2str" -> U2StrShapes
    [] p = "unreal2" -> {s \in U2ListShapes : U2ListOk(s)} [] p = "java" -> JavaShapes [] p = "bedrock" -> BedrockShapes
    [] p = "legacy" -> LegacyShapes [] p = "ffow" -> FfowShapes [] p = "savage2" -> Savage2Shapes [] p = "mindustry" -> MindustryShapes
LayoutOf(p, s) ==
  CASE p = "quake" -> Quake(s) [] p = "gs1" -> Gs1(s) [] p = "gs2" -> Gs2(s) [] p = "gs3" -> Gs3(s) [] p = "jc2m" -> Jc2m(s)
    [] p = "unreal2str" -> U2Str(s) [] p = "unreal2" -> U2(s) [] p = "java" -> Java(s) [] p = "bedrock" -> Bedrock(s)
    [] p = "legacy" -> Legacy(s) [] p = "ffow" -> Ffow(s) [] p = "savage2" -> Savage2(s) [] p = "mindustry" -> Mindustry(s)

Init == /\ proto \in Protos /\ sec = "reply" /\ shape \in ShapesOf(proto) /\ done = FALSE
Step == /\ ~done /\ done' = TRUE /\ UNCHANGED <<proto, sec, shape>>
        /\ Emit => PrintT(<<"LAYOUT", ToJson([proto |-> proto, sec |-> sec, shape |-> shape, layout |-> LayoutOf(proto, shape)])>>)
Spec == Init /\ [][Step]_vars

\* every layout names an entry point and has an expectation
HasEntry == LET L == LayoutOf(proto, shape) IN L.entry # "" /\ Len(L.expect) > 0
=============================================================================
