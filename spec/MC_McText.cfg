SPECIFICATION Spec
CONSTANTS
  BedrockAlphabet <- MCBedrock
  BedrockMax = 7
  LegacyAlphabet <- MCLegacy
  LegacyMax = 6
  Emit = FALSE
INVARIANTS FieldsCount LegacyThree
CHECK_DEADLOCK FALSE
