------------------------------ MODULE Hostile ------------------------------
(***************************************************************************)
(* C01 / C13: hostile replies.                                             *)
(*                                                                         *)
(* Part 1 - mutation catalogue.  TLC enumerates every mutation descriptor  *)
(* (operator x item class x boundary value); the conformance harness       *)
(* applies each descriptor at every matching position of every well-formed *)
(* reply the layout specifications define (ValveLayout, ProtoLayout).      *)
(*                                                                         *)
(* Part 2 - what any query may do when fed arbitrary replies (used by      *)
(* Trace_Hostile.tla on recorded executions): it opens sockets, sends      *)
(* requests, consumes replies, and RETURNS - a response or an error.       *)
(* Bounds: requests sent <= (r + 1) * S + R  (r retries, S the entry       *)
(* point's requests per fault-free attempt chain, R datagrams consumed);   *)
(* memory: largest single request <= 16 MiB, live peak <= 64 MiB.          *)
(***************************************************************************)
EXTENDS Naturals, Sequences, FiniteSets, TLC, Json

CONSTANT Emit
VARIABLES desc, done
vars == <<desc, done>>

\* ---- Part 1 ---------------------------------------------------------------------------
\* item classes of the layout vocabulary (LayoutLib): what a descriptor can be applied to
\* "varint": the Minecraft VarInt length prefixes (frame length, string length) of a Java reply
NumTypes == {"u8", "u16le", "u16be", "u32le", "u32be", "i32le", "i32be", "u64le", "f32le", "u32le_nz", "varint"}
TextNumTypes == {"dec_u8", "dec_u16", "dec_u32", "dec_i32", "dec_u31"}
StrTypes == {"cstr", "lp8", "text", "atext", "ustr", "oneoftext"}

\* boundary values of a numeric field, as (kind, amount): the harness materialises them in the field's width
NumBoundaries == {"zero", "one", "max", "maxminus1", "signbit", "signbitminus1"}
\* wrap8 / wrap16 / wrap32: the value the reply would carry anyway plus a multiple of 2^8 / 2^16 / 2^32 - equal to it after a
\* truncating conversion, far from it before (a count "checked" against another field through a narrower type)
TextNumBoundaries == {"empty", "minus1", "huge", "letters", "plus", "space", "zero", "wrap8", "wrap16", "wrap32"}
LitByteValues == {0, 1, 2, 127, 128, 254, 255}
\* an index that is part of a key's text (GameSpy 1 `player_7`, `frags_7`): the digits are replaced
TxtIndexValues == {"0", "65536", "3000000", "4294967295", "18446744073709551615", "99999999999999999999", "-1", "wrap8", "wrap16", "wrap32"}

Descriptors ==
       {[op |-> "truncate_at"], [op |-> "truncate_inside"], [op |-> "empty"], [op |-> "bad_first_byte"],
        [op |-> "append_garbage"], [op |-> "oversize"], [op |-> "duplicate_datagram"], [op |-> "drop_datagram"],
        \* a compressed split reply in which every field is legal (the declared size is small, the fragments are complete)
        \* and whose bzip2 stream expands to BombMiB: "proportion to the bytes actually received" is about the stream, too
        [op |-> "decompression_bomb"],
        \* the server answers every request with another (distinct) challenge, FloodRounds times, each challenge reply a compressed
        \* split reply that expands to FloodBytes: what a client keeps must not grow with the number of rounds
        [op |-> "challenge_flood"]}
  \cup {[op |-> "set_num", b |-> b] : b \in NumBoundaries}
  \cup {[op |-> "set_textnum", b |-> b] : b \in TextNumBoundaries}
  \cup {[op |-> "set_lit_byte", v |-> v] : v \in LitByteValues}          \* counts, flags, totals, indices, headers
  \cup {[op |-> "set_txt_index", v |-> v] : v \in TxtIndexValues}       \* indices written as decimal text inside a key
  \cup {[op |-> "drop_terminator"], [op |-> "invalid_text"], [op |-> "long_string"], [op |-> "empty_string"],
        [op |-> "set_length_prefix", v |-> 0], [op |-> "set_length_prefix", v |-> 127], [op |-> "set_length_prefix", v |-> 128],
        [op |-> "set_length_prefix", v |-> 255]}
  \cup {[op |-> "json_value", v |-> v] : v \in {"null", "string", "number_neg", "number_huge", "float", "object", "array", "bool", "deep", "absent"}}

\* Compound descriptor (not item-wise, so not in `Descriptors`): a reply that announces far more than it carries.
\* A count-like item (a literal byte, a numeric or decimal-text field) is set to its largest value, a string item at most
\* AmplifyWindow items later is repeated - as the shortest distinct strings, with its terminator - until the datagram holds
\* AmplifyFill bytes, and nothing follows.  The harness applies it to every (count, string) pair of a well-formed exchange
\* (sampled in the quick tier).  This is the C13 shape "count x list" (found F34: GameSpy 2 rows x column names).
Amplify == [op |-> "amplify", window |-> 8, fill |-> 48000]
AmplifyCount(item) == item.k = "lit" \/ (item.k = "f" /\ item.ty \in (NumTypes \ {"u64le", "f32le", "u32le_nz", "varint"}) \cup TextNumTypes)
AmplifyRepeat(item) == item.k = "txt" \/ (item.k = "f" /\ item.ty \in StrTypes)

\* Second compound: every numeric extreme (set_num, set_textnum, set_lit_byte) is also delivered with the datagrams of each
\* multi-datagram reply in reverse order - a size that is checked on "the first fragment" must be checked on whichever
\* fragment arrives first.  The split-packet framing fields (id, size, decompressed size, CRC, total, number) are items like
\* any other for the item-wise descriptors.
ExtremeReversed == [op |-> "extreme_reversed", of |-> {"set_num", "set_textnum", "set_lit_byte", "set_txt_index"}]

BombMiB == 128
FloodRounds == 1100
FloodBytes == 65000
BombDeclared == {4096, 8 * 1024 * 1024 - 1}      \* declared sizes (the second one just below the largest a client accepts)

\* which items a descriptor applies to
AppliesTo(d, item) ==
  CASE d.op \in {"truncate_at", "truncate_inside"} -> TRUE
    [] d.op = "set_num" -> item.k = "f" /\ item.ty \in NumTypes
    [] d.op = "set_textnum" -> item.k = "f" /\ item.ty \in TextNumTypes
    [] d.op = "set_lit_byte" -> item.k = "lit"
    [] d.op = "set_txt_index" -> item.k = "txt"          \* (only literal texts that contain a decimal number change)
    [] d.op \in {"drop_terminator", "invalid_text", "long_string", "empty_string"} -> item.k = "f" /\ item.ty \in StrTypes
    [] d.op = "set_length_prefix" -> item.k = "f" /\ item.ty \in {"lp8", "ustr"}
    [] d.op = "json_value" -> item.k = "j"
    [] OTHER -> FALSE       \* whole-datagram operators have no item position

\* the item classes of the layout vocabulary, so that the exported catalogue says where each descriptor applies
ItemClasses == {[k |-> "lit", ty |-> ""], [k |-> "txt", ty |-> ""], [k |-> "skip", ty |-> ""], [k |-> "j", ty |-> ""]}
               \cup {[k |-> "f", ty |-> t] : t \in NumTypes \cup TextNumTypes \cup StrTypes \cup {"oneof"}}
Classes(d) == {c \in ItemClasses : AppliesTo(d, c)}

\* ---- Part 2 ---------------------------------------------------------------------------
\* requests per fault-free attempt chain of every entry point family (S), and whether it retries at all
EntryTable ==
  [valve |-> [s |-> 3, retries |-> TRUE], ffow |-> [s |-> 1, retries |-> TRUE],
   gs1 |-> [s |-> 1, retries |-> TRUE], gs2 |-> [s |-> 1, retries |-> TRUE],
   gs3 |-> [s |-> 2, retries |-> TRUE], jc2m |-> [s |-> 2, retries |-> TRUE],
   quake |-> [s |-> 1, retries |-> TRUE], unreal2 |-> [s |-> 3, retries |-> TRUE],
   java |-> [s |-> 3, retries |-> TRUE], bedrock |-> [s |-> 1, retries |-> TRUE], legacy |-> [s |-> 1, retries |-> TRUE],
   \* auto-detect: Java (3 writes) + Bedrock + three legacy variants
   mcauto |-> [s |-> 7, retries |-> TRUE], mclegacyauto |-> [s |-> 3, retries |-> TRUE],
   mindustry |-> [s |-> 1, retries |-> TRUE], savage2 |-> [s |-> 1, retries |-> FALSE],
   \* the paging query sends one more request per page received; one request for a single page
   master |-> [s |-> 1, retries |-> FALSE]]
Families == DOMAIN EntryTable

MaxSingleAlloc == 16 * 1024 * 1024
MaxLiveAlloc == 64 * 1024 * 1024
SendBound(fam, r, rcvd) == (IF EntryTable[fam].retries THEN r + 1 ELSE 1) * EntryTable[fam].s + rcvd

\* ---- catalogue export -----------------------------------------------------------------
Init == desc \in Descriptors /\ done = FALSE
Step == /\ ~done /\ done' = TRUE /\ UNCHANGED desc
        /\ Emit => PrintT(<<"MUTATION", ToJson([d |-> desc, classes |-> Classes(desc)])>>)
Spec == Init /\ [][Step]_vars

TableSane == \A f \in Families : EntryTable[f].s >= 1
=============================================================================
