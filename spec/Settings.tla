------------------------------ MODULE Settings ------------------------------
(***************************************************************************)
(* C18: timeout settings are validated on every construction path and      *)
(* every accepted configuration is usable.                                 *)
(*                                                                         *)
(* Durations are abstracted to the classes the property names:             *)
(*   "none" (block indefinitely), "zero", "ns1", "ms1", "max" (u64::MAX s) *)
(* Construction paths: the constructor, Default, command-line flags        *)
(* (whole seconds: "ns1"/"ms1" are not expressible, "none" = flag omitted, *)
(* which yields the documented default of 4 s) and deserialisation.        *)
(* Rule (doc comment of TimeoutSettings::new): a zero duration is          *)
(* rejected with an invalid-input error; everything else is accepted.      *)
(* Use: a query with an accepted configuration returns (a response or an   *)
(* error) - it never panics - whatever the durations and the retry count.  *)
(***************************************************************************)
EXTENDS Naturals, Sequences, FiniteSets, TLC, Json

CONSTANTS Durations, RetryClasses, Paths, Entries, Emit

VARIABLES cfg, verdict, used
vars == <<cfg, verdict, used>>

Configs == [path : Paths, read : Durations, write : Durations, connect : Durations, retries : RetryClasses]
Expressible(c) ==
  CASE c.path = "default" -> c.read = "none" /\ c.write = "none" /\ c.connect = "none" /\ c.retries = "0"   \* one configuration
    [] c.path = "clap" -> {c.read, c.write, c.connect} \subseteq {"none", "zero", "ms1", "max"}          \* ms1 stands for "1" second here
    [] OTHER -> TRUE

HasZero(c) == "zero" \in {c.read, c.write, c.connect}
ShouldAccept(c) == ~HasZero(c)

Init == /\ cfg \in {c \in Configs : Expressible(c)} /\ verdict = "unbuilt" /\ used = 0

Construct == /\ verdict = "unbuilt"
             /\ verdict' = IF ShouldAccept(cfg) THEN "accepted" ELSE "rejected"
             /\ Emit => PrintT(<<"BEHAVIOUR", ToJson([cfg |-> cfg, accept |-> ShouldAccept(cfg), entries |-> Entries])>>)
             /\ UNCHANGED <<cfg, used>>
\* using an accepted configuration for a query of entry point e: the call returns
\* (entry points are used one after the other, in the order of the Entries sequence)
Use == /\ verdict = "accepted" /\ used < Len(Entries)
       /\ used' = used + 1 /\ UNCHANGED <<cfg, verdict>>

Next == Construct \/ Use
Spec == Init /\ [][Next]_vars

ZeroRejected == (verdict = "accepted") => ~HasZero(cfg)
NonZeroAccepted == (verdict = "rejected") => HasZero(cfg)
UseOnlyAccepted == used # 0 => verdict = "accepted"
=============================================================================
