"""C14 - definition-driven, per-game and protocol-level queries agree."""
import time
from vlib import *
from pipeline import *

PID = "C14"


def run(tier, seed):
    t0 = time.time()
    build_harness()
    w = workdir("c14")
    v = Verdict(PID)
    quick = tier != "thorough"
    lay, tp, st = tables(tier, w)
    mc = [tlc_mc("Dispatch.tla", "MC_Dispatch.cfg", workers=2, name="c14_mc", coverage=False)]
    tf = f"{w}/trace.ndjson"
    r1 = vh(["dispatch", "--layouts", lay, "--templates", tp, "--reps", 20 if quick else 200, "--seed", seed, "--out-trace", tf], name="c14")
    v.add_report(r1, "three call paths")
    validated, ts = validate_trace(v, "Trace_Dispatch.tla", "Trace_Dispatch.cfg", tf, splitter="Case", max_rounds=12)
    nviol, _ = v.finish()
    cov = std_cov(st + mc, [r1], {
        "rule": "one case = (definition row, port given/omitted, server behaviour in {valid, dedicated id, foreign id, partial, silent, "
                "malformed}); the generic, module and protocol-level paths run against the same scripted server; distinct by (row, port "
                "choice, behaviour); Eco is observed on real listening sockets (which port is connected to)",
        "rows_without_module": r1.get("extra", {}).get("rows_without_module"),
        "exhaustive": False}, validated=validated)
    cov["states"] += ts["states"]; cov["transitions"] += ts["transitions"]
    write_evidence(PID, tier, seed, "model_checking", cov, time.time() - t0, nviol,
                   ["D7: results are compared in the module's representation (documented conversion applied to the protocol-level response)",
                    "definition facts are read from GAMES at run time"])
    return 1 if nviol else 0


def replay(path):
    return generic_replay(path)
