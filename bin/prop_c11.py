"""C11 (Valve part; other protocols are added by the later sections of this file)."""
import time
from vlib import *
from pipeline import *

PID = "C11"
EXTRA_VALIDATED = []     # runs validated by trace specs inside helper sections


def run(tier, seed):
    t0 = time.time()
    build_harness()
    w = workdir("c11")
    v = Verdict(PID)
    quick = tier != "thorough"
    lay, tp, st = tables(tier, w)
    mc = [tlc_mc("MC_ValveA2S.tla", "MC_ValveA2S.cfg", workers=8, timeout=1200)]
    b = f"{w}/beh_valve.ndjson"
    g = behaviours("MC_ValveA2S.tla", cfg_for(tier, "Gen_ValveA2S_C11.cfg"), b, "c11_beh")
    r1 = vhr(["valve-behaviours", "--layouts", lay, "--templates", tp, "--in", b, "--only", PID], 2 if quick else 20, seed, tier, name="c11")
    v.add_report(r1, "valve behaviours")
    reps = [r1]
    reps += more(tier, seed, w, v, lay, tp, mc)
    rt, validated, ts = valve_trace(PID, tier, seed, w, v, lay, tp)
    reps.append(rt)
    mc.append(ts)
    validated += sum(EXTRA_VALIDATED)
    nviol, _ = v.finish()
    cov = std_cov(st + mc + [g], reps, {
        "rule": "one case = one complete behaviour of the exchange specification (configuration + server reaction per request) "
                "enumerated by TLC, concretised with random replies built from the layout tables; distinct by behaviour",
        "exhaustive": True,
        "impl_to_spec": "random recorded valve::query exchanges (retries up to 5, up to 4 challenge rounds per attempt, junk replies) "
                        "validated line by line against spec/Trace_ValveA2S.tla"}, validated=validated)
    write_evidence(PID, tier, seed, LEVEL, cov, time.time() - t0, nviol, ASSUMPTIONS)
    return 1 if nviol else 0


def more(tier, seed, w, v, lay, tp, mc):
    """Unreal 2 gather matrix: Unreal2.tla (9 toggle pairs x section outcomes x retries)"""
    return unreal2_part(tier, seed, w, v, lay, tp, mc)


LEVEL = "model_checking"
ASSUMPTIONS = ["scripted transport hook (validated against real sockets by C12)", "TLC", "layout tables of spec/*Layout.tla"]


def replay(path):
    return generic_replay(path)


def unreal2_part(tier, seed, w, v, lay, tp, mc):
    quick = tier != "thorough"
    mc.append(tlc_mc("MC_Unreal2.tla", "MC_Unreal2.cfg", workers=4, name=PID.lower() + "_mcu"))
    b = f"{w}/beh_unreal2.ndjson"
    mc.append(behaviours("MC_Unreal2.tla", cfg_for(tier, "Gen_Unreal2.cfg"), b, PID.lower() + "_genu"))
    r = vhr(["unreal2-behaviours", "--layouts", lay, "--in", b, "--only", PID], 4 if quick else 40, seed, tier, name=PID.lower() + "u")
    v.add_report(r, "unreal2 behaviours")
    rt, nval, ts = unreal2_trace(PID, tier, seed, w, v, lay)
    mc.append(ts)
    EXTRA_VALIDATED.append(nval)
    return [r, rt]
