#!/bin/bash
# try_mutant_iso.sh <seeded dir> <property id> [more ids]: like try_mutant.sh but without touching /repo or /verif: a scratch
# worktree of /repo HEAD gets the patch, a scratch worktree of /verif HEAD (COMMITTED state only) gets its harness pointed at it
# (VERIF_REPO), and the quick checks run there - so several seeded changes can be tried at the same time, also while a
# background run is using /repo. For my own regression sweeps only: the registered checks and all evidence use /repo itself.
d=$(realpath "$1"); shift; name=$(basename "$d"); wt=/tmp/iso/$name
rm -rf $wt; mkdir -p $wt
git -C /repo worktree prune; git -C /verif worktree prune
git -C /repo worktree add --detach $wt/repo HEAD -q || exit 2
git -C /verif worktree add --detach $wt/verif HEAD -q || exit 2
cp /repo/Cargo.lock $wt/repo/Cargo.lock
( cd $wt/repo && { git apply "$d/patch.diff" 2>/dev/null || git apply --3way "$d/patch.diff" 2>/dev/null; } ) || { echo "$name PATCH-DOES-NOT-APPLY"; git -C /repo worktree remove --force $wt/repo; git -C /verif worktree remove --force $wt/verif; exit 3; }
sed -i "s#/repo/crates#$wt/repo/crates#" $wt/verif/harness/Cargo.toml
# reuse the compiled third-party crates of /verif's harness (only gamedig and the harness itself are rebuilt)
mkdir -p $wt/verif/harness/target && cp -r /verif/harness/target/release $wt/verif/harness/target/ 2>/dev/null
cp /verif/harness/Cargo.lock $wt/verif/harness/Cargo.lock 2>/dev/null
for id in "$@"; do
  out=$(cd $wt/verif && VERIF_REPO=$wt/repo bin/check $id quick 2>&1); rc=$?
  sig=$(echo "$out" | grep -A1 "^VIOLATION" | grep signature | head -3 | tr '\n' ';')
  case $rc in 1) echo "$name $id DETECTED $sig";; 0) echo "$name $id MISSED";; *) echo "$name $id TOOLERR rc=$rc"; echo "$out" | tail -5;; esac
done
git -C /repo worktree remove --force $wt/repo; git -C /verif worktree remove --force $wt/verif; rm -rf $wt
