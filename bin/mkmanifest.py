#!/usr/bin/env python3
"""Regenerates /verif/MANIFEST.json from the table below (single source for the interface file)."""
import json, subprocess

ALL = ["C%02d" % i for i in range(1, 21)]

# id -> (category, technique, text, note)
CHECKS = {
    "C01": ("exploration",
            "Hostile.tla mutation catalogue enumerated by TLC and applied at every matching item position of the spec's well-formed replies + "
            "byte-level mutational/random fuzz through all 211 entry points; every execution trace-validated by TLC (Trace_Hostile.tla: "
            "Call ... Return, no Panic/Hang event is a model step); termination of the exchange model checked as liveness",
            "Structured: 46 mutation descriptors (truncate, drop terminator, boundary values in every numeric / textual-numeric / literal "
            "count-flag-index byte, length prefixes, invalid text, oversize, empty, duplicated / dropped datagrams, wrong JSON member types) at "
            "item positions of well-formed exchanges of every protocol query, game wrapper, the master-server service and the generic dispatch of "
            "every non-HTTP definition row, with random engine / gather / retry settings; plus a byte-wise truncation sweep and havoc fuzz. A "
            "panic, arithmetic overflow (overflow checks on), abort or exceeding the socket-operation bound is a violation.",
            "Exploration, not proof. Trusted: harness panic/abort observation, scripted transport. Eco (ureq HTTP) is exercised by C07/C12 only."),
    "C12": ("fault_enumeration",
            "Net.tla enumerates the fault scripts (protocol x IPv4/IPv6 x silent point x fault mode x retries) with the blocking-step bound B; "
            "each is run against real loopback sockets (no hook) and compared with the scripted transport's account of the same scenario",
            "76 (quick) / 114 (thorough) fault cases on real UDP/TCP loopback servers (127.0.0.1 and ::1) with 150 ms timeouts: the query must "
            "return within B x timeout + 2 s with the error class the model gives; the requests the server saw must equal those the scripted "
            "transport records (which validates the hook); payload sizes 0..65507 x requested sizes through the socket types directly.",
            "Wall-clock measurement (2 s slack, never a lower bound); loopback only."),
    "C13": ("exploration",
            "same executions as C01 with a counting global allocator; Trace_Hostile.tla (TLC) enforces on every recorded execution: requests "
            "sent <= (r+1)*S + datagrams received, largest single allocation <= 16 MiB, live peak <= 64 MiB; SendsBounded model-checked on the exchange model",
            "Extreme values in every length / count / size / index position of every layout (Hostile.tla boundary sets) and byte-level fuzz; the "
            "harness's counting allocator reports per-call peak live bytes and the largest single request on the Return event, and TLC rejects "
            "any trace outside the allowance or the request bound.",
            "Measures requests made to the global allocator during the call on the calling thread. Exploration, not proof."),
    "C02": ("model_checking",
            "TLA+ layout specification (ValveLayout.tla) enumerated by TLC; every (section shape x transport shape) replayed "
            "into valve::query through the scripted transport and compared field by field; exchange behaviours of ValveA2S.tla replayed",
            "TLC enumerates every layout shape of A2S_INFO (Source: 33 extra-data flag sets x The Ship, obsolete GoldSrc), A2S_PLAYER and "
            "A2S_RULES and every transport encoding (single, Source split, GoldSrc split, bzip2 split, 0-3 challenge rounds); each case is "
            "concretised with random server states and run through the real valve::query; the decoded response and the per-game response "
            "must equal the expectation computed from the spec's table.",
            "Trusted: TLC, the harness's primitive codecs and generic layout interpreter, python3 bz2. Values are sampled (structure is exhaustive)."),
    "C03": ("model_checking",
            "TLA+ layout specification (ProtoLayout.tla: Java JSON members, Bedrock pong, legacy kick packets) enumerated by TLC and replayed "
            "into the real query functions; auto-detect order: Minecraft.tla model-checked and replayed; McText.tla: the Bedrock status "
            "tail and the legacy kick string as pure functions, every short string replayed",
            "TLC enumerates every shape of the Java status JSON (optional members present/absent, sample list shapes, description as string or "
            "object), the Bedrock pong (6-12 fields) and the three legacy kick formats; each is concretised with random values (arbitrary Unicode "
            "strings, full u32/i32 ranges), served through the scripted transport and the decoded status compared member by member (description "
            "compared as JSON value).",
            "Trusted: TLC, harness primitive codecs (VarInt, UTF-16BE), serde_json for building the status document."),
    "C04": ("model_checking",
            "TLA+ layout specification (ProtoLayout.tla: GameSpy 1 parts, GameSpy 2 tables, GameSpy 3 packets/sections) enumerated by TLC and "
            "replayed into gamespy::{one,two,three}::{query,query_vars}; QuakeText.tla (kind gs1): the backslash variables grammar, every "
            "short fragment replayed",
            "TLC enumerates players x teams x extra variables x optional per-player fields x part/packet counts x reported-vs-listed count; every "
            "shape is concretised with random values and the full response (every player, every team, exactly the unused variables) compared.",
            "Trusted: TLC, harness generic layout interpreter."),
    "C05": ("model_checking",
            "TLA+ layout specification (ProtoLayout.tla: Quake 1/2/3 status reply) enumerated by TLC and replayed into quake::{one,two,three}::query; "
            "QuakeText.tla: the variables line and the player line as pure functions, every short line (exhaustive) replayed",
            "TLC enumerates version x key spellings x version key x extra variables x 0..n player lines x address column x names with spaces; "
            "each concretised with random values; variables, every player line and the unused entries are compared.",
            "Trusted: TLC, harness generic layout interpreter."),
    "C06": ("model_checking",
            "TLA+ layout specification (ProtoLayout.tla: Unreal 2 string format by length byte / encoding / escape pattern; list sections) "
            "enumerated by TLC and replayed into unreal2::query",
            "TLC enumerates string length x encoding x colour-escape / control-character pattern (quick: 11 lengths, thorough: every length "
            "0..126) and list shapes (rules, repeated keys, mutators, players, bots, 1-3 datagrams, GamePassword); the real unreal2::query must "
            "return exactly the model's stripped strings and lists (lists without protocol order compared as multisets, D1).",
            "Trusted: TLC, harness Unreal 2 string encoder."),
    "C07": ("model_checking",
            "TLA+ layout specification (ProtoLayout.tla: FFOW, Savage 2, JC2M, Mindustry; ValveLayout.tla for The Ship / Battalion 1944) "
            "enumerated by TLC and replayed into each game's query function; Eco over a real loopback HTTP server",
            "Every layout shape of the single-game formats is concretised with random values and the game's query result compared field by "
            "field with the expectation computed from the spec's table; GameMaps.tla gives the field mapping of The Ship (incl. required "
            "sections), the Battalion 1944 overrides and the Eco JSON mapping, each replayed (Eco over a real loopback HTTP server).",
            "Trusted: TLC, harness generic layout interpreter."),
    "C08": ("model_checking",
            "Reassembly.tla (environment delivers fragments in any order, at most one duplicated) model-checked with TLC "
            "(OrderIndependent, ErrorOnlyOnDup, NeverEarly, termination); every delivery schedule TLC enumerates is replayed",
            "Every permutation of 2..4 (quick) / 2..5 (thorough) fragments and every single duplication at every later position, for Valve "
            "Source and GoldSrc split packets, GameSpy 1 parts, GameSpy 3 packets and Unreal 2 multi-datagram lists, with random responses and "
            "random fragment boundaries: the result must equal the spec's expected response and the in-order result of the same real code; a "
            "duplicate may only yield an error or the same response.",
            "Trusted: TLC, scripted transport. D1/D11: Unreal 2 lists are compared as multisets; duplicated Unreal 2 datagrams are not "
            "checked (no sequence numbers exist to detect them)."),
    "C09": ("model_checking",
            "request templates in TLA+ (Templates.tla) + exchange specifications (ValveA2S.tla ...) model-checked with TLC "
            "(ChallengeEchoed, OnlySectionRequests; Exchange.tla ChallengeFresh, OnlyProtocolRequests); TLC behaviours replayed, every "
            "recorded send compared byte for byte; recorded random exchanges validated by TLC against Trace_ValveA2S.tla / Trace_Exchange.tla",
            "Every request the client emits during every TLC-enumerated behaviour (challenge rounds, retries, gather settings) is compared byte "
            "for byte with the request the specification prescribes, including the challenge echo for stratified challenge values "
            "(each byte from {00, 41, FF, other}), and the destination address/port.",
            "Trusted: TLC, scripted transport hook. Challenge values are stratified, not exhaustive over 2^32."),
    "C10": ("fault_enumeration",
            "retry contract inside the TLA+ exchange specifications, model-checked with TLC (AttemptsBounded, RetryOnlyAfterTimeout, "
            "ErrorClassFaithful; ValveA2S.tla, Exchange.tla, Unreal2.tla); every per-attempt outcome vector TLC enumerates is replayed "
            "through the scripted transport; recorded random exchanges (r up to 5) validated by TLC against Trace_ValveA2S.tla and "
            "Trace_Exchange.tla; Exchange refines RetryInd.tla (TLC), whose inductive invariant holds for every retry count (Apalache, thorough)",
            "TLC enumerates all per-attempt outcome vectors over {silent, malformed, valid, short split} for r in 0..2 (quick) / 0..3 (thorough) at "
            "each request position; each is scripted and run; number and bytes of sends, result class and result value are compared with the model.",
            "Trusted: TLC, scripted transport hook, reference replies built from the layout tables."),
    "C11": ("model_checking",
            "gather/app-id rules inside ValveA2S.tla (and Unreal2.tla) model-checked with TLC (SkipNeverRequested, TryIsolates, "
            "EnforcePropagates, AppIdRule); the full toggle x outcome x app-id matrix generated by TLC is replayed; recorded random "
            "valve exchanges validated by TLC against Trace_ValveA2S.tla (TSkipNeverRequested at every step)",
            "All 9 toggle pairs x section outcomes {valid, silent, malformed, challenge-then-silent} x expectation {none, main, main+dedicated} x "
            "reported id {main, dedicated, other} x check on/off are enumerated by TLC and replayed; requests seen on the wire, section presence "
            "and error kind are compared with the model.",
            "Trusted: TLC, scripted transport hook."),
    "C14": ("model_checking",
            "Dispatch.tla (AllAgree, RightPort) model-checked with TLC; the three call paths are run against the same scripted server for every "
            "definition row and the recorded observations are trace-validated by TLC against Trace_Dispatch.tla",
            "For every row of GAMES (about 100), port given / omitted and server behaviours {valid, dedicated id, foreign id, partial, silent, "
            "malformed}: generic dispatch, the game's module and the protocol-level query with the definition's parameters must go to the same "
            "port (the definition's default when omitted), send the same request bytes and return equal results (compared in the module's "
            "representation, D7). Eco is observed on real listening sockets.",
            "Trusted: TLC, scripted transport; the module conversions used to compare representations are the library's own (checked by C02/C07)."),
    "C15": ("exploration",
            "CommonView.tla table (response type -> common accessor -> path in the specific response) enumerated by TLC; every accessor, "
            "as_json and as_original compared with the table on responses decoded from replies over all layout shapes",
            "15 response types and their player types: accessor values, the as_json form, per-player name/score and as_original are compared "
            "with the path the specification gives, on thousands of decoded (and, for Eco, directly generated) response values.",
            "A table check; cells the documentation does not settle are marked free and not checked."),
    "C16": ("model_checking",
            "MasterServer.tla (filter groups as maps, insertion = replace within group; paging with seed chaining) model-checked with TLC "
            "(LastWins, SeedChains, StopsAtTerminator, AllAddresses); every insertion sequence / page sequence TLC enumerates is replayed",
            "All insertion sequences of length <= 2 (quick) / <= 3 (thorough) over 18 filter kinds x 3 groups are performed through the public "
            "API; the emitted request is parsed by a reference grammar and must denote exactly the model's groups; all page sequences of up to "
            "4 / 6 pages with lengths {0,1,2,230} are served and the returned list and the seed of every follow-up request compared.",
            "Trusted: TLC, the harness's reference grammar parser."),
    "C18": ("fault_enumeration",
            "Settings.tla (construction path x durations x retries; ZeroRejected, NonZeroAccepted) enumerated by TLC; every configuration is "
            "constructed through the real path and every accepted one used for queries on the scripted transport and on real sockets",
            "All (read, write, connect) in {None, 0, 1 ns, 1 ms, u64::MAX s}^3 x retries in {0,1,2,MAX-1,MAX} x {new, Default, command line, "
            "serde}: zero must be rejected (InvalidInput), every accepted configuration is used for 13 entry points against valid / malformed / "
            "silent servers and on real loopback UDP/TCP sockets without panicking.",
            "A silent server with a huge retry count is legitimately retried for ever and is not run."),
    "C17": ("model_checking",
            "TLA+ reference model (Buffer.tla, VarInt.tla) checked with TLC; TLC-generated transitions replayed into the real code; "
            "recorded traces validated by TLC (Trace_Buffer.tla); the Unreal 2 string decoder as a reader operation (u2str) in its own universe",
            "Buffer.tla / VarInt.tla are model-checked exhaustively over all packets up to 4 (quick) / 6 (thorough) bytes of a 6-symbol boundary "
            "alphabet x every reader operation from every reachable cursor; every TLC transition is replayed on the real Buffer and codecs, random "
            "longer packets and operation sequences are recorded from the real reader and validated by TLC against Trace_Buffer.tla, and the VarInt "
            "round trip is swept natively over 2^32 values (thorough) with the spec's encoder as oracle.",
            "Trusted: TLC, CommunityModules Json/IOUtils, the harness's primitive comparisons and the cfg-gated re-export of the crate-private reader."),
    "C19": ("exploration",
            "Cli.tla (parse -> find -> resolve -> query -> print -> exit; ExitRule, NeverPrintsOnError, termination) model-checked with TLC; its "
            "case matrix is replayed on the real gamedig_cli binary against loopback reference servers",
            "17 game families x 2 output modes x 6 formats x 5 string classes (plain, markup, control, non-ASCII, empty) and 8 kinds of invalid "
            "invocation: exit status, stderr, and the printed document parsed by independent readers (serde_json, bson + hex/base64, a strict "
            "XML 1.1 well-formedness checker) and compared with the library's response for the same replies.",
            "Well-formedness is decided by the harness's parsers; the debug format is only checked for exit status and a non-empty document."),
    "C20": ("exploration",
            "IdRules.tla enumerates every name shape of the documented grammar (TLC); the real checker is driven per shape and its verdict "
            "histories are trace-validated by TLC against Trace_IdRules.tla (accepted <=> the id is one the checker itself reports)",
            "6.8 k (quick) / 212 k (thorough) name shapes x random tokens: a wrong id elicits the expected ids, each of them must then be "
            "accepted and near-miss ids rejected, independent of the wrong id used; lists of 1-4 games must not panic; the shipped table passes.",
            "Names outside the documented grammar (a number hyphenated with a word) are not generated."),
}

# extensions after the fifth / sixth round of seeded changes (appended to the level text)
EXTRA = {
    "C01": " Also: a decimal index inside a literal key text at its extremes (set_txt_index), UCS-2 strings with the uncounted 01 byte.",
    "C02": " GoldSrc answer ids over all 32 bits; every layout case of a definitions-table row (css with its protocol-7 framing rule "
           "included) also through the definition-driven entry point.",
    "C04": " Both spellings of the administrator variable (D19); GameSpy 3 packets start with the section byte in the header and the "
           "reply may be cut exactly between the player and the team section.",
    "C05": " Both spellings of the version variable in one reply (D19).",
    "C06": " Lists of 64 entries dealt over datagrams at random boundaries; UCS-2 strings with the uncounted 01 byte.",
    "C08": " Recorded random deliveries (2-8 fragments, duplicates, a missing fragment) trace-validated against Trace_Reassembly.tla;"
           " bzip2-compressed Source replies (Reassembly.tla comp / hdr: the header travels in fragment 0 wherever it arrives); six "
           "fragments sampled by TLC's simulation mode.",
    "C09": " Destination sweep: every table row x address x port given / omitted x silent / refusing server through the "
           "definition-driven entry point; the Java handshake also through the caller's extra request settings (each one set / unset).",
    "C10": " Every other Valve behaviour is replayed through the definition-driven entry point of a table row.",
    "C11": " Every other Valve behaviour is replayed through the definition-driven entry point of a table row, the toggles and the "
           "app-id switch travelling as the caller's extra request settings.",
    "C12": " Valve 'chalsilent' mode (a challenge, then silence) and the bound MaxReqs on the requests the real server sees "
           "(attempts are not multiplied by one another).",
    "C13": " decompression_bomb: a compressed split reply with legal fields whose bzip2 stream expands to 128 MiB; set_txt_index.",
    "C14": " The documented Valve-to-game conversion is re-stated in the harness (not taken from the library).",
    "C18": " The HTTP client (Eco) on a real socket with every accepted timeout combination; the auto-detecting Minecraft queries; every "
           "construction and use recorded and trace-validated by TLC against Trace_Settings.tla.",
    "C19": " Timeout flag values that denote no representable duration (nan, inf, 1e20, 2^64) for each of the three flags; keys that are XML "
           "names with 2-, 3- and 4-byte characters at every early offset and with the reserved prefix; a named host with a request option; "
           "every run of the binary trace-validated by TLC against Trace_Cli.tla (exit / print rule).",
    "C20": " Inner / trailing numbers up to 2^64 (IdRules.tla mag); candidate ids derived from every number in the name and from the "
           "name without its bracket.",
}

NOT_YET = "check under construction in this session (claimed in DESIGN.md; registered as soon as it is sound)"


def main():
    try:
        commits = subprocess.run("git -C /repo log --format=%h --grep='^verif hook'", shell=True, capture_output=True, text=True).stdout.split()
    except Exception:
        commits = []
    m = {
        "version": 1,
        "setup_cmd": "cd /verif/harness && cp /repo/Cargo.lock Cargo.lock && cargo build --release --offline",
        "hooks": {
            "guard": "--cfg gamedig_verif",
            "enable": "rustflags --cfg gamedig_verif in /verif/harness/.cargo/config.toml; the harness has a path dependency on /repo/crates/lib, "
                      "so every check rebuilds the library from /repo's working tree with the hooks on",
            "baseline_off_cmd": "cd /repo && cargo nextest run --workspace --no-fail-fast --offline",
            "source_commits": commits[::-1],
            "add_only": True,
        },
        "engines": [{"name": "tlc+vh", "path": "/verif/bin/check", "serves_properties": sorted(CHECKS),
                     "kind_free_text": "TLC (model checking, behaviour generation, trace validation of spec/*.tla) bound to the code by the Rust "
                                       "conformance harness /verif/harness (vh) through the cfg-gated scripted transport"}],
        "checks": [],
        "notes": "bin/check <id> <quick|thorough> [--replay file]; known findings in /verif/known_findings.json; spec drift list in /verif/spec/drift.json",
        "not_applicable": [{"property_id": p, "reason": NOT_YET} for p in ALL if p not in CHECKS],
    }
    for pid in sorted(CHECKS):
        cat, tech, text, note = CHECKS[pid]
        m["checks"].append({
            "property_id": pid,
            "quick_cmd": f"bin/check {pid} quick",
            "thorough_cmd": f"bin/check {pid} thorough",
            "evidence_file": f"/verif/evidence/{pid}.json",
            "replay_cmd_template": f"bin/check {pid} quick --replay {{path}}",
            "engine": "tlc+vh",
            "level_claimed": {"category": cat, "text": text + EXTRA.get(pid, ""), "design_ref": f"DESIGN.md section 5, {pid}"},
            "level_note": note,
            "technique": tech,
        })
    json.dump(m, open("/verif/MANIFEST.json", "w"), indent=1)
    print("MANIFEST.json:", len(m["checks"]), "checks,", len(m["not_applicable"]), "not applicable")


main()
