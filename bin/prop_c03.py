"""C03 - Minecraft status replies decode exactly; auto-detect order holds."""
from vlib import *
from pipeline import *

PID = "C03"
PROTOS = ['java', 'bedrock', 'legacy']


def more(tier, seed, w, v, lay, tp):
    """auto-detect order: Minecraft.tla (32 subsets of variants x 7 entry points x what the server does on a variant it does not speak)"""
    quick = tier != "thorough"
    mc = [tlc_mc("Minecraft.tla", "MC_Minecraft.cfg", workers=4, name="c03_mc", coverage=False)]
    b = f"{w}/beh_minecraft.ndjson"
    mc.append(behaviours("Minecraft.tla", "Gen_Minecraft.cfg", b, "c03_gen"))
    r = vhr(["minecraft-behaviours", "--layouts", lay, "--in", b], 1 if quick else 8, seed, tier, name="c03b")
    v.add_report(r, "auto-detect behaviours")
    # McText.tla: the Bedrock status tail and the legacy kick string as pure functions, every short string replayed
    rt, mt = mc_text(PID, tier, w, v)
    return [r] + rt, mc + mt


def run(tier, seed):
    return layout_property(PID, tier, seed, PROTOS, 'one case = one layout shape enumerated by TLC from ProtoLayout.tla (optional parts, counts, key spellings, packet counts), concretised with random server states; distinct by (protocol, shape)', more)


def replay(path):
    return generic_replay(path)
