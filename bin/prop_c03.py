"""C03 - Minecraft status replies decode exactly; auto-detect order holds."""
from vlib import *
from pipeline import *

PID = "C03"
PROTOS = ['java', 'bedrock', 'legacy']


def more(tier, seed, w, v, lay, tp):
    return [], []


def run(tier, seed):
    return layout_property(PID, tier, seed, PROTOS, 'one case = one layout shape enumerated by TLC from ProtoLayout.tla (optional parts, counts, key spellings, packet counts), concretised with random server states; distinct by (protocol, shape)', more)


def replay(path):
    return generic_replay(path)
