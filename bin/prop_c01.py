"""C01 - hostile server responses never crash or hang a query."""
from hostile import *
PID = "C01"


def run(tier, seed):
    return run_hostile(PID, tier, seed,
        "structured: every mutation descriptor of Hostile.tla (operator x item class x boundary value) at every matching item position "
        "(sampled above the position cap) of a well-formed exchange of every entry point, plus a byte-wise truncation sweep of every "
        "datagram; bytes: mutational havoc and random replies; distinct = distinct (entry point, base exchange) pairs (counted "
        "conservatively: mutations of one base are not counted as distinct)")


def replay(path):
    return generic_replay(path)
