"""C07 - single-game protocols."""
from vlib import *
from pipeline import *

PID = "C07"
PROTOS = ['ffow', 'savage2', 'jc2m', 'mindustry']


def more(tier, seed, w, v, lay, tp):
    """The Ship, Battalion 1944 (derived from the Valve response) and Eco (real loopback HTTP server): GameMaps.tla tables"""
    quick = tier != "thorough"
    m = f"{w}/maps.ndjson"
    g = tlc_gen("GameMaps.tla", "MC_GameMaps.cfg", "MAP", m, name="c07_maps")
    r = vhr(["gamemaps", "--layouts", lay, "--templates", tp, "--in", m], 60 if quick else 3000, seed, tier, name="c07m")
    v.add_report(r, "derived games")
    return [r], [g]


def run(tier, seed):
    return layout_property(PID, tier, seed, PROTOS, 'one case = one layout shape enumerated by TLC from ProtoLayout.tla (optional parts, counts, key spellings, packet counts), concretised with random server states; distinct by (protocol, shape)', more)


def replay(path):
    return generic_replay(path)
