"""C09 (Valve part; other protocols are added by the later sections of this file)."""
import time
from vlib import *
from pipeline import *

PID = "C09"


def run(tier, seed):
    t0 = time.time()
    build_harness()
    w = workdir("c09")
    v = Verdict(PID)
    quick = tier != "thorough"
    lay, tp, st = tables(tier, w)
    mc = [tlc_mc("MC_ValveA2S.tla", "MC_ValveA2S.cfg", workers=8, timeout=1200)]
    b = f"{w}/beh_valve.ndjson"
    g = behaviours("MC_ValveA2S.tla", cfg_for(tier, "Gen_ValveA2S_C09.cfg"), b, "c09_beh")
    r1 = vhr(["valve-behaviours", "--layouts", lay, "--templates", tp, "--in", b, "--only", PID], 2 if quick else 20, seed, tier, name="c09")
    v.add_report(r1, "valve behaviours")
    reps = [r1]
    reps += more(tier, seed, w, v, lay, tp, mc)
    rd = vh(["destinations", "--seed", seed], name="c09_dest")
    v.add_report(rd, "destinations of the definition-driven entry point")
    reps.append(rd)
    rt, validated, ts = valve_trace(PID, tier, seed, w, v, lay, tp)
    reps.append(rt)
    mc.append(ts)
    rt2, validated2, ts2 = exchange_trace(PID, tier, seed, w, v, lay, tp)
    reps.append(rt2)
    mc.append(ts2)
    validated += validated2
    nviol, _ = v.finish()
    cov = std_cov(st + mc + [g], reps, {
        "rule": "one case = one complete behaviour of the exchange specification (configuration + server reaction per request) "
                "enumerated by TLC, concretised with random replies built from the layout tables; distinct by behaviour",
        "exhaustive": True,
        "impl_to_spec": "random recorded valve::query exchanges (retries up to 5, up to 4 challenge rounds per attempt, junk replies) "
                        "validated line by line against spec/Trace_ValveA2S.tla; the same for the single-unit protocols against "
                        "spec/Trace_Exchange.tla"}, validated=validated)
    write_evidence(PID, tier, seed, LEVEL, cov, time.time() - t0, nviol, ASSUMPTIONS)
    return 1 if nviol else 0


def more(tier, seed, w, v, lay, tp, mc):
    """the single-unit protocols: Exchange.tla behaviours (retry at every receive position, handshake + data, Java's three
    writes, Mindustry's socket per attempt, Savage 2 without retry)"""
    quick = tier != "thorough"
    mc.append(tlc_mc("MC_Exchange.tla", "MC_Exchange.cfg", workers=4, name=PID.lower() + "_mcx"))
    b = f"{w}/beh_exchange.ndjson"
    mc.append(behaviours("MC_Exchange.tla", cfg_for(tier, "Gen_Exchange.cfg"), b, PID.lower() + "_genx"))
    r = vhr(["exchange-behaviours", "--layouts", lay, "--templates", tp, "--in", b,
            "--only", PID], 4 if quick else 60, seed, tier, name=PID.lower() + "x")
    v.add_report(r, "single-unit protocol behaviours")
    return [r]


LEVEL = "model_checking"
ASSUMPTIONS = ["scripted transport hook (validated against real sockets by C12)", "TLC", "layout tables of spec/*Layout.tla"]


def replay(path):
    return generic_replay(path)
