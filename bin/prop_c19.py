"""C19 - the CLI prints a well-formed, faithful document or a clean error."""
import time, os
from vlib import *
from pipeline import *

PID = "C19"


def build_cli():
    """The real binary, built from /repo's working tree WITHOUT the verification cfg."""
    tgt = os.path.join(WORK, "cli_target")
    t = time.time()
    rc, out = sh("cargo build -p gamedig_cli --offline 2>&1 | tail -30", cwd=REPO, timeout=1800,
                 env={"CARGO_TARGET_DIR": tgt, "CARGO_NET_OFFLINE": "true", "RUSTFLAGS": ""})
    b = os.path.join(tgt, "debug", "gamedig_cli")
    if not os.path.exists(b) or "could not compile" in out:
        log(out)
        raise ToolError("building gamedig_cli failed")
    log(f"[build] gamedig_cli built in {time.time()-t:.1f}s")
    return b


def run(tier, seed):
    t0 = time.time()
    build_harness()
    cli = build_cli()
    w = workdir("c19")
    v = Verdict(PID)
    quick = tier != "thorough"
    lay, tp, st = tables(tier, w)
    mc = [tlc_mc("Cli.tla", "MC_Cli_mc.cfg", workers=2, name="c19_mc", coverage=False)]
    cs = f"{w}/cases.ndjson"
    g = tlc_gen("Cli.tla", "MC_Cli.cfg", "CASE", cs, name="c19_gen")
    # split the cases over a few harness processes (each spawns the binary and its own loopback servers)
    lines = open(cs).read().splitlines()
    nproc = 8
    import concurrent.futures
    parts = []
    for i in range(nproc):
        p = f"{w}/cases_{i}.ndjson"
        open(p, "w").write("\n".join(lines[i::nproc]) + "\n")
        parts.append(p)
    def one(i):
        return vh(["cli", "--layouts", lay, "--templates", tp, "--bin", cli, "--in", parts[i], "--reps", 1 if quick else 6,
                   "--seed", seed + i, "--out-trace", f"{w}/cli_trace_{i}.ndjson"], name=f"c19_{i}", timeout=5400)
    with concurrent.futures.ThreadPoolExecutor(nproc) as ex:
        reps = list(ex.map(one, range(nproc)))
    for r in reps:
        v.add_report(r, "cli cases")
    # implementation -> specification: what every run of the binary did (exit status, stdout, stderr; well-formedness and
    # faithfulness as decided by the independent readers) validated against Cli.tla's pipeline (Trace_Cli.tla)
    tf = f"{w}/cli_trace.ndjson"
    with open(tf, "w") as out:
        for i in range(nproc):
            p = f"{w}/cli_trace_{i}.ndjson"
            if os.path.exists(p):
                out.write(open(p).read())
    validated, ts = validate_trace(v, "Trace_Cli.tla", "Trace_Cli.cfg", tf, splitter="Invoke", max_rounds=8)
    mc.append(dict(ts, cfg="Trace_Cli.cfg"))
    nviol, _ = v.finish()
    cov = std_cov(st + mc + [g], reps, {
        "rule": "one case = (game family, output mode, output format, string class of the server-supplied strings) or an invalid invocation "
                "kind, enumerated by TLC from Cli.tla; the real gamedig_cli binary runs against a loopback reference server, stdout is parsed "
                "by independent readers (serde_json; bson + hex/base64; a strict XML 1.1 well-formedness checker) and compared with the "
                "library's response for the same replies; distinct by case",
        "exhaustive": True,
        "impl_to_spec": "every run of the binary (what was asked; exit status, stdout, stderr, panic; well-formed / faithful as decided by the "
                        "independent readers) validated line by line against spec/Trace_Cli.tla (ExitRule, NeverPrintsOnError at every step)"},
        validated=validated)
    write_evidence(PID, tier, seed, "exploration", cov, time.time() - t0, nviol,
                   ["64-bit identifiers are kept below 2^63 for the BSON formats (BSON has no unsigned 64-bit integer); the text formats see the full range",
                    "the debug format is only checked for a non-empty document and exit status",
                    "well-formedness is decided by the harness's parsers, not by TLC"])
    return 1 if nviol else 0


def replay(path):
    return generic_replay(path)
