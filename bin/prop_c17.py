"""C17 - packet reader and wire codecs conform to Buffer.tla / VarInt.tla."""
import json, os, time
from vlib import *

PID = "C17"


def run(tier, seed):
    t0 = time.time()
    build_harness()
    w = workdir("c17")
    v = Verdict(PID)
    quick = tier != "thorough"
    mc = []
    # 1. model checking of the reference models
    mc.append(tlc_mc("MC_Buffer.tla", "MC_Buffer.cfg" if quick else "MC_Buffer_t.cfg", workers=8, timeout=1500))
    mc.append(tlc_mc("MC_VarInt.tla", "MC_VarInt.cfg", workers=8))
    # 2. spec -> implementation: every transition of the model replayed on the real reader / codecs
    g1 = tlc_gen("MC_Buffer.tla", "Gen_Buffer.cfg" if quick else "Gen_Buffer_t.cfg", "TRANSITION", f"{w}/buffer.ndjson", timeout=1500)
    r1 = vh(["c17-replay-buffer", "--in", f"{w}/buffer.ndjson"], name="c17a")
    v.add_report(r1, "buffer transitions")
    # the Unreal 2 string decoder in its own universe (length bytes 0..3 / 128..130, escapes, control codes, stray 01)
    mc.append(tlc_mc("MC_Buffer.tla", "MC_Buffer_u2.cfg" if quick else "MC_Buffer_u2_t.cfg", workers=4, name="c17_u2mc"))
    g1b = tlc_gen("MC_Buffer.tla", "Gen_Buffer_u2.cfg" if quick else "Gen_Buffer_u2_t.cfg", "TRANSITION", f"{w}/buffer_u2.ndjson",
                  name="c17_u2gen", timeout=1800)
    r1b = vh(["c17-replay-buffer", "--in", f"{w}/buffer_u2.ndjson"], name="c17a2")
    v.add_report(r1b, "unreal 2 string transitions")
    g2 = tlc_gen("MC_VarInt.tla", "Gen_VarInt.cfg", "CASE", f"{w}/varint.ndjson")
    r2 = vh(["c17-replay-varint", "--in", f"{w}/varint.ndjson"], name="c17b")
    v.add_report(r2, "varint cases")
    # 3. native 2^32 VarInt round trip with the spec's encoder as oracle (quick: a stratified 2^26 slice set)
    sweeps = []
    if quick:
        ranges = [(0, 1 << 22), ((1 << 31) - (1 << 21), (1 << 31) + (1 << 21)), ((1 << 32) - (1 << 22), 1 << 32),
                  ((1 << 28) - (1 << 20), (1 << 28) + (1 << 20)), ((1 << 21) - 4096, (1 << 21) + 4096),
                  ((1 << 14) - 4096, (1 << 14) + 4096)]
    else:
        ranges = [(0, 1 << 32)]
    for lo, hi in ranges:
        r = vh(["c17-sweep", "--lo", lo, "--hi", hi, "--threads", 14], name="c17c")
        v.add_report(r, "varint sweep")
        sweeps.append(r)
    r4 = vh(["c17-misc", "--seed", seed, "--n", 20000 if quick else 500000], name="c17d")
    v.add_report(r4, "string round trip + utils")
    # 4. implementation -> spec: random longer packets / sequences validated by TLC
    tf = f"{w}/trace.ndjson"
    r5 = vh(["c17-trace", "--seed", seed, "--runs", 3000 if quick else 60000, "--out-trace", tf], name="c17e")
    v.add_report(r5, "random reader traces")
    validated, tstats = validate_trace(v, "Trace_Buffer.tla", "Trace_Buffer.cfg", tf)
    nviol, nsig = v.finish()
    reps = [r for r in [r1, r1b, r2, r4, r5] + sweeps if "crashed" not in r]
    cov = {
        "states": sum(m["states"] for m in mc) + tstats["states"],
        "transitions": sum(m["transitions"] for m in mc) + tstats["transitions"],
        "traces_validated_against_impl": validated,
        "samples": (r1.get("samples", [])[:2] + r2.get("samples", [])[:2]) or [{"note": "no samples"}],
        "evaluations": sum(r.get("evaluations", 0) for r in reps),
        "distinct_nontrivial": r1.get("distinct", 0) + r2.get("distinct", 0) + r4.get("distinct", 0) + r5.get("distinct", 0),
        "rule": "Buffer: every (packet, cursor, byte order, operation) transition TLC enumerates is one case, distinct by that tuple; "
                "VarInt: every TLC input (encoder value / decoder byte string / string input) is one case; sweep values are counted in "
                "evaluations only; random traces are distinct by packet",
        "model_checks": mc,
        "spec_to_impl": {"buffer_transitions_replayed": g1["cases"], "varint_cases_replayed": g2["cases"],
                         "varint_sweep_values": sum(r.get("evaluations", 0) for r in sweeps if "crashed" not in r)},
        "impl_to_spec": {"runs_validated": validated, "events": r5.get("extra", {}).get("events")},
        "drift": r1.get("drift_count", 0),
        "exhaustive": not quick,
    }
    write_evidence(PID, tier, seed, "model_checking", cov, time.time() - t0, nviol,
                   ["TLC; Json/IOUtils community modules; harness primitive comparisons (to_be_bytes, encode_utf16)",
                    "the real reader's state is (data, cursor) only, so covering every transition covers every operation sequence"])
    return 1 if nviol else 0


def replay(path):
    build_harness()
    rp = json.load(open(path))
    r = vh(["replay", "--in", path], name="replay")
    print(json.dumps(r, indent=1)[:4000])
    return 1 if r.get("violations") or "crashed" in r else 0
