"""C15 - the protocol-independent view equals the protocol-specific data."""
import time
from vlib import *
from pipeline import *

PID = "C15"


def run(tier, seed):
    t0 = time.time()
    build_harness()
    w = workdir("c15")
    v = Verdict(PID)
    quick = tier != "thorough"
    lay, tp, st = tables(tier, w)
    tb = f"{w}/view.ndjson"
    g = tlc_gen("CommonView.tla", "MC_CommonView.cfg", "VIEW", tb, name="c15_view")
    r1 = vhr(["common-view", "--layouts", lay, "--templates", tp, "--in", tb], 150 if quick else 5000, seed, tier, name="c15")
    v.add_report(r1, "views")
    nviol, _ = v.finish()
    cov = std_cov(st + [g], [r1], {
        "rule": "for each of the 15 response types (Eco generated directly, the others decoded from replies built over every layout shape, "
                "through the generic dispatch of a representative game): every accessor, the as_json form, every player's accessors and the "
                "as_original round trip are compared with the path CommonView.tla gives; distinct by distinct response value",
        "exhaustive": False})
    write_evidence(PID, tier, seed, "exploration", cov, time.time() - t0, nviol,
                   ["table cells marked `free` (Bedrock game mode, Mindustry host) are not checked",
                    "Epic / Minetest response types need the tls feature and are not built"])
    return 1 if nviol else 0


def replay(path):
    return generic_replay(path)
