"""C05 - Quake 1/2/3 status replies."""
from vlib import *
from pipeline import *

PID = "C05"
PROTOS = ['quake']


def more(tier, seed, w, v, lay, tp):
    """QuakeText.tla: the two text grammars as pure functions; every short variables fragment / player line (exhaustive over a
    boundary alphabet) replayed through quake::{one,two,three}::query"""
    return quake_text(PID, tier, w, v)


def run(tier, seed):
    return layout_property(PID, tier, seed, PROTOS, 'one case = one layout shape enumerated by TLC from ProtoLayout.tla (optional parts, counts, key spellings, packet counts), concretised with random server states; distinct by (protocol, shape)', more)


def replay(path):
    return generic_replay(path)
