"""C02 - Valve A2S replies are decoded field for field."""
import time
from vlib import *
from pipeline import *

PID = "C02"


def run(tier, seed):
    t0 = time.time()
    build_harness()
    w = workdir("c02")
    v = Verdict(PID)
    quick = tier != "thorough"
    lay, tp, st = tables(tier, w)
    # every (section shape x transport shape) case TLC enumerated, with several random server states each
    r1 = vhr(["valve-layouts", "--layouts", lay, "--templates", tp], 2 if quick else 60, seed, tier, name="c02")
    v.add_report(r1, "layouts x transports")
    # the exchange-level behaviours also compare the decoded response (any field mismatch is a C02 violation)
    mc = [tlc_mc("MC_ValveA2S.tla", "MC_ValveA2S.cfg", workers=8, timeout=1200)] if not quick else []
    b = f"{w}/beh.ndjson"
    g = behaviours("MC_ValveA2S.tla", "Gen_ValveA2S_C09.cfg", b, "c02_beh")
    r2 = vhr(["valve-behaviours", "--layouts", lay, "--templates", tp, "--in", b, "--only", PID], 1 if quick else 10, seed, tier, name="c02b")
    v.add_report(r2, "exchange behaviours")
    nviol, _ = v.finish()
    cov = std_cov(st + mc + [g], [r1, r2], {
        "rule": "one case = (section layout shape, transport shape) enumerated by TLC from ValveLayout.tla, concretised with random "
                "server states (strings, full numeric ranges, random fragment boundaries); distinct by (section, shape, transport)",
        "exhaustive": False})
    write_evidence(PID, tier, seed, "model_checking", cov, time.time() - t0, nviol,
                   ["layout facts are those of spec/ValveLayout.tla (Valve wiki, see DESIGN Appendix C)",
                    "bzip2 payloads are produced by python3's bz2", "sub-cases listed in spec/drift.json are reported as drift"])
    return 1 if nviol else 0


def replay(path):
    return generic_replay(path)
