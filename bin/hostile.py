"""Shared driver of C01 and C13: structured mutations (Hostile.tla catalogue) + byte-level fuzz through every entry
point, every execution trace-validated by TLC against Trace_Hostile.tla."""
import time, glob, json, os
from vlib import *
from pipeline import *


def run_hostile(pid, tier, seed, level_rule):
    t0 = time.time()
    build_harness()
    w = workdir(pid.lower())
    v = Verdict(pid)
    quick = tier != "thorough"
    lay, tp, st = tables(tier, w)
    mut = f"{w}/mutations.ndjson"
    g = tlc_gen("Hostile.tla", "MC_Hostile.cfg", "MUTATION", mut, name=f"{pid}_mut")
    # exchange-level model: every behaviour of the client ends in a return within the request bound (termination,
    # SendsBounded) - model-checked on the richest exchange
    mc = [tlc_mc("MC_ValveA2S.tla", "MC_ValveA2S.cfg", workers=8, timeout=1200)]
    common = ["--layouts", lay, "--templates", tp, "--mutations", mut, "--entries", "all", "--threads", 14]
    reps = []
    validated = 0
    tstats = {"states": 0, "transitions": 0}
    stages = [("structured", ["--nbases", 1 if quick else 8, "--max-positions", 12 if quick else 400]),
              ("bytes", ["--per-entry", 300 if quick else 40000])]
    for stage, extra in stages:
        tf = f"{w}/trace_{stage}.ndjson"
        r = vh(["fuzz", "--stage", stage, "--seed", seed, "--out-trace", tf] + common + extra, name=f"{pid}_{stage}", timeout=7200)
        if r.get("crashed") == 97 and "hang" in r:
            v.add_report(r, stage)       # the watchdog names the case itself
            continue
        if "crashed" in r:
            # an abort (allocation failure, stack overflow) or a hang of the whole process: find the case by journalling
            jp = f"{w}/journal_{stage}"
            for f in glob.glob(jp + ".*"):
                os.remove(f)
            r2 = vh(["fuzz", "--stage", stage, "--seed", seed, "--out-trace", tf, "--journal", jp] + common + extra,
                    name=f"{pid}_{stage}_j", timeout=7200)
            last = []
            for f in glob.glob(jp + ".*"):
                lines = open(f, errors="replace").read().splitlines()
                if lines:
                    try:
                        last.append(json.loads(lines[-1]))
                    except Exception:
                        pass
            # a kill from outside (SIGKILL: the kernel's out-of-memory killer, an operator) is not the program's doing, and a
            # crash that the identical, deterministic re-run does not repeat is not evidence about the code either
            if str(r["crashed"]) in ("-9", "timeout") or "crashed" not in r2:
                raise ToolError(f"{stage} fuzz process ended with rc={r['crashed']} and the journalled re-run "
                                f"{'also ended with rc=' + str(r2.get('crashed')) if 'crashed' in r2 else 'completed'}: not attributable to a case")
            v.add(f"process crash during {stage} fuzz (rc={r['crashed']})",
                  {"kind": "process-crash", "stage": stage, "rc": str(r["crashed"]), "last_cases_per_thread": last[:16],
                   "output": r.get("output", "")[-2000:]})
            continue
        v.add_report(r, stage)
        reps.append(r)
        # validate the recorded executions: in chunks of whole runs (TLC holds the chunk it validates in memory)
        chunk_cap = 1_500_000 if quick else 5_000_000
        max_chunks = 1 if quick else 16
        chunk_no = 0
        def flush(lines_buf):
            nonlocal validated, chunk_no
            if not lines_buf:
                return
            cf = f"{tf}.v{chunk_no}"
            with open(cf, "w") as o:
                o.writelines(lines_buf)
            n, ts = validate_trace(v, "Trace_Hostile.tla", "Trace_Hostile.cfg", cf, splitter="Call")
            os.remove(cf)
            validated += n
            tstats["states"] += ts["states"]
            tstats["transitions"] += ts["transitions"]
            chunk_no += 1
        buf, run = [], []
        with open(tf) as f:
            for line in f:
                if '"ev":"Call"' in line and run:
                    if len(buf) + len(run) > chunk_cap:
                        flush(buf)
                        buf = []
                        if chunk_no >= max_chunks:
                            run = []
                            break
                    buf += run
                    run = []
                run.append(line)
        if chunk_no < max_chunks:
            if run and len(buf) + len(run) <= chunk_cap:
                buf += run
            flush(buf)
        os.remove(tf)
    if pid == "C01":
        # every short Quake text line (QuakeText.tla), inside the grammar or not: never a panic
        rq, mq = quake_text(pid, tier, w, v)
        reps += rq
        mc += mq
        rq, mq = mc_text(pid, tier, w, v)
        reps += rq
        mc += mq
    nviol, _ = v.finish()
    cov = std_cov(st + mc + [g], reps, {"rule": level_rule, "exhaustive": False}, validated=validated)
    cov["states"] += tstats["states"]
    cov["transitions"] += tstats["transitions"]
    cov["entry_points"] = reps[0].get("extra", {}).get("entries") if reps else 0
    write_evidence(pid, tier, seed, "exploration", cov, time.time() - t0, nviol,
                   ["inputs are explored, not proved; datagrams up to 65507 bytes",
                    "a panic, abort, arithmetic overflow (overflow checks on) or exceeding the socket-operation bound is observed by the "
                    "harness (catch_unwind, process exit status, operation counter); allocation figures come from a counting global allocator",
                    "Eco (HTTP via ureq) is not driven through the scripted transport"])
    return 1 if nviol else 0
