"""Shared plumbing of the /verif checks: build, TLC drivers, harness driver, findings, evidence.

Exit codes of a check: 0 = property held on everything explored (KNOWN-FINDING lines allowed),
1 = violation (a line `VIOLATION property=<id> replay=<path>` was printed), 2 = tool error.
"""
import json, os, re, subprocess, sys, time, hashlib, shutil

VERIF = os.path.dirname(os.path.dirname(os.path.abspath(__file__)))   # /verif, or a snapshot of it (vp run)
# The registered checks always use /repo.  VERIF_REPO exists for background sweeps of a *snapshot* (vp run --with-repo), whose
# harness/Cargo.toml is pointed at the same snapshot by bin/bg_thorough.sh, so that /repo stays free for trying seeded changes.
REPO = os.environ.get("VERIF_REPO", "/repo")
SPEC = os.path.join(VERIF, "spec")
WORK = os.path.join(VERIF, "work")
HARNESS = os.path.join(VERIF, "harness")
VH = os.path.join(HARNESS, "target", "release", "vh")
FINDINGS = os.path.join(VERIF, "known_findings.json")
TLC_JAVA_OPTS = "-Xss1g -Dtlc2.tool.queue.IStateQueue=StateDeque"


class ToolError(Exception):
    pass


def log(*a):
    print(*a, flush=True)


def sh(cmd, timeout=None, env=None, cwd=None):
    e = dict(os.environ)
    if env:
        e.update(env)
    p = subprocess.run(cmd, shell=isinstance(cmd, str), stdout=subprocess.PIPE, stderr=subprocess.STDOUT,
                       timeout=timeout, env=e, cwd=cwd, text=True, errors="replace")
    return p.returncode, p.stdout


_built = False


def build_harness():
    """Rebuild the harness (and with it the library) from /repo's current working tree."""
    global _built
    if _built:
        return
    os.makedirs(WORK, exist_ok=True)
    lock = os.path.join(HARNESS, "Cargo.lock")
    if not os.path.exists(lock):
        shutil.copy(os.path.join(REPO, "Cargo.lock"), lock)
    t = time.time()
    # serialise concurrent builds of different checks
    import fcntl
    with open(os.path.join(WORK, ".build.lock"), "w") as lk:
        fcntl.flock(lk, fcntl.LOCK_EX)
        rc, out = sh("cargo build --release --offline 2>&1 | tail -40", cwd=HARNESS, timeout=1800,
                     env={"CARGO_NET_OFFLINE": "true"})
    if rc != 0 or not os.path.exists(VH) or "error" in out and "could not compile" in out:
        log(out)
        raise ToolError("harness build failed")
    _built = True
    log(f"[build] harness built from /repo working tree in {time.time()-t:.1f}s")


def workdir(name):
    d = os.path.join(WORK, name)
    os.makedirs(d, exist_ok=True)
    return d


# ----------------------------------------------------------------------------- TLC

def _tlc(module, cfg, workers, timeout, metaname, extra="", env=None, coverage=False):
    meta = os.path.join(WORK, "tlc_" + metaname)
    shutil.rmtree(meta, ignore_errors=True)
    cov = "-coverage 1" if coverage else ""
    cmd = (f"timeout {timeout} tlc -workers {workers} {cov} -metadir {meta} -cleanup -noGenerateSpecTE "
           f"{extra} -config {cfg} {module}")
    t = time.time()
    env = dict(env or {})
    env.setdefault("JAVA_TOOL_OPTIONS", "-Xss1g")      # deep recursion in the layout operators (Cat over hundreds of items)
    rc, out = sh(cmd, cwd=SPEC, env=env, timeout=timeout + 60)
    shutil.rmtree(meta, ignore_errors=True)
    return rc, out, time.time() - t


def parse_counts(out):
    m = re.search(r"(\d+) states generated, (\d+) distinct states found", out)
    if not m:
        return 0, 0
    return int(m.group(1)), int(m.group(2))


def tlc_mc(module, cfg, workers=8, timeout=900, name=None, coverage=True, need_actions=(), allow_never=()):
    """Exhaustive model check. Any TLC error (invariant violated, deadlock, parse error) is a tool error:
    the model itself is inconsistent, which says nothing about the code."""
    name = name or cfg.replace(".cfg", "")
    rc, out, dt = _tlc(module, cfg, workers, timeout, name, coverage=coverage)
    gen, dist = parse_counts(out)
    ok = "Model checking completed. No error has been found." in out
    if not ok:
        log(out[-6000:])
        raise ToolError(f"TLC did not complete cleanly on {module}/{cfg} (rc={rc})")
    never = []
    if coverage:
        # <Action line a, col b to line c, col d of module M>: distinct:total
        for m in re.finditer(r"^<(\w+) line \d+, col \d+ to line \d+, col \d+ of module (\w+)>: (\d+):(\d+)", out, re.M):
            if int(m.group(4)) == 0 and m.group(1) not in ("Init",) and m.group(1) not in allow_never:
                never.append(m.group(1))
        for a in need_actions:
            if not re.search(rf"^<{a} line .*>: \d+:[1-9]", out, re.M):
                never.append(a)
    if never:
        log(out[-3000:])
        raise ToolError(f"vacuity: actions never taken in {cfg}: {sorted(set(never))}")
    log(f"[tlc] {cfg}: {gen} transitions, {dist} distinct states, {dt:.1f}s")
    return {"cfg": cfg, "transitions": gen, "states": dist, "wall_s": round(dt, 1)}


def apalache_check(module, init, inv, length, cinit="ConstInit", timeout=900, name=None):
    """Bounded / inductive check with Apalache (typed module). Anything but `NoError` is a tool error: it is a statement about
    the specification, not about the code."""
    name = name or f"{module}_{init}_{inv}"
    out_dir = os.path.join(WORK, "apalache", name)
    os.makedirs(out_dir, exist_ok=True)
    cmd = ["timeout", str(timeout), "apalache-mc", "check", f"--out-dir={out_dir}", f"--cinit={cinit}", f"--init={init}",
           f"--inv={inv}", f"--length={length}", module]
    t = time.time()
    p = subprocess.run(cmd, cwd=SPEC, stdout=subprocess.PIPE, stderr=subprocess.STDOUT, text=True, errors="replace")
    dt = time.time() - t
    import shutil
    shutil.rmtree(out_dir, ignore_errors=True)
    if "The outcome is: NoError" not in p.stdout:
        log(p.stdout[-3000:])
        raise ToolError(f"apalache: {module} --init={init} --inv={inv} --length={length} did not end with NoError (rc={p.returncode})")
    log(f"[apalache] {module}: {init} /\\ {length} step(s) => {inv}: no error, {dt:.1f}s")
    return {"cfg": f"apalache {module} init={init} inv={inv} length={length}", "states": 0, "transitions": 0, "wall_s": round(dt, 1)}


_tla_str = re.compile(r'^<<"(\w+)", (".*")>>$')


def tlc_gen(module, cfg, tag, outfile, workers=1, timeout=900, name=None, simulate=None):
    """Run a generation config; collect the JSON payload of every `<<"TAG", "json">>` line."""
    name = name or cfg.replace(".cfg", "")
    extra = simulate or ""
    rc, out, dt = _tlc(module, cfg, workers, timeout, name, extra=extra)
    if simulate is None and "Model checking completed. No error has been found." not in out:
        log(out[-6000:])
        raise ToolError(f"TLC generation run failed on {cfg} (rc={rc})")
    n = 0
    seen = set()
    with open(outfile, "w") as f:
        for line in out.splitlines():
            m = _tla_str.match(line.strip())
            if m and m.group(1) == tag:
                payload = json.loads(m.group(2))
                h = hashlib.md5(payload.encode()).digest()
                if h in seen:
                    continue
                seen.add(h)
                f.write(payload + "\n")
                n += 1
    gen, dist = parse_counts(out)
    if n == 0:
        log(out[-3000:])
        raise ToolError(f"generation config {cfg} produced no {tag} lines")
    log(f"[tlc] {cfg}: {n} {tag} cases emitted ({gen} transitions, {dist} states), {dt:.1f}s")
    return {"cfg": cfg, "cases": n, "transitions": gen, "states": dist, "wall_s": round(dt, 1)}


def tlc_trace(module, cfg, tracefile, timeout=900, name=None):
    """Validate an implementation trace against a Trace_* spec.
    Returns (accepted, info). The trace spec prints `TRACE_ACCEPTED n` or `TRACE_REJECTED at=<line> ...`."""
    name = name or cfg.replace(".cfg", "")
    nlines = sum(1 for _ in open(tracefile))
    env = {"TRACE": tracefile, "JAVA_TOOL_OPTIONS": TLC_JAVA_OPTS}
    rc, out, dt = _tlc(module, cfg, 1, timeout, name, env=env)
    gen, dist = parse_counts(out)
    m = re.search(r"TRACE_REJECTED\D+(\d+)", out)
    acc = re.search(r"TRACE_ACCEPTED\D+(\d+)", out)
    if acc and not m:
        log(f"[tlc] {cfg}: trace of {nlines} events accepted ({dist} states), {dt:.1f}s")
        return True, {"cfg": cfg, "events": nlines, "states": dist, "transitions": gen, "wall_s": round(dt, 1)}
    if m:
        at = int(m.group(1))
        return False, {"cfg": cfg, "events": nlines, "rejected_at": at, "states": dist, "transitions": gen,
                       "wall_s": round(dt, 1), "tail": out[-1500:]}
    log(out[-6000:])
    raise ToolError(f"trace validation of {tracefile} with {cfg} ended without a verdict (rc={rc})")


# ----------------------------------------------------------------------------- harness

def vh(args, timeout=3600, name="vh"):
    """Run a harness driver; returns its report dict. A crash of the harness process (signal, abort)
    is returned as {'crashed': rc}."""
    build_harness()
    rp = os.path.join(WORK, f"report_{name}_{os.getpid()}.json")
    if os.path.exists(rp):
        os.remove(rp)
    cmd = [VH] + [str(a) for a in args] + ["--report", rp]
    t = time.time()
    try:
        env = dict(os.environ)
        env["RUST_BACKTRACE"] = "0"        # GDError captures a backtrace per error when this is set: far too slow
        env["RUST_LIB_BACKTRACE"] = "0"
        # the library prints debugging output on stdout in places (unreal2): discard it, keep stderr
        p = subprocess.run(cmd, stdout=subprocess.DEVNULL, stderr=subprocess.PIPE, timeout=timeout, text=True,
                           errors="replace", env=env)
        p.stdout = p.stderr
    except subprocess.TimeoutExpired:
        return {"crashed": "timeout", "output": "", "wall_s": timeout}
    dt = time.time() - t
    if p.returncode == 97 and os.path.exists(rp + ".hang"):
        # the harness's wall-clock watchdog: a call spun for WATCHDOG_SECS without touching a socket
        hang = json.load(open(rp + ".hang"))
        os.remove(rp + ".hang")
        return {"crashed": 97, "hang": hang, "output": p.stdout[-2000:], "wall_s": dt}
    if p.returncode != 0 or not os.path.exists(rp):
        return {"crashed": p.returncode, "output": p.stdout[-4000:], "wall_s": dt}
    r = json.load(open(rp))
    os.remove(rp)
    r["wall_s"] = round(dt, 2)
    if r.get("tool_errors"):
        raise ToolError("harness reported tool errors: " + "; ".join(r["tool_errors"][:5]))
    return r


def vh_par(args, reps, seed, name="vh", procs=8, timeout=7200, reps_flag="--reps"):
    """The thorough tiers: the same driver in `procs` processes, the repetitions divided between them, every process with its
    own seed (the transport hook and every counter are per process). Reports are merged."""
    from concurrent.futures import ThreadPoolExecutor
    reps = int(reps)
    procs = max(1, min(procs, reps))
    share = [reps // procs + (1 if i < reps % procs else 0) for i in range(procs)]
    def one(i):
        return vh(list(args) + [reps_flag, share[i], "--seed", int(seed) * 1000 + i if procs > 1 else seed],
                  timeout=timeout, name=f"{name}_p{i}")
    with ThreadPoolExecutor(procs) as ex:
        rs = list(ex.map(one, range(procs)))
    for r in rs:
        if "crashed" in r:
            return r
    m = dict(rs[0])
    for r in rs[1:]:
        for k in ("evaluations", "distinct", "drift_count"):
            m[k] = m.get(k, 0) + r.get(k, 0)
        for k in ("samples", "violations", "drifts"):
            m[k] = m.get(k, []) + r.get(k, [])
        for sig, n in r.get("violation_sigs", {}).items():
            m.setdefault("violation_sigs", {})[sig] = m.get("violation_sigs", {}).get(sig, 0) + n
    m["wall_s"] = max(r.get("wall_s", 0) for r in rs)
    m["processes"] = procs
    return m


def vhr(args, reps, seed, tier, name="vh", timeout=7200):
    """quick: one process; thorough: the repetitions spread over 8 processes"""
    if tier != "thorough":
        return vh(list(args) + ["--reps", reps, "--seed", seed], name=name, timeout=timeout)
    return vh_par(args, reps, seed, name=name, timeout=timeout)


# ----------------------------------------------------------------------------- findings / verdict

def load_findings():
    if not os.path.exists(FINDINGS):
        return []
    return json.load(open(FINDINGS)).get("findings", [])


class Verdict:
    """Collects violations for one property, matches them against the committed known-findings file
    (open entries only; `fixed` entries suppress nothing) and prints the protocol lines."""

    def __init__(self, pid):
        self.pid = pid
        self.violations = []   # (sig, replay)
        self.notes = []

    def add_report(self, rep, origin=""):
        if rep.get("crashed") == 97 and "hang" in rep:
            ctx = re.sub(r"[0-9a-f]{16,}", "..", str(rep["hang"].get("context", "")))[:80]
            self.violations.append((f"a call does not return (spins without socket operations; wall-clock watchdog) [{origin}] {ctx.split(' cfg ')[0]}",
                                    dict(rep["hang"], origin=origin)))
            return
        if "crashed" in rep:
            self.violations.append((f"harness process crashed ({origin}) rc={rep['crashed']}",
                                    {"kind": "process-crash", "origin": origin, "output": rep.get("output", "")}))
            return
        for v in rep.get("violations", []):
            if v["property"] == self.pid:
                self.violations.append((v["sig"], v["replay"]))
        for sig, n in rep.get("violation_sigs", {}).items():
            self.notes.append(f"{origin}: {n}x {sig}")

    def add(self, sig, replay):
        self.violations.append((sig, replay))

    def finish(self):
        opened = [f for f in load_findings() if f.get("property") == self.pid and f.get("status") == "open"]
        unknown = []
        known_hit = {}
        for sig, replay in self.violations:
            hit = None
            for f in opened:
                if re.search(f["match"], sig):
                    hit = f
                    break
            if hit:
                known_hit.setdefault(hit["id"], (hit, 0))
                known_hit[hit["id"]] = (hit, known_hit[hit["id"]][1] + 1)
            else:
                unknown.append((sig, replay))
        # an open finding is reported on every run, whether or not this run's sample hit it
        KNOWN_HITS[self.pid] = [{"id": f["id"], "reproduced_in_this_run": known_hit.get(f["id"], (f, 0))[1]} for f in opened]
        for f in opened:
            log(f"KNOWN-FINDING: property={self.pid} {f['what']}")
        rd = workdir("replay")
        seen = set()
        n = 0
        for sig, replay in unknown:
            if sig in seen:
                continue
            seen.add(sig)
            n += 1
            path = os.path.join(rd, f"{self.pid}_{n}.json")
            json.dump({"property": self.pid, "sig": sig, "replay": replay}, open(path, "w"), indent=1)
            log(f"VIOLATION property={self.pid} replay={path}")
            log(f"  signature: {sig}")
            if n >= 10:
                break
        return len(unknown), len(seen)


KNOWN_HITS = {}


def write_evidence(pid, tier, seed, level, coverage, wall_s, violations, assumptions):
    os.makedirs(os.path.join(VERIF, "evidence"), exist_ok=True)
    if KNOWN_HITS.get(pid):
        coverage = dict(coverage, known_findings=KNOWN_HITS[pid])
    ev = {"property_id": pid, "tier": tier, "seed": int(seed), "level": level, "coverage": coverage,
          "assumptions": assumptions, "wall_s": round(wall_s, 1), "violations": int(violations)}
    json.dump(ev, open(os.path.join(VERIF, "evidence", f"{pid}.json"), "w"), indent=1, sort_keys=True)


def seed_from_env():
    try:
        return int(os.environ.get("VERIF_SEED", "1"))
    except ValueError:
        return 1


def main_wrapper(fn):
    try:
        rc = fn()
    except ToolError as e:
        log(f"TOOL-ERROR: {e}")
        sys.exit(2)
    except subprocess.TimeoutExpired as e:
        log(f"TOOL-ERROR: timeout {e}")
        sys.exit(2)
    sys.exit(rc)


def generic_replay(path):
    build_harness()
    r = vh(["replay", "--in", path], name="replay")
    print(json.dumps(r, indent=1)[:6000])
    return 1 if (r.get("violations") or "crashed" in r) else 0


def validate_trace_chunked(v, module, cfg, tracefile, splitter, chunk_events=1_500_000, max_chunks=16):
    """Large traces: validate in chunks of whole runs (TLC holds the chunk it validates in memory). Runs beyond
    max_chunks x chunk_events are not validated (the number validated is what is reported)."""
    validated = 0
    stats = {"states": 0, "transitions": 0}
    chunk, n_chunks = [], 0

    def flush():
        nonlocal validated, n_chunks, chunk
        if not chunk:
            return
        cf = f"{tracefile}.c{n_chunks}"
        open(cf, "w").write("\n".join(chunk) + "\n")
        n, st = validate_trace(v, module, cfg, cf, splitter=splitter, max_rounds=4)
        validated += n
        stats["states"] += st["states"]; stats["transitions"] += st["transitions"]
        os.remove(cf)
        n_chunks += 1
        chunk = []

    run = []
    with open(tracefile) as f:
        for line in f:
            line = line.rstrip("\n")
            if not line:
                continue
            if f'"ev":"{splitter}"' in line and run:
                if len(chunk) + len(run) > chunk_events:
                    flush()
                    if n_chunks >= max_chunks:
                        run = []
                        break
                chunk += run
                run = []
            run.append(line)
    if n_chunks < max_chunks:
        chunk += run
        flush()
    return validated, stats


def validate_trace(v, module, cfg, tracefile, splitter="New", max_rounds=6, redo=None):
    """Validate; on rejection report the run containing the rejected line, drop it, validate the rest."""
    validated = 0
    stats = {"states": 0, "transitions": 0}
    for _ in range(max_rounds):
        ok, info = tlc_trace(module, cfg, tracefile)
        stats["states"] += info["states"]; stats["transitions"] += info["transitions"]
        lines = open(tracefile).read().splitlines()
        if ok:
            validated += sum(1 for l in lines if json.loads(l).get("ev") == splitter)
            return validated, stats
        at = info["rejected_at"]              # 1-based index of the first unmatched line
        start = at - 1
        while start > 0 and json.loads(lines[start]).get("ev") != splitter:
            start -= 1
        end = at
        while end < len(lines) and json.loads(lines[end]).get("ev") != splitter:
            end += 1
        run = [json.loads(l) for l in lines[start:end]]
        bad = json.loads(lines[at - 1]) if at - 1 < len(lines) else None
        op = (bad or {}).get("o", {}).get("op", "?") if isinstance((bad or {}).get("o"), dict) else (bad or {}).get("ev", "?")
        # where the trace names the case (Dispatch: game id of the run, call path of the rejected observation) the signature
        # names it too, so that a known finding can be told from any other rejection
        where = ""
        if run and run[0].get("id") is not None:
            where = f" id={run[0]['id']}" + (f" path={bad['path']}" if isinstance(bad, dict) and bad.get("path") else "")
        detail = {"kind": "trace-run", "module": module, "cfg": cfg, "run": run, "rejected_event": bad}
        if redo is not None and run and run[0].get("ix") is not None:
            # the driver is deterministic: run it again and have it hand out the script of the rejected run
            try:
                d = redo(int(run[0]["ix"]))
                if d:
                    detail = dict(d, trace_run=run, rejected_event=bad, module=module)
            except Exception as e:     # diagnosis only
                detail["redo_failed"] = str(e)
        v.add(f"trace rejected by {module}:{where} op={op} {'panic' if (bad or {}).get('ev')=='Panic' else 'not a model step'}", detail)
        validated += sum(1 for l in lines[:start] if json.loads(l).get("ev") == splitter)
        rest = lines[end:]
        if not rest:
            return validated, stats
        open(tracefile, "w").write("\n".join(rest) + "\n")
    return validated, stats


