"""Steps shared by several properties: exporting the layout / template tables from the TLA+ specs."""
import os
from vlib import *

_cache = {}


def tables(tier, w):
    """Model-check the layout specs (well-formedness invariants) and export every layout and request
    template. Returns (layouts.ndjson, templates.ndjson, [mc stats])."""
    key = (tier, w)
    if key in _cache:
        return _cache[key]
    quick = tier != "thorough"
    lay = f"{w}/layouts.ndjson"
    tp = f"{w}/templates.ndjson"
    stats = []
    parts = []
    for mod, cfg in LAYOUT_SPECS:
        c = cfg if quick or not os.path.exists(os.path.join(SPEC, cfg.replace(".cfg", "_t.cfg"))) else cfg.replace(".cfg", "_t.cfg")
        out = f"{w}/{mod}.layouts.ndjson"
        stats.append(tlc_gen(mod + ".tla", c, "LAYOUT", out, name=f"{os.path.basename(w)}_{mod}"))
        parts.append(out)
    with open(lay, "w") as f:
        for p in parts:
            f.write(open(p).read())
    stats.append(tlc_gen("Templates.tla", "MC_Templates.cfg", "TEMPLATE", tp, name=f"{os.path.basename(w)}_templates"))
    _cache[key] = (lay, tp, stats)
    return _cache[key]


LAYOUT_SPECS = [("MC_ValveLayout", "MC_ValveLayout.cfg"), ("MC_ProtoLayout", "MC_ProtoLayout.cfg")]


def behaviours(module, cfg, out, name):
    return tlc_gen(module, cfg, "BEHAVIOUR", out, name=name)


def cfg_for(tier, base):
    t = base.replace(".cfg", "_t.cfg")
    if tier == "thorough" and os.path.exists(os.path.join(SPEC, t)):
        return t
    return base


def std_cov(mc, reps, extra=None, validated=0):
    reps = [r for r in reps if r and "crashed" not in r]
    samples = []
    for r in reps:
        samples += r.get("samples", [])[:2]
    cov = {
        "states": sum(m.get("states", 0) for m in mc),
        "transitions": sum(m.get("transitions", 0) for m in mc),
        "traces_validated_against_impl": validated,
        "samples": samples[:6] or [{"note": "no samples"}],
        "evaluations": sum(r.get("evaluations", 0) for r in reps),
        "distinct_nontrivial": sum(r.get("distinct", 0) for r in reps),
        "drift": sum(r.get("drift_count", 0) for r in reps),
        "tlc_runs": mc,
    }
    if extra:
        cov.update(extra)
    return cov


def layout_property(pid, tier, seed, protos, title_rule, more=None, level="model_checking"):
    """Common shape of C03-C07: every layout shape TLC enumerates for `protos`, concretised with random server
    states, replayed through the real entry point and compared field by field."""
    import time
    t0 = time.time()
    build_harness()
    w = workdir(pid.lower())
    v = Verdict(pid)
    quick = tier != "thorough"
    lay, tp, st = tables(tier, w)
    r1 = vhr(["proto-layouts", "--layouts", lay, "--protos", ",".join(protos)], 3 if quick else 40, seed, tier, name=pid.lower())
    v.add_report(r1, "layouts")
    reps = [r1]
    mc = []
    if more:
        reps2, mc2 = more(tier, seed, w, v, lay, tp)
        reps += reps2
        mc += mc2
    nviol, _ = v.finish()
    cov = std_cov(st + mc, reps, {"rule": title_rule, "exhaustive": False})
    write_evidence(pid, tier, seed, level, cov, time.time() - t0, nviol,
                   ["layout facts are those of spec/ProtoLayout.tla (sources and confidence: DESIGN Appendix C)",
                    "field values are sampled from each wire type's domain (structure is enumerated exhaustively by TLC)",
                    "scripted transport hook"])
    return 1 if nviol else 0


def valve_trace(pid, tier, seed, w, v, lay, tp):
    """implementation -> specification: random recorded valve exchanges (more retries and challenge rounds than the
    exhaustive configurations, junk replies) validated line by line against Trace_ValveA2S.tla.
    Returns (harness report, runs validated, tlc stats)."""
    quick = tier != "thorough"
    tf = f"{w}/valve_trace.ndjson"
    if not quick:
        # the exchange is what is validated here: replies are built from the small layout tables (255-player replies make
        # the driver 500 times slower and add nothing to the control flow)
        lay, tp, _ = tables("quick", workdir(os.path.basename(w) + "_q"))
    r = vh(["valve-trace", "--layouts", lay, "--templates", tp, "--runs", 6000 if quick else 150000, "--seed", seed,
            "--out-trace", tf], name=pid.lower() + "vt")
    v.add_report(r, "valve recorded exchanges")
    runs = 6000 if quick else 150000
    def redo(ix):
        rr = vh(["valve-trace", "--layouts", lay, "--templates", tp, "--runs", ix + 1, "--seed", seed, "--dump-run", ix,
                 "--out-trace", tf + ".redo"], name=pid.lower() + "vtr")
        return rr.get("extra", {}).get("dumped_run")
    validated, ts = validate_trace(v, "Trace_ValveA2S.tla", "Trace_ValveA2S.cfg", tf, splitter="Call", max_rounds=8, redo=redo)
    ts = dict(ts, cfg="Trace_ValveA2S.cfg", events=r.get("extra", {}).get("events"))
    return r, validated, ts


def exchange_trace(pid, tier, seed, w, v, lay, tp):
    """implementation -> specification for the single-unit protocols: random recorded exchanges (retries up to 5, random
    reactions at every receive position, FFOW challenge rounds) validated line by line against Trace_Exchange.tla."""
    quick = tier != "thorough"
    tf = f"{w}/exchange_trace.ndjson"
    if not quick:
        lay, tp, _ = tables("quick", workdir(os.path.basename(w) + "_q"))
    r = vh(["exchange-trace", "--layouts", lay, "--templates", tp, "--runs", 6000 if quick else 150000, "--seed", seed,
            "--out-trace", tf], name=pid.lower() + "xt")
    v.add_report(r, "recorded single-unit exchanges")
    def redo(ix):
        rr = vh(["exchange-trace", "--layouts", lay, "--templates", tp, "--runs", ix + 1, "--seed", seed, "--dump-run", ix,
                 "--out-trace", tf + ".redo"], name=pid.lower() + "xtr")
        return rr.get("extra", {}).get("dumped_run")
    validated, ts = validate_trace(v, "Trace_Exchange.tla", "Trace_Exchange.cfg", tf, splitter="Call", max_rounds=8, redo=redo)
    ts = dict(ts, cfg="Trace_Exchange.cfg", events=r.get("extra", {}).get("events"))
    return r, validated, ts


def quake_text(pid, tier, w, v):
    quick = tier != "thorough"
    mc = [tlc_mc("MC_QuakeText.tla", "MC_QuakeText.cfg", workers=4, name=pid.lower() + "_qtmc")]
    f = f"{w}/quaketext.ndjson"
    mc.append(tlc_gen("MC_QuakeText.tla", "Gen_QuakeText.cfg" if quick else "Gen_QuakeText_t.cfg", "CASE", f, name=pid.lower() + "_qtgen",
                      timeout=1800))
    r = vh(["quaketext", "--in", f], name=pid.lower() + "qt")
    v.add_report(r, "quake text lines")
    return [r], mc


def mc_text(pid, tier, w, v):
    quick = tier != "thorough"
    mc = [tlc_mc("MC_McText.tla", "MC_McText.cfg", workers=4, name=pid.lower() + "_mtmc")]
    f = f"{w}/mctext.ndjson"
    mc.append(tlc_gen("MC_McText.tla", "Gen_McText.cfg" if quick else "Gen_McText_t.cfg", "CASE", f, name=pid.lower() + "_mtgen", timeout=1800))
    r = vh(["mctext", "--in", f], name=pid.lower() + "mt")
    v.add_report(r, "minecraft status strings")
    return [r], mc


def unreal2_trace(pid, tier, seed, w, v, lay):
    """implementation -> specification: random recorded Unreal 2 queries (toggles, retries up to 5, an outcome per attempt)
    validated line by line against Trace_Unreal2.tla"""
    quick = tier != "thorough"
    tf = f"{w}/unreal2_trace.ndjson"
    if not quick:
        lay, _, _ = tables("quick", workdir(os.path.basename(w) + "_q"))
    r = vh(["unreal2-trace", "--layouts", lay, "--runs", 6000 if quick else 150000, "--seed", seed, "--out-trace", tf], name=pid.lower() + "ut")
    v.add_report(r, "recorded unreal 2 queries")
    def redo(ix):
        rr = vh(["unreal2-trace", "--layouts", lay, "--runs", ix + 1, "--seed", seed, "--dump-run", ix, "--out-trace", tf + ".redo"], name=pid.lower() + "utr")
        return rr.get("extra", {}).get("dumped_run")
    validated, ts = validate_trace(v, "Trace_Unreal2.tla", "Trace_Unreal2.cfg", tf, splitter="Call", max_rounds=8, redo=redo)
    return r, validated, dict(ts, cfg="Trace_Unreal2.cfg", events=r.get("extra", {}).get("events"))
