#!/usr/bin/env python3
"""mk_seed_tasks.py: one scratch worktree of /repo HEAD per property under /tmp/se/<id> with a TASK.md for an independent
sub-agent: the property's text and anchors, the rules for a seeded change, and one line per change written before (so that the
new one aims elsewhere).  Nothing of /verif's machinery is given to the sub-agent."""
import json, re, subprocess, os, sys
root = os.path.join(os.path.dirname(os.path.abspath(__file__)), '..')
props = {json.loads(l)['id']: json.loads(l) for l in open(os.path.join(root, 'properties.jsonl'))}
hint = sys.argv[1] if len(sys.argv) > 1 else ''
tried = {}
for l in open(os.path.join(root, 'DESIGN.md')):
    m = re.match(r'\| (C\d\d)_([a-z]) (.*?) \| (.*?) \| ', l)
    if m:
        tried.setdefault(m.group(1), []).append(f"- {m.group(3)} (needed: {m.group(4)})")
os.makedirs('/tmp/se', exist_ok=True)
for pid, p in props.items():
    wt = f'/tmp/se/{pid}'
    subprocess.run(['git', '-C', '/repo', 'worktree', 'remove', '--force', wt], capture_output=True)
    subprocess.run(['git', '-C', '/repo', 'worktree', 'add', '--detach', wt, 'HEAD', '-q'], check=True)
    subprocess.run(['cp', '/repo/Cargo.lock', wt + '/Cargo.lock'])
    task = f"""# Task: write one realistic property-breaking change ("seeded defect") for rust-gamedig

You are working in your own scratch git worktree of the rust-gamedig repository: `{wt}` (Rust workspace:
library `crates/lib`, CLI `crates/cli`, id checker `crates/id-tests`). Work ONLY inside this directory. Do not
read or touch /repo, /verif or any other /tmp/se/* directory. There is no network: always pass `--offline` to cargo.
Keep all build output inside this directory (e.g. default `target/`, or a `CARGO_TARGET_DIR` inside it).

## The property (a semantic guarantee users of the library rely on)

id: {pid}
title: {p['title']}

statement: {p['statement']}

quantified over: {p['quantifier']['text']}

code the property is anchored in: {', '.join(p['anchors']['files'])}

mechanisms: {json.dumps(p['anchors'].get('mechanism', []))}

## What to produce

A small source change to the repository (a plausible refactor / optimisation / leniency tweak / "bug fix" that a
maintainer could merge by mistake) that BREAKS this property while
1. still compiling (default features; `cargo build --workspace --offline`), and
2. still passing the existing test suite unchanged:
   `cargo nextest run --workspace --no-fail-fast --offline` (57 pass; `errors::kind::tests::test_display`
   fails already on the unchanged tree and does not count).

The change must need something *specific* to manifest — a particular value or boundary, an unusual but legal reply
shape, a multi-step sequence, a particular configuration combination, a particular arrival order or fault at a
particular point, or two cooperating code sites that each look fine alone. It must NOT be something ordinary use
(a default query against an ordinary server) would expose at once. {hint}
Prefer a part of the property's statement or of the anchored code that the changes below did not touch (these were
tried before; do something different, in a different code site or sub-clause, needing a different kind of trigger):

{chr(10).join(tried.get(pid, []))}

Do not edit, delete or weaken existing tests. Do not touch `crates/lib/src/verif_hook.rs` or any
`#[cfg(gamedig_verif)]` block (inert instrumentation).

Also produce a demonstration: a small stand-alone program or test (it may be a tiny cargo binary crate with a path
dependency on `<checkout>/crates/lib`, features `serde`/`clap` allowed; crates available offline include serde_json,
rand, tiny_http; python3 is available for mock servers) that PASSES (exit 0) on the unchanged checkout and FAILS
(non-zero exit) on the changed checkout, by exercising the public API (mock UDP/TCP servers on 127.0.0.1 are
fine) and checking what the property says.

## Deliverables — put them in `{wt}/DELIVER/`

- `patch.diff`  — `git diff` of your change to the repository sources only (no DELIVER/, no target/, no Cargo.lock).
- `demo.sh`     — usage `demo.sh <path-of-checkout>`; builds/runs the demonstration against that checkout;
                  exit 0 = property holds, non-zero = broken. Put sources it needs under `DELIVER/demo/`.
                  It must keep its build output under `DELIVER/demo-build/` (not in the checkout).
- `NOTES.md`    — what the change is, why it breaks the property, exactly what it needs in order to manifest,
                  and what you ran (commands + observed results: build, test suite with the change, demo with and
                  without the change).

Before finishing: verify everything yourself (suite passes with change; demo fails with change; `git stash` /
`git apply -R` then demo passes without), then leave the worktree with the change APPLIED, and remove large
build directories you no longer need except `target/`. Your final message should be a 5-line summary.
"""
    open(wt + '/TASK.md', 'w').write(task)
print(len(props), 'worktrees under /tmp/se')
