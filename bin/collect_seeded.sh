#!/bin/bash
# collect_seeded.sh <property id> <round letter>: takes a sub-agent's deliverables from its scratch worktree
# /tmp/se/<id>/DELIVER, stores them as seeded/<id>_<round>/, confirms them independently (confirm_mutant2.sh:
# fresh worktree of /repo HEAD; compiles, 57 tests pass, demo fails with / passes without) and removes the scratch worktree.
set -u
id=$1; r=$2; src=/tmp/se/$id/DELIVER; dst=$(dirname "$0")/../seeded/${id}_$r
[ -f $src/patch.diff ] || { echo "no deliverables in $src"; exit 2; }
mkdir -p $dst
rm -rf $src/demo-build
cp -r $src/. $dst/
rm -rf $dst/demo-build $dst/target
"$(dirname "$0")"/confirm_mutant2.sh $dst
rm -rf $dst/demo-build
git -C /repo worktree remove --force /tmp/se/$id
