"""C08 - multi-datagram responses do not depend on arrival order."""
import time
from vlib import *
from pipeline import *

PID = "C08"


def run(tier, seed):
    t0 = time.time()
    build_harness()
    w = workdir("c08")
    v = Verdict(PID)
    quick = tier != "thorough"
    lay, tp, st = tables(tier, w)
    mc = [tlc_mc("MC_Reassembly.tla", "MC_Reassembly.cfg", workers=4)]
    sched = f"{w}/schedules.ndjson"
    g = tlc_gen("MC_Reassembly.tla", cfg_for(tier, "Gen_Reassembly.cfg"), "SCHEDULE", sched, name="c08_gen")
    # six fragments: sampled (TLC simulation mode), as the property's quantifier says
    sched6 = f"{w}/schedules6.ndjson"
    g6 = tlc_gen("MC_Reassembly.tla", "Gen_Reassembly_6.cfg", "SCHEDULE", sched6, name="c08_gen6",
                 simulate=f"-simulate num={150 if quick else 3000} -depth 12 -seed {seed}")
    with open(sched, "a") as f:
        f.write(open(sched6).read())
    r1 = vhr(["reassembly", "--layouts", lay, "--templates", tp, "--in", sched], 2 if quick else 12, seed, tier, name="c08")
    v.add_report(r1, "delivery schedules")
    # implementation -> specification: random deliveries recorded from the real clients, validated against Trace_Reassembly.tla
    tf = f"{w}/reassembly_trace.ndjson"
    r2 = vh(["reassembly-trace", "--layouts", lay, "--templates", tp, "--runs", 1500 if quick else 40000, "--seed", seed, "--out-trace", tf], name="c08t")
    v.add_report(r2, "recorded deliveries")
    validated, ts = validate_trace(v, "Trace_Reassembly.tla", "Trace_Reassembly.cfg", tf, splitter="Call", max_rounds=8)
    mc.append(dict(ts, cfg="Trace_Reassembly.cfg"))
    nviol, _ = v.finish()
    cov = std_cov(st + mc + [g, g6], [r1, r2], {
        "impl_to_spec": "random recorded deliveries (2-8 fragments, up to two duplicates, possibly one fragment that never arrives) through "
                        "the real clients validated line by line against spec/Trace_Reassembly.tla",
        "rule": "one case = one delivery schedule enumerated by TLC (every permutation of 2..4 (quick) / 2..5 (thorough) fragments and every "
                "single duplication at every later position; six fragments sampled by TLC's simulation mode) x protocol variant (Valve Source split plain and bzip2-compressed, Valve GoldSrc split, GameSpy 1 parts, "
                "GameSpy 3 packets, Unreal 2 lists) with a random response and random fragment boundaries; distinct by (k, mode, order)",
        "exhaustive": True}, validated=validated)
    write_evidence(PID, tier, seed, "model_checking", cov, time.time() - t0, nviol,
                   ["D1: Unreal 2 lists have no protocol order and are compared as multisets; duplicated Unreal 2 datagrams are outside "
                    "the decidable domain (no sequence numbers)", "scripted transport hook"])
    return 1 if nviol else 0


def replay(path):
    return generic_replay(path)
