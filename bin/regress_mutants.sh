#!/bin/bash
# regress_mutants.sh: every seeded change against the quick check of its property (C04_b: C08, whose subject it is).
# Writes seeded/REGRESSION.md. Do not run while a background run is active (the patches are applied to /repo).
cd "$(dirname "$0")/.."
out=seeded/REGRESSION.md
echo "# Seeded changes vs. quick checks ($(date -u +%Y-%m-%dT%H:%MZ), /repo $(git -C /repo rev-parse --short HEAD))" > $out
echo >> $out
echo "| seeded change | check | result |" >> $out
echo "|---|---|---|" >> $out
for d in seeded/C*_[a-z]; do
  n=$(basename $d); id=${n%%_*}
  [ "$n" = "C04_b" ] && id=C08; [ "$n" = "C02_g" ] && id=C08; [ "$n" = "C03_h" ] && id=C10; [ "$n" = "C04_i" ] && id=C08
  r=$(bin/try_mutant.sh $d $id 2>&1 | tail -1)
  res=$(echo "$r" | awk '{print $3}')
  sig=$(echo "$r" | sed 's/.*signature: //; s/;.*//' | cut -c1-110)
  echo "| $n | $id | $res ${sig:+— $sig} |" >> $out
  echo "$n $id $res"
done
