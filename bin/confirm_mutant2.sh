#!/bin/bash
# confirm_mutant2.sh <dir with patch.diff + demo.sh>: in a scratch worktree of /repo HEAD: demo passes without the patch,
# the patch applies and compiles, the existing suite still passes, the demo fails with the patch. Writes <dir>/confirm.log.
set -u
d=$(realpath "$1"); name=$(basename "$d"); wt=/tmp/cm_$name
git -C /repo worktree remove --force $wt 2>/dev/null
git -C /repo worktree add --detach $wt HEAD -q || exit 2
[ -f $wt/Cargo.lock ] || cp /repo/Cargo.lock $wt/Cargo.lock      # the lock file is not tracked
{
echo "== base: $(git -C $wt rev-parse --short HEAD)"
echo "== demo WITHOUT patch"; bash "$d/demo.sh" $wt 2>&1 | tail -8; echo "demo rc=${PIPESTATUS[0]}"
git -C $wt apply "$d/patch.diff" || echo "PATCH DOES NOT APPLY"
echo "== suite WITH patch"; (cd $wt && CARGO_TARGET_DIR=/tmp/cm_target cargo nextest run --workspace --no-fail-fast --offline 2>&1 | grep -E "Summary|FAIL " | head)
echo "== demo WITH patch"; bash "$d/demo.sh" $wt 2>&1 | tail -8; echo "demo rc=${PIPESTATUS[0]}"
} > "$d/confirm.log" 2>&1
git -C /repo worktree remove --force $wt
grep -E "demo rc|Summary|DOES NOT" "$d/confirm.log"
