"""C20 - the game-id naming checker is total and self-consistent."""
import time
from vlib import *
from pipeline import *

PID = "C20"


def run(tier, seed):
    t0 = time.time()
    build_harness()
    w = workdir("c20")
    v = Verdict(PID)
    quick = tier != "thorough"
    sh = f"{w}/shapes.ndjson"
    g = tlc_gen("IdRules.tla", cfg_for(tier, "MC_IdRules.cfg"), "SHAPE", sh, name="c20_gen", timeout=1800)
    tf = f"{w}/trace.ndjson"
    r1 = vh(["idrules", "--in", sh, "--reps", 2 if quick else 3, "--seed", seed, "--out-trace", tf], name="c20", timeout=3000)
    v.add_report(r1, "name shapes")
    if quick:
        validated, ts = validate_trace(v, "Trace_IdRules.tla", "Trace_IdRules.cfg", tf, splitter="Name", max_rounds=8)
    else:
        validated, ts = validate_trace_chunked(v, "Trace_IdRules.tla", "Trace_IdRules.cfg", tf, splitter="Name")
    nviol, _ = v.finish()
    cov = std_cov([g], [r1], {
        "rule": "one case = one name shape (token-kind sequence up to 3 (quick) / 5 (thorough) core tokens x leading number x trailing "
                "number/year x bracket suffix x mod suffix) enumerated by TLC, tokens filled with random words; per name: a wrong id, a second "
                "wrong id, every reported expected id and three near-miss ids are proposed; plus random lists of 1-4 games and the shipped table",
        "exhaustive": True}, validated=validated)
    cov["states"] += ts["states"]; cov["transitions"] += ts["transitions"]
    write_evidence(PID, tier, seed, "exploration", cov, time.time() - t0, nviol,
                   ["wrong ids are lower-case alphanumeric (an upper-case id also makes the checker report its lower-cased form, which is not an id for the name)",
                    "a number hyphenated with a word ('66-Drive') is not in the documented grammar and is not generated"])
    return 1 if nviol else 0


def replay(path):
    return generic_replay(path)
