#!/bin/bash
# confirm_mutant.sh <seeded dir>: checks, in a scratch worktree of /repo HEAD, that the patch compiles, the
# existing suite still passes (57 + the always-failing test_display), the demo fails with the patch and
# passes without it. Writes <dir>/confirm.log; removes the worktree.
set -u
d=$(realpath "$1"); name=$(basename "$d"); wt=/tmp/cm_$name
git -C /repo worktree remove --force $wt 2>/dev/null
git -C /repo worktree add --detach $wt HEAD -q || exit 2
export CARGO_TARGET_DIR=${CM_TARGET:-/tmp/cm_target}
cd $wt
{
echo "== base: $(git rev-parse --short HEAD)"
cp "$d/demo_mutant.rs" crates/lib/tests/demo_mutant.rs
echo "== demo WITHOUT patch"; cargo test -p gamedig --offline --features serde --test demo_mutant 2>&1 | grep -E "^test result|^test .*(FAILED|ok)$|error" | head -20
git apply "$d/patch.diff" || { echo "PATCH DOES NOT APPLY"; }
echo "== suite WITH patch"; cargo nextest run --workspace --no-fail-fast --offline -E 'not binary(demo_mutant)' 2>&1 | grep -E "Summary|FAIL " | head
echo "== demo WITH patch"; cargo test -p gamedig --offline --features serde --test demo_mutant 2>&1 | grep -E "^test result|^test .*(FAILED|ok)$|error" | head -20
} > "$d/confirm.log" 2>&1
cd /; git -C /repo worktree remove --force $wt
cat "$d/confirm.log"
