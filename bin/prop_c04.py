"""C04 - GameSpy 1/2/3 replies are decoded completely."""
from vlib import *
from pipeline import *

PID = "C04"
PROTOS = ['gs1', 'gs2', 'gs3']


def more(tier, seed, w, v, lay, tp):
    """QuakeText.tla (kind gs1): the backslash variables grammar, every short fragment through gamespy::one::query_vars"""
    return quake_text(PID, tier, w, v)


def run(tier, seed):
    return layout_property(PID, tier, seed, PROTOS, 'one case = one layout shape enumerated by TLC from ProtoLayout.tla (optional parts, counts, key spellings, packet counts), concretised with random server states; distinct by (protocol, shape)', more)


def replay(path):
    return generic_replay(path)
