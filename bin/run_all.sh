#!/bin/bash
# run_all.sh <quick|thorough> [ids...]: run the checks one after the other; one summary line each
tier=${1:-quick}; shift
ids=${@:-C01 C02 C03 C04 C05 C06 C07 C08 C09 C10 C11 C12 C13 C14 C15 C16 C17 C18 C19 C20}
cd "$(dirname "$0")/.."
for id in $ids; do
  s=$(date +%s); out=$(bin/check $id $tier 2>&1); rc=$?; e=$(date +%s)
  echo "$id rc=$rc $((e-s))s $(echo "$out" | grep -cE '^VIOLATION') violations $(echo "$out" | grep -E 'TOOL-ERROR' | head -1)"
  [ $rc -ne 0 ] && echo "$out" | grep -E "signature|TOOL" | head -5
done
