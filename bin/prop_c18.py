"""C18 - settings are validated; no accepted configuration can panic."""
import time
from vlib import *
from pipeline import *

PID = "C18"


def run(tier, seed):
    t0 = time.time()
    build_harness()
    w = workdir("c18")
    v = Verdict(PID)
    lay, tp, st = tables(tier, w)
    b = f"{w}/beh.ndjson"
    g = tlc_gen("MC_Settings.tla", "MC_Settings.cfg", "BEHAVIOUR", b, name="c18_gen")
    mc = [tlc_mc("MC_Settings.tla", "MC_Settings_mc.cfg", workers=4, name="c18_mc", coverage=False)]
    tf = f"{w}/settings_trace.ndjson"
    r1 = vh(["settings", "--layouts", lay, "--templates", tp, "--in", b, "--seed", seed, "--out-trace", tf], name="c18", timeout=3000)
    v.add_report(r1, "construction x use")
    # implementation -> specification: what every construction path really decided and whether every use came back
    validated, ts = validate_trace(v, "Trace_Settings.tla", "Trace_Settings.cfg", tf, splitter="Build", max_rounds=8)
    mc.append(dict(ts, cfg="Trace_Settings.cfg"))
    r2 = vh(["settings-real", "--seed", seed], name="c18r", timeout=600)
    v.add_report(r2, "accepted extremes on real loopback sockets")
    nviol, _ = v.finish()
    cov = std_cov(st + mc + [g], [r1, r2], {
        "rule": "every (path, read, write, connect, retries) configuration TLC enumerates (5^3 x 5 for new/serde, 4^3 x 5 for the command "
                "line, Default) is constructed through the real path; every accepted one is used for a query of 13 entry points against a "
                "valid, a malformed and (for small retry counts) a silent scripted server; distinct by configuration",
        "exhaustive": True,
        "impl_to_spec": "every construction (path, durations, retries -> accepted / rejected) and every use (returned or not) recorded and "
                        "validated line by line against spec/Trace_Settings.tla (ZeroRejected, NonZeroAccepted, UseOnlyAccepted at every step)"},
        validated=validated)
    write_evidence(PID, tier, seed, "fault_enumeration", cov, time.time() - t0, nviol,
                   ["a silent server with a retry count of usize::MAX is legitimately retried for ever and is not run",
                    "the command line expresses whole seconds only; an omitted flag is the documented 4 s default"])
    return 1 if nviol else 0


def replay(path):
    return generic_replay(path)
