"""C16 - master-server filters are encoded faithfully and paging is complete."""
import time
from vlib import *
from pipeline import *

PID = "C16"


def run(tier, seed):
    t0 = time.time()
    build_harness()
    w = workdir("c16")
    v = Verdict(PID)
    quick = tier != "thorough"
    mc = [tlc_mc("MC_MasterServer.tla", "MC_MasterServer_f.cfg", workers=4, name="c16_mcf", coverage=False),
          tlc_mc("MC_MasterServer.tla", "MC_MasterServer_p.cfg", workers=4, name="c16_mcp", coverage=False)]
    reps = []
    gens = []
    for mode in ("f", "p", "b"):
        b = f"{w}/beh_{mode}.ndjson"
        gens.append(tlc_gen("MC_MasterServer.tla", cfg_for(tier, f"Gen_MasterServer_{mode}.cfg"), "BEHAVIOUR", b, name=f"c16_gen{mode}", timeout=1800))
        r = vhr(["master", "--in", b], {"f": 2 if quick else 6, "p": 5 if quick else 40, "b": 6 if quick else 60}[mode], seed, tier, name=f"c16{mode}")
        v.add_report(r, {"f": "filters", "p": "paging", "b": "large filter groups"}[mode])
        reps.append(r)
    # implementation -> specification: recorded random page sequences (1-8 pages, small host pool) validated by TLC
    tf = f"{w}/master_trace.ndjson"
    rt = vh(["master-trace", "--runs", 3000 if quick else 60000, "--seed", seed, "--out-trace", tf], name="c16t")
    v.add_report(rt, "recorded page sequences")
    reps.append(rt)
    validated, ts = validate_trace(v, "Trace_MasterServer.tla", "Trace_MasterServer.cfg", tf, splitter="Call", max_rounds=8)
    mc.append(dict(ts, cfg="Trace_MasterServer.cfg", events=rt.get("extra", {}).get("events")))
    nviol, _ = v.finish()
    cov = std_cov(mc + gens, reps, {
        "rule": "filters: every insertion sequence TLC enumerates (quick: length <= 2 over 18 kinds x 3 groups x 2 values; thorough: length <= 3) "
                "performed through the public API, the emitted request parsed by a reference grammar and compared group by group; paging: every "
                "page-length sequence (lengths 0,1,2,230; up to 4 / 6 pages) with random addresses; distinct by behaviour",
        "exhaustive": True}, validated=validated)
    write_evidence(PID, tier, seed, "model_checking", cov, time.time() - t0, nviol,
                   ["D4: the terminator occurs only as the last entry of the last page", "filter values are texts without backslash / NUL",
                    "reference grammar parser of the harness (40 lines) is trusted"])
    return 1 if nviol else 0


def replay(path):
    return generic_replay(path)
