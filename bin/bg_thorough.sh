#!/bin/bash
# bg_thorough.sh <tier> [ids...]: for `vp run --with-repo -- bin/bg_thorough.sh thorough`: points this SNAPSHOT's harness at the
# snapshot of /repo ($VP_RUN_REPO) so that the sweep is not disturbed by seeded changes applied to /repo meanwhile.
# Results of such a run are not evidence (they come from snapshots); they only tell where to look.
set -u
[ -n "${VP_RUN_REPO:-}" ] || { echo "needs vp run --with-repo"; exit 2; }
case "$(pwd)" in /verif|/verif/*) echo "refusing to rewrite /verif/harness/Cargo.toml"; exit 2;; esac
sed -i "s#/repo/crates#$VP_RUN_REPO/crates#" harness/Cargo.toml
[ -f "$VP_RUN_REPO/Cargo.lock" ] || cp /repo/Cargo.lock "$VP_RUN_REPO/Cargo.lock"
export VERIF_REPO=$VP_RUN_REPO
exec bin/run_all.sh "$@"
