#!/bin/bash
# try_mutant.sh <seeded dir> <property id> [more ids]: apply the seeded patch to /repo, run the quick checks,
# always restore /repo afterwards. Prints one line per check: DETECTED / MISSED / TOOLERR.
d=$(realpath "$1"); shift
cd /repo || exit 2
if ! git diff --quiet; then echo "/repo has uncommitted changes"; exit 2; fi
git apply "$d/patch.diff" 2>/dev/null || git apply --3way "$d/patch.diff" 2>/dev/null || { echo "PATCH-DOES-NOT-APPLY $d"; git checkout -- . ; exit 3; }
git reset -q 2>/dev/null
for id in "$@"; do
  cp /verif/evidence/$id.json /tmp/evidence_$id.bak 2>/dev/null      # evidence files describe runs on the unchanged tree only
  out=$(cd /verif && bin/check $id quick 2>&1); rc=$?
  mv /tmp/evidence_$id.bak /verif/evidence/$id.json 2>/dev/null
  sig=$(echo "$out" | grep -A1 "^VIOLATION" | grep signature | head -3 | tr '\n' ';')
  case $rc in 1) echo "$(basename $d) $id DETECTED $sig";; 0) echo "$(basename $d) $id MISSED";; *) echo "$(basename $d) $id TOOLERR rc=$rc"; echo "$out" | tail -5;; esac
done
git -C /repo checkout -- . ; git -C /repo clean -fdq crates 2>/dev/null
