#!/usr/bin/env python3
"""mkmeta.py: (re)writes seeded/<id>/meta.json for every seeded change from the tables of DESIGN.md section 9
(what it is, what it needs, which check catches it), seeded/REGRESSION.md (last regression result) and the
directory's confirm.log (what was run to confirm it).  Hand-written fields of an existing meta.json are kept
("extra")."""
import json, os, re, sys
root = os.path.join(os.path.dirname(os.path.abspath(__file__)), '..')
design = open(os.path.join(root, 'DESIGN.md')).read()
rows = {}
for l in design.splitlines():
    m = re.match(r'\| (C\d\d_[a-z]) (.*?) \| (.*?) \| (.*?) \|\s*$', l)
    if m:
        rows[m.group(1)] = dict(change=m.group(2), needs=m.group(3), caught_by=m.group(4))
reg = {}
p = os.path.join(root, 'seeded', 'REGRESSION.md')
if os.path.exists(p):
    for l in open(p):
        m = re.match(r'\| (C\d\d_[a-z]) \| (C\d\d) \| (\w+)\s*(?:— (.*?))? \|', l)
        if m:
            reg[m.group(1)] = dict(check=m.group(2), result=m.group(3), signature=(m.group(4) or '').strip())
n = 0
for d in sorted(os.listdir(os.path.join(root, 'seeded'))):
    dd = os.path.join(root, 'seeded', d)
    if not re.match(r'C\d\d_[a-z]$', d) or not os.path.isdir(dd):
        continue
    files = sorted(os.listdir(dd))
    demo = [f for f in files if f.startswith('demo')]
    conf = ''
    cl = os.path.join(dd, 'confirm.log')
    if os.path.exists(cl):
        conf = open(cl, errors='replace').read()
    base = re.search(r'== base: (\w+)', conf)
    rcs = re.findall(r'demo rc=(\d+)', conf)
    results = re.findall(r'^test result: (\w+)', conf, re.M)
    if len(rcs) >= 2:
        without, with_ = ('pass' if rcs[0] == '0' else 'fail'), ('pass' if rcs[-1] == '0' else 'fail')
    elif len(results) >= 2:
        without, with_ = ('pass' if results[0] == 'ok' else 'fail'), ('pass' if results[-1] == 'ok' else 'fail')
    else:
        without = with_ = 'unknown'
    suite = re.search(r'Summary.*?(\d+) passed, (\d+) failed', conf)
    row = rows.get(d, {})
    old = {}
    mp = os.path.join(dd, 'meta.json')
    if os.path.exists(mp):
        try:
            old = json.load(open(mp))
        except Exception:
            old = {}
    script = 'bin/confirm_mutant.sh' if 'demo_mutant.rs' in files else 'bin/confirm_mutant2.sh'
    meta = {
        'id': d,
        'property': d.split('_')[0],
        'round': d.split('_')[1],
        'change': row.get('change', old.get('change', '')),
        'needs_to_manifest': row.get('needs', old.get('needs_to_manifest', '')),
        'author': 'independent sub-agent given only the property text and a scratch worktree of /repo',
        'files': {'patch': 'patch.diff', 'demonstration': demo, 'notes': 'NOTES.md' if 'NOTES.md' in files else None},
        'confirmed': {
            'how': f'{script} seeded/{d}  (scratch worktree of /repo under /tmp, removed afterwards)',
            'base_commit': base.group(1) if base else None,
            'compiles': bool(suite),
            'existing_suite_with_change': f'{suite.group(1)} passed, {suite.group(2)} failed (the always-failing errors::kind::tests::test_display)' if suite else None,
            'demonstration_without_change': without,
            'demonstration_with_change': with_,
            'log': 'confirm.log',
        },
        'checks_run': {
            'how': f'bin/try_mutant.sh seeded/{d} {reg.get(d, {}).get("check", d.split("_")[0])}  (git -C /repo apply, quick check, git -C /repo checkout -- .)',
            'last_regression': reg.get(d),
            'caught_by': row.get('caught_by', old.get('caught_by', '')),
        },
    }
    if 'extra' in old:
        meta['extra'] = old['extra']
    json.dump(meta, open(mp, 'w'), indent=1, ensure_ascii=False)
    n += 1
print(f'{n} meta.json written; {sum(1 for d in rows)} rows in DESIGN.md')
