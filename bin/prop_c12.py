"""C12 - timeouts bound every blocking step on real sockets; bytes travel unmodified."""
import time
from vlib import *
from pipeline import *

PID = "C12"


def run(tier, seed):
    t0 = time.time()
    build_harness()
    w = workdir("c12")
    v = Verdict(PID)
    lay, tp, st = tables(tier, w)
    cs = f"{w}/cases.ndjson"
    g = tlc_gen("MC_Net.tla", cfg_for(tier, "MC_Net.cfg"), "CASE", cs, name="c12_gen")
    r1 = vh(["real-sockets", "--layouts", lay, "--templates", tp, "--in", cs, "--seed", seed], name="c12", timeout=1800)
    v.add_report(r1, "real loopback sockets")
    nviol, _ = v.finish()
    cov = std_cov(st + [g], [r1], {
        "rule": "one case = (protocol, IPv4/IPv6, number of request units answered before the server falls silent, fault mode {silent | refuse "
                "| accept-and-stall | accept-and-close}, retries) enumerated by TLC from Net.tla with its bound B; run against a real loopback "
                "server with 150 ms timeouts: elapsed <= B x 150 ms + 2 s, error class as the model says, requests seen by the server equal to "
                "those the scripted transport records for the same scenario; plus payload sizes {0,1,13,1024,1400,6144,65507} x requested "
                "sizes through the socket types directly (UDP and TCP, v4 and v6)",
        "exhaustive": True})
    write_evidence(PID, tier, seed, "fault_enumeration", cov, time.time() - t0, nviol,
                   ["wall-clock measurement with 2 s slack; never asserts a lower time bound", "loopback only (127.0.0.1 and ::1)",
                    "the HTTP client (ureq, Eco) is exercised by C07's loopback HTTP server, its timeouts by the eco case of this check"])
    return 1 if nviol else 0


def replay(path):
    return generic_replay(path)
